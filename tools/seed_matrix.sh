#!/bin/bash
# Regression of detection: every kept seed against the check of its property, 8 at a time, each in a private scratch worktree of /repo
# (RXVC_REPO) with a scratch evidence directory - /repo and /verif/evidence are not touched.   usage: tools/seed_matrix.sh [name-glob]
# Output: /verif/seeded/MATRIX.txt  (<seed> <property> exit=<code> <first VIOLATION line or summary>)
pat=${1:-*}
root=/tmp/sm
rm -rf $root; mkdir -p $root
ls -d /verif/seeded/$pat/ 2>/dev/null | xargs -n1 basename | grep -E '^C[0-9]+-' | while read n; do grep -q '"superseded"' /verif/seeded/$n/meta.json 2>/dev/null || echo $n; done > $root/all.txt
# SEED_MATRIX_SKIP=<file with one seed name per line>: seeds already done in an interrupted run (their lines are kept from SEED_MATRIX_KEEP)
if [ -n "$SEED_MATRIX_SKIP" ] && [ -f "$SEED_MATRIX_SKIP" ]; then grep -vxFf "$SEED_MATRIX_SKIP" $root/all.txt > $root/all2.txt; mv $root/all2.txt $root/all.txt; fi
W=${SEED_MATRIX_WORKERS:-8}
for k in $(seq 1 $W); do git -C /repo worktree add --detach $root/w$k HEAD >/dev/null 2>&1; done
# the checks run from a snapshot of /verif's committed state, so that /verif can be edited meanwhile
git -C /verif worktree add --detach $root/verif HEAD >/dev/null 2>&1
worker() {
  k=$1
  awk -v k=$k -v W=$W 'NR % W == k % W' $root/all.txt | while read name; do
    p=${name%%-*}
    wt=$root/w$k
    git -C $wt checkout -q -- . 2>/dev/null
    if ! git -C $wt apply /verif/seeded/$name/patch.diff 2>/dev/null; then echo "$name $p exit=NA patch does not apply"; continue; fi
    out=$(cd $root/verif && RXVC_REPO=$wt RXVC_EVIDENCE_DIR=$root/ev$k timeout 1500 python3-vt -m rxvc check $p --tier quick 2>&1)
    line=$(echo "$out" | grep -m1 "^VIOLATION" | cut -c1-160)
    sumline=$(echo "$out" | grep -E "^\[C[0-9]+\] tier" | tail -1 | cut -c1-200)
    code=$(echo "$sumline" | grep -o "exit [0-9]*" | tail -1 | sed 's/exit //')
    echo "$name $p exit=${code:-?} ${line:-$sumline}"
    git -C $wt checkout -q -- .
  done > $root/out$k.txt
}
for k in $(seq 1 $W); do worker $k & done
wait
cat $root/out*.txt ${SEED_MATRIX_KEEP:-/dev/null} | sort > /verif/seeded/MATRIX.txt
for k in $(seq 1 $W); do git -C /repo worktree remove --force $root/w$k; done
git -C /verif worktree remove --force $root/verif
rm -rf $root
echo "caught: $(grep -c 'exit=1' /verif/seeded/MATRIX.txt)  not caught: $(grep -vc 'exit=1' /verif/seeded/MATRIX.txt)"
grep -v 'exit=1' /verif/seeded/MATRIX.txt
