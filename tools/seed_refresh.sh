#!/bin/bash
# Re-base a kept seed on /repo's current HEAD after a fix: commit touched its context lines.
#   tools/seed_refresh.sh <seed name>
# Applies seeded/<name>/patch.diff with fuzz in a scratch worktree, regenerates the diff, and re-confirms: suite green and
# demo exits 1 with the change, demo exits 0 without it.  The scratch worktree is removed afterwards.
set -u
name=$1
dst=/verif/seeded/$name
wt=/tmp/seed/refresh-$name
mkdir -p /tmp/seed
git -C /repo worktree add --detach $wt HEAD >/dev/null 2>&1 || { echo "cannot create worktree"; exit 2; }
cd $wt
if ! patch -p1 -F3 -s < $dst/patch.diff; then echo "$name: does not apply even with fuzz"; cd /; git -C /repo worktree remove --force $wt; exit 2; fi
find . -name '*.orig' -delete
git diff -- reactivex > /tmp/seed/$name.new.diff
tests=$(PYTHONPATH=$wt /venv/bin/python -m pytest -q -p no:cacheprovider --timeout=900 -x 2>&1 | tail -1)
PYTHONPATH=$wt timeout 300 /venv/bin/python $dst/demo.py > /tmp/seed/$name.with.out 2>&1; with=$?
git checkout -q -- reactivex
PYTHONPATH=$wt timeout 300 /venv/bin/python $dst/demo.py > /tmp/seed/$name.without.out 2>&1; without=$?
cd /
git -C /repo worktree remove --force $wt
echo "$name: suite: $tests; demo with=$with without=$without"
if [[ "$tests" == *passed* && "$tests" != *failed* && $with == 1 && $without == 0 ]]; then
  cp /tmp/seed/$name.new.diff $dst/patch.diff
  cp /tmp/seed/$name.with.out $dst/demo_with_change.out; cp /tmp/seed/$name.without.out $dst/demo_without_change.out
  python3 - "$dst" "$tests" <<'PY'
import json, sys, subprocess
dst, tests = sys.argv[1:]
m = json.load(open(dst + "/meta.json"))
head = subprocess.run(["git", "-C", "/repo", "rev-parse", "--short", "HEAD"], capture_output=True, text=True).stdout.strip()
m.setdefault("refreshed", []).append({"onto": head, "suite_with_change": tests.strip(), "demo_exit_with_change": 1, "demo_exit_without_change": 0,
                                      "ran": "tools/seed_refresh.sh (patch -F3 in a scratch worktree of /repo HEAD, suite, demo with / without)"})
json.dump(m, open(dst + "/meta.json", "w"), indent=1)
PY
  echo "$name: refreshed"
else
  echo "$name: NOT confirmed on the new tree (kept as it was)"; exit 1
fi
