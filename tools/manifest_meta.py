"""Per-property text for MANIFEST.json (what is claimed, at which level, on what trusted base)."""

DEFAULT_REASON = ("not claimed yet: the contracts for this property have not been brought to discharge on the unchanged tree "
                  "in this round (DESIGN.md §7.1 build order); nothing is claimed until every first-wave function verifies")

NOT_CLAIMED = {}

_K1_NOTE = ("Trusted: the rxvc VC generator and its encoding of the Python subset (DESIGN §2.4), z3/cvc5, the spec machines "
            "in /verif/specs (each validated on every run against the literal Python list expression on an exhaustive small "
            "scope - that validation is bounded), A-serial (handlers of one operator instance are not entered concurrently or "
            "re-entered by their own downstream call), A-cb (deterministic user callbacks). The subscribe-boundary wrapper "
            "(C01) is what makes events after a terminal unobservable; it is proved separately.")

CHECKS = {
    "C05": {
        "text": "Each element-wise operator's real handlers (parsed from /repo on every run) are proved to refine a spec "
                "machine whose output is the list-level function named in the property: initial state established by the "
                "real subscribe body, every handler path preserves the coupling invariant and emits exactly what the spec "
                "step emits (sequence equation over an uninterpreted value sort, so None/falsy/duplicate values are models "
                "the solver may pick), no exception escapes. Inductive over the input history: all lengths, all values, all "
                "parameters; output timing is part of the per-event clause.",
        "note": _K1_NOTE,
        "technique": "K1 handler refinement against spec machines, loop invariants, SMT (z3 then cvc5); native replay of counter-models",
    },
}
