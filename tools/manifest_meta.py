"""Per-property text for MANIFEST.json (what is claimed, at which level, on what trusted base)."""

DEFAULT_REASON = ("not claimed yet: the contracts for this property have not been brought to discharge on the unchanged tree "
                  "in this round (DESIGN.md §7.1 build order); nothing is claimed until every first-wave function verifies")

NOT_CLAIMED = {}

_K1_NOTE = ("Trusted: the rxvc VC generator and its encoding of the Python subset (DESIGN §2.4), z3/cvc5, the spec machines "
            "in /verif/specs (each validated on every run against the literal Python list expression on an exhaustive small "
            "scope - that validation is bounded), A-serial (handlers of one operator instance are not entered concurrently or "
            "re-entered by their own downstream call), A-cb (deterministic user callbacks). The subscribe-boundary wrapper "
            "(C01) is what makes events after a terminal unobservable; it is proved separately. The contracts of the disposable "
            "containers / Subject the handlers are run against are re-proved inside the check of every property that uses them "
            "(registry.callee_units, read off the imports of the property's files on every run), and the functions' state is proved to "
            "be allocated per subscription and per application (frame.run_local) - the K1 proof is about one subscription of one "
            "application. A member of a handler family that notifies from inside its own subscribe call runs nested in the step that "
            "subscribes it: what the nested handler subscribed must still be live when that step returns.")

_K3_NOTE = ("Trusted: the rxvc VC generator; z3/cvc5; A-gil (a single attribute load/store or list.append on a built-in object is "
            "atomic); the Lock/RLock contract (mutual exclusion, RLock re-entrant); the sidecar monitor invariant, rely and token "
            "rules in /verif/contracts/c26.py are the specification (taken from the property statement). Call-outs into the items' "
            "own dispose() are opaque. Counter-models are replayed natively by a cooperative-thread interleaving explorer "
            "(bounded: <=2 preemptions) - that part is a replay search, not proof.")
_K3_TECH = "K3 monitor invariant + rely/guarantee interference + ghost token accounting, per critical section, SMT-discharged"

_K2_NOTE = ("Trusted: the rxvc VC generator; z3/cvc5; the spec machines in /verif/specs/c20.py are the specification (state + who "
            "receives what on each call, taken from the property statement); A-exc (an exception instance is not None; its truth value is arbitrary - a class may define __bool__ / __len__). "
            "Sequential histories (the property quantifies histories, not threads); re-entrancy from callbacks is covered by the "
            "call-out discipline: the coupling invariant is proved at every call-out, call-outs may raise, and loops that call out "
            "must iterate a snapshot. Subscribers are opaque objects here; that each of them is silenced after unsubscribing is the "
            "AutoDetachObserver clause of C01. Counter-models are replayed by a native history runner (bounded).")
_K2_TECH = "K2 class refinement against a spec machine with the call-out discipline (invariant at every call-out), SMT-discharged"

_VTS_NOTE = ("Trusted: rxvc; z3; A-time (datetime/timedelta arithmetic is exact integer arithmetic on ticks; float<->datetime "
             "conversion is C36's business, so to_datetime/to_seconds/to_timedelta are identities here); the heapq contract (heappush "
             "adds an entry, heappop removes a <-minimum) - PriorityQueue is verified against it and ScheduledItem's __lt__/__eq__ are "
             "shown to make the heap order (duetime, insertion count); the non-reentrant Lock contract (re-acquiring it never returns). "
             "User actions are opaque call-outs that may schedule and cancel: the queue view is arbitrary after each. Actions that call "
             "advance_to/sleep/start re-entrantly are outside. Counter-models are replayed natively against a reference model of "
             "virtual time under a watchdog (bounded).")

_HO_NOTE = (" Call-out discipline for K1: wherever the real code subscribes to a source, the coupling invariant must already hold "
            "(the source may emit synchronously from inside subscribe) - the k-th such call-out of the real code is paired with the "
            "k-th `out.subscribe(...)` of the spec; the order of 'subscribe inner' / 'unsubscribe previous' / 'unsubscribe source i' "
            "events is compared with the spec's. Inner handler families are verified for an arbitrary member: created by one outer "
            "on_next from an arbitrary state, then run from an arbitrary later state in which that member is live.")

CHECKS_K1 = {
    "C15": {
        "text": "K1-T contracts (virtual time: one instant per step, timers compared by their due instants, timer and handler families). "
                "delay (observable_delay_timespan, relative and absolute due time): the source reaches the handler through the callee "
                "contracts of materialize and timestamp (C05 / C15); the real queue of time-stamped notifications IS the spec's sequence of "
                "(notification, due = arrival + d) records; the spec machine is written over three recursive functions of that queue "
                "(the elements of the due prefix, whether that prefix reaches the completion, what is left) whose defining equations are "
                "instantiated on the ground terms; the first record arms the timer for d when idle, every tick delivers exactly the due "
                "prefix in order - the drain loop is cut at a loop invariant that also covers the iterations after the completion was "
                "delivered - and re-arms for the head that is left, or goes idle; an error is delivered at once and drops what is "
                "pending. Queue well-formedness (a completion record is the last record; none while the source is live) is part of the "
                "invariant: its preservation under append uses two snoc lemmas that are proved by structural induction (seqlemma unit). "
                "A subscription leaves the operator's parameters unchanged (absolute due times are re-based per subscription). "
                "delay_with_mapper_ (mapper form): every element is held in the composite until mapper(x) first emits or completes - "
                "handler family per element, identity = the held element - then delivered exactly once: a member that has delivered is deaf "
                "to whatever its source still sends (obligation 'a-spent-member-is-deaf', which found defect 7685592); completion when the "
                "source completed and nothing is held. delay_subscription_: the subscriber itself is handed to the source by a timer "
                "set at subscription for d (or the absolute instant). timestamp_ / time_interval_: each element with the clock reading of "
                "its step / the time since the previous element or the subscription.",
        "note": _K1_NOTE + _HO_NOTE + " A-time / A-time-step as in C16; absolute times are tagged integers. A-exc: an exception object is not None (its truth "
                "value is arbitrary - the obligation that found defect 1fc92af). The induction schema of the snoc lemmas is instantiated by "
                "the generator. delay_with_mapper with a subscription-delay observable: the handlers of the subscription delay are under contract "
                "(the source is subscribed - once - when it first emits or completes, and the delay is released); for every source of a multi-source / "
                "late-subscribing operator the scenario 'it notifies from INSIDE its subscribe call' is run too: what that notification made "
                "the operator subscribe must still be subscribed when subscribe returns (the obligation that shows the defect of the last "
                "C15 fix on the pre-fix tree). Thorough tier: must-fail mutants and timedrun.py (TestScheduler grid against references written from the "
                "property text) as cross-check of delay / delay_subscription / timestamp / time_interval; numeric virtual clock only (the "
                "datetime clock of HistoricalScheduler is the same code under A-time).",
        "technique": "K1 handler refinement in virtual time with timer / handler families, recursive sequence functions with ground unfolding, loop invariants, K8 snoc lemmas by induction, SMT",
    },
    "C18": {
        "text": "The window operators under K1 / K1-T contracts with their own subjects used through the Subject contract (C20; calls on a "
                "window's subject are events of its channel, compared with the spec's in order: receiver, kind, payload) and the windows "
                "handed downstream as add_ref(subject, the subscription's ref count). window_with_count_: the real queue IS the spec's "
                "sequence of open windows and n[0] its element count; the spec machine keeps ghost counters with the closed forms "
                "opened = n // skip + 1, closed = 0 if n < count else (n - count) // skip + 1 as ITS state invariant (proved established "
                "and preserved by every step), the drain loops of on_error / on_completed are cut at loop invariants (sent + q = old q), "
                "and a K8 lemma proves that window k is open at element n iff k*skip <= n <= k*skip + count - 1 - the property's wording. "
                "window_ (boundaries, two sources), window_when_ (the closing observables are a handler family behind take(1), created "
                "at subscription and by each other; closing_mapper may raise), window_with_time_ (one timer chain; the pending timer is "
                "due at min(next opening, next closing), windows open at t0 + k*timeshift and close at t0 + k*timeshift + timespan - "
                "closed forms over ghost counters as the spec's state invariant; the real next_shift / next_span / total_time cells and "
                "the flags in the pending action's closure are coupled to it; timers re-arm themselves by the same code), "
                "window_with_time_or_count_ (one window at a time, closed by its count-th element or its timer; window_id invalidates "
                "stale timers; the timer's own invariant _id == k is proved when it is set). Every element goes to exactly the open "
                "windows in order; all open windows end with the source's terminal kind; the invariant holds at every call-out "
                "(re-entrancy discipline). buffer_, buffer_when_, buffer_toggle_, buffer_with_count_, buffer_with_time_, "
                "buffer_with_time_or_count_ are proved to be the corresponding window operator with the same arguments followed by "
                "flat_map(to_list) (+ the non-empty filter of the count form): each buffer is the contents of its window (to_list / "
                "flat_map contracts: C06 / C11). window_toggle_ is proved to be group_join over the openings (source joined, windows "
                "live as long as closing_mapper(opening), elements retained for empty()), and group_join_ itself is under contract "
                "(session 4): two abstract maps (id -> window subject, id -> retained right element), two handler families (left / right "
                "durations behind take(1), member invariants with the rely proved for members of both families), every right element to "
                "every open window, the retained elements replayed in order into a new window, errors end every open window and the "
                "output, a spent duration is deaf; the snapshot obligation found the second 'live map walked while notifying' defect "
                "(fixed). The spec machine states the REAL contract of group_join (the right side's completion is ignored, the left side's "
                "completion ends the output only); against the PROPERTY's toggle rule the bounded stand-in (winrun.py grid) reports the "
                "listed known finding: the source's completion neither ends the open toggle windows nor the output.",
        "note": _K1_NOTE + _HO_NOTE + " A-time / A-time-step as in C16 (timedelta(seconds=x) is x ticks). The order between a notification sent to a "
                "window and an element handed to the downstream observer inside one step is not compared (two channels). window_with_time: "
                "the machine has no terminated state (its timer chain goes on until the subscription is released, unobservably - C01/C02). "
                "Requires timespan >= 1 and timeshift >= 1. A raising closing_mapper of window_when ends the output but leaves the window just "
                "opened without a terminal (real code and spec agree; noted in DESIGN §9). Ties at equal virtual instants are the "
                "scheduler's (C28). join: not under contract (no property anchors it).",
        "technique": "K1 / K1-T handler refinement with subject channels, sequences of open windows, loop invariants, timer and handler families; spec-state invariants with div/mod closed forms + K8 lemma; wiring contracts; bounded stand-in for toggle; SMT",
    },
    "C19": {
        "text": "group_by_until_ under a K1 contract over an ABSTRACT MAP from keys to the subjects of the live groups (a z3 array plus "
                "the sequence of its values in iteration order; the real OrderedDict operations get / [] / []= / del / values() are "
                "interpreted on it, a missing key raises KeyError as in Python): the real handlers refine the spec machine "
                "specs/c19.py:group_by_until step by step from an arbitrary state with same(writers, s.live) - a group is handed "
                "downstream exactly when the key of the element is not in the map (first time, or again after its group expired), as "
                "GroupedObservable(key, writer, the subscription's ref count); the duration mapper is called with the plain "
                "(not ref-counted) group; the mapped element goes to exactly the writer of its key; each of the three failing user "
                "functions, the source's terminal notifications and a failing duration reach EVERY live writer in map order and then "
                "the output. The subjects the operator creates are used through the Subject contract (C20): calls on them are events "
                "of their own channels, compared with the spec's in order (receiver, kind, payload). The per-group duration "
                "subscriptions are a handler family behind the callee contract of take(1): created by one arbitrary element from an "
                "arbitrary state, its member invariant (the map holds this writer for this key; the subscription is held by the group "
                "disposable) is proved at creation and assumed in an arbitrary later state in which the member is pending - also after "
                "the output ended - and its first element or its completion removes exactly that key and completes exactly that "
                "writer. Call-out discipline: the coupling invariant holds at every call-out (downstream, writers, duration "
                "subscribe); a loop that notifies the writers must not walk a collection that a re-entered family handler changes "
                "(it has to iterate a snapshot) - the obligation that found defect 9bbc971. group_by_ is proved to be group_by_until "
                "with the very mappers it was given and never() durations; GroupedObservable / add_ref: subscribing takes exactly one "
                "share of the ref-counted subscription and subscribes the observer to the subject once, the result releases each "
                "exactly once; partition_ / partition_indexed_: two filters of ONE shared publish|ref_count of the source whose "
                "predicates are the given one and its exact negation (one call, same arguments, exceptions propagate) - with the "
                "filter contract (C05) every element goes to exactly one output.",
        "note": _K1_NOTE + _HO_NOTE + " A-key: dict key equality is the equality of the uninterpreted value sort (hash / __eq__ of user "
                "keys consistent with it). A-subject: subjects are truthy objects; a user subject_mapper hands back a new subject on "
                "every call. Family rely: the member invariant is proved at creation and assumed in the later state (its stability "
                "under the steps of OTHER members rests on the writers being distinct objects; argued, not machine-checked). A "
                "duration that fires synchronously inside subscribe expires the group before the element is delivered: the element "
                "goes to the completed writer and is dropped (Subject contract) - real code and spec agree, the native reference "
                "says the same. Dispose-time behaviour (ref counting across groups) is C02/C27. Thorough tier: must-fail mutants and "
                "winrun.py (native TestScheduler grid against a reference written from the property text, incl. durations derived "
                "from the group itself) as cross-check; the same runner is the bounded stand-in on drift and the replay search.",
        "technique": "K1 handler refinement with an abstract key->subject map, subject channels, handler families behind callee contracts and the call-out discipline; function contracts for the wiring; SMT",
    },
    "C11": {
        "text": "merge_all_ and merge_(max_concurrent=n) are proved to refine their spec machines for all outer timelines and an arbitrary "
                "number of inner sources: inner elements are forwarded at once and unchanged (per-inner order and timing), an inner or "
                "outer error terminates, completion only when the outer completed and no inner is live; with max_concurrent at most n "
                "inners are subscribed, the others wait in a FIFO queue and the next one starts when a live one completes (same "
                "source, same moment as the spec); operator state is consistent at every point where an inner is subscribed, so inners "
                "that complete synchronously inside subscribe are covered. The compositions are under wiring contracts (flatwire.py, real "
                "code executed symbolically with the stage operators used by contract): _flat_map_internal is source | "
                "map_indexed(P) | merge_all() where P calls the user's function exactly once with the element (and the index for the "
                "indexed form) and returns the very observable it got, from_future of a future, from_ of anything else, an exception "
                "propagating unchanged; flat_map_ / flat_map_indexed_ pass a callable mapper on and turn a non-callable one into the "
                "constant function; ops.concat_map is map(project) | merge(max_concurrent=1); reactivex.merge / observable.merge.merge_ "
                "is from_iterable(the very sources in order) | merge_all(); ops.merge / merge_all / flat_map / flat_map_indexed are "
                "their implementation functions with the very arguments. The contracts of the containers these functions use "
                "(CompositeDisposable, SingleAssignmentDisposable: C26) are re-proved inside this check, and the functions' state is "
                "proved to be allocated per subscription / per application (frame condition).",
        "note": _K1_NOTE + _HO_NOTE + " Assumed in the wiring unit: alias(name, doc, f) is f under another name (types.FunctionType copy). "
                "flatrun.py (native TestScheduler grid over a pool of inner sequences - cold, synchronous, failing, never-ending, the same "
                "one twice - against an event simulation written from the property text: outputs and subscription intervals) is the "
                "replay search, the thorough cross-check and the bounded stand-in on drift.",
        "technique": "K1 handler refinement with handler families and call-out discipline; function contracts for the compositions (wiring); callee contracts re-proved; frame conditions; SMT",
    },
    "C12": {
        "text": "switch_latest_ is proved to refine its spec machine: an inner element/error/completion is forwarded iff its inner is the "
                "most recently received one (arrival number equals the counter), the previous inner is unsubscribed before the new one "
                "is subscribed (event order compared with the spec, via the SerialDisposable contract of C26), completion iff the outer "
                "completed and the latest inner completed; state is consistent where the new inner is subscribed. switch_map, "
                "switch_map_indexed and flat_map_latest_ are proved (wiring contracts, flatwire.py) to be EXACTLY map(project) resp. "
                "map_indexed(project) followed by switch_latest() with the user's function handed on unchanged - no stage in between. "
                "SerialDisposable / SingleAssignmentDisposable / CompositeDisposable contracts are re-proved inside this check; state is "
                "per subscription (frame condition).",
        "note": _K1_NOTE + _HO_NOTE + " flatrun.py (native grid, see C11) is the replay search, thorough cross-check and bounded stand-in.",
        "technique": "K1 handler refinement with handler families (arbitrary inner id), event-order comparison; function contracts for the compositions; SMT",
    },
    "C13": {
        "text": "amb_ (binary, exact): the first source to notify is mirrored and the other one is unsubscribed in that very step (event "
                "compared with the spec), later events of the loser are dropped. zip_, combine_latest_, with_latest_from_, fork_join_: "
                "every handler of every source refines the spec machine for ARITY 2 AND 3 (the per-source loops unroll; histories and "
                "values are unbounded): zip pairs k-th elements and completes when a completed source has an empty queue; "
                "combine_latest emits the tuple of latest values once all have one (and completes early only when all OTHER sources "
                "are done); with_latest_from emits on primary elements once every other source has a value; fork_join emits the tuple "
                "of last values when all completed or completes at once on an empty completion.",
        "note": _K1_NOTE + " BOUND (stated, not proved beyond it): arity <= 3 for the n-ary combinators (the property asks for 1..4); "
                "arity-generic invariants would need quantified array invariants. A-sentinel: user values do not claim equality with "
                "the library-private NotSet sentinel of with_latest_from. reactivex.amb (n-ary fold of amb_) is not separately contracted.",
        "technique": "K1 handler refinement per source index at arity 2 and 3, SMT",
    },
    "C08": {
        "text": "Opacity contract on the AST of every module of reactivex/operators, reactivex/observable and reactivex/subject: element "
                "values (the element parameter of every on_next handler - functions and lambdas handed as on_next to .subscribe(...) or "
                "an observer constructor, and the value parameter of on_next/_on_next_core methods - and everything they flow into by "
                "assignment, nonlocal cells, containers (append / item store / self.<field>) and back out (pop, index, iteration, field "
                "read, conditional expressions)) never reach a truthiness or None test: for every condition of if/while/ternary/assert/"
                "comprehension filter, every operand of not/and/or, every bool(...) argument and every comparison with None in a "
                "function that handles elements, the expression is not element-valued (about 310 sites). Where an operator or subject "
                "has a K1/K2 contract (C05, C06, C11-C13, C20-C23) the same is proved path-sensitively: the elements there are terms of "
                "an uninterpreted value sort whose truthiness and equality with None the solver chooses freely, so a dropped or "
                "mistaken falsy element is a counter-model of the refinement obligations.",
        "note": "Trusted: the taint rules (flow-insensitive, name-based, per module; A-static). The result of calling anything (key "
                "mapper, predicate, len, Timestamp(...)) is not an element, so a user key that is falsy is out of scope here (keys are "
                "compared, not tested, in the contracted operators). Elements that travel through structures the rules do not follow "
                "(dict values, attributes of other objects, Notification records, scheduler state) are only covered where a K1/K2 "
                "contract exists: the delay/replay family (Timestamp / notification queues) is covered by the bounded native "
                "cross-check only. Refuted obligations are replayed by falsyrun.py: ~65 pipelines and subjects run on sequences over "
                "{None, 0, '', (), [], {}} and on distinct truthy tokens in their place; the outputs must agree up to the renaming - "
                "bounded (lengths <= 4), replay and thorough-tier cross-check only.",
        "technique": "opacity (no-observation) contract decided by taint analysis on the AST; K1/K2 refinement over an uninterpreted value sort for the contracted units",
    },
    "C09": {
        "text": "Guard contracts on the AST of every module of reactivex/operators and reactivex/observable (about 200 handler / action "
                "entry points): a function of a module MAY LET A USER EXCEPTION ESCAPE iff, outside every `try` whose handlers catch "
                "Exception, it calls a user callback (a called parameter of the operator factory chain, an alias of one such as "
                "`comparer_ = comparer or default_comparer`, one of its own parameters, or a `self.<attr>` bound from a constructor "
                "parameter - so helpers that are handed the callback are followed) or another function of the module that may (least "
                "fixpoint over the module's call graph, methods by name). Obligations: (1) no entry point - a function or lambda handed "
                "to .subscribe(...), .schedule*(...) or an observer constructor, i.e. code run by whoever emits the notification or by "
                "the scheduler - may let a user exception escape; (2) every guard around a user-callback call delivers the exception "
                "(its catch-all handler calls <x>.on_error / fail / throw or re-raises). The K1 contracts (C05, C06, C11-C13) "
                "additionally prove, path-sensitively, for every contracted operator that the raising branch of each callback ends in "
                "exactly one on_error with that exception and nothing after it.",
        "note": "Trusted: the classification above (A-static: names mean what the module source says; callbacks reached through data "
                "structures other than `self.<attr>` or handed to code outside the module are not followed); path-insensitive (a call "
                "guarded on one path only is reported, never missed). Admitted without a guard, as the property's scope allows: calls "
                "made by the subscribe function itself (Observable.subscribe's fail() clause, proved under C01, routes them to "
                "on_error), calls made at dispose time, callbacks handed on to another operator (that operator's own obligation). 'The "
                "pipeline stops and the grammar holds afterwards' is C01 applied to the delivered on_error; the resource-release half "
                "is C02 and is NOT claimed. Refuted obligations are replayed by guardrun.py (fault injection at the k-th call of the "
                "callback over a hot, non-catching source; table of ~48 operator/callback pairs) - bounded, replay and thorough-tier "
                "cross-check only.",
        "technique": "guard (exception-escape) contracts decided modularly on the AST with a least-fixpoint over each module's call graph; K1 for the path-sensitive part",
    },
    "C10": {
        "text": "Contracts on the three engines concat_with_iterable_, catch_with_iterable_ and on_error_resume_next_ (subscribe + one "
                "arbitrary tick + the continuation handler) and on every wrapper that feeds them. Engine: subscribe takes ONE iterator, "
                "schedules ONE tick, subscribes and emits nothing; disposing the result stops future ticks and disposes the current "
                "subscription and the pending tick. The tick, from an arbitrary state (iterator position, disposed or not, anything "
                "held in the serial disposables): disposed - does nothing; otherwise asks the iterator exactly once; an item - "
                "subscribes exactly THAT source once, with the subscriber's own on_next, the subscriber's own handler for the "
                "terminal the operator does not continue on and a continuation handler for the one it continues on (completion for "
                "concat, error for catch, both for on_error_resume_next), the new subscription replacing (disposing) the previous "
                "one, nothing emitted or scheduled; exhausted - on_completed (catch: the last error if any); a raising iterator - "
                "on_error with that exception. The continuation handler schedules exactly one tick of the same closure and nothing "
                "else. Hence: strictly one source at a time, the next only after the previous one ended the continuing way; output = "
                "concatenation of the elements; a non-continuing terminal ends it at once. Wrappers: reactivex.concat / catch / "
                "on_error_resume_next and the operators concat_, catch_ (fallback observable), on_error_resume_next_ hand their "
                "sources over in order; start_with_ = concat(from_iterable(values), source); repeat_(n) / retry_(n) hand over an "
                "iterable that yields the source itself exactly n times (forever for None), built anew for every subscription "
                "(inside defer / subscribe), so repeat subscribes exactly n times when every run completes and retry at most n times; "
                "while_do_ hands over takewhile(condition, source for ever) built per subscription; do_while_ = source then "
                "while_do.",
        "note": "Trusted: rxvc; z3; the scheduler is opaque (that a scheduled tick runs once is C30 - the default scheduler here is the "
                "current-thread trampoline); iterables of sources follow the iterator protocol over an arbitrary sequence; each source "
                "is opaque and obeys the notification grammar (one terminal), which is what makes 'one tick per continuing terminal' "
                "mean 'one source at a time'; SerialDisposable / SingleAssignmentDisposable run for real (C26); A-exc (an exception "
                "instance is not None, its truth value is arbitrary - which found catch's `if last_exception:`, fixed); itertools.takewhile and generator expressions over range / "
                "infinite() are trusted library semantics (the obligation is what is handed to them). Not under contract: the handler "
                "form of catch (catch_handler - its own subscribe logic), callables and futures among on_error_resume_next's sources, "
                "for_in (concat of map). Replay and thorough cross-check: seqrun.py (scripted cold sources, subscription order log, "
                "every operator object subscribed twice) - bounded.",
        "technique": "function/closure contracts (subscribe + one arbitrary tick + continuation) and wrapper-to-engine obligations, symbolic execution of the real code, SMT",
    },
    "C16": {
        "text": "K1-T: handler refinement in VIRTUAL TIME. Every step (a source notification or the firing of a timer) happens at one "
                "instant `now`, not before the previous one; the scheduler is opaque: `scheduler.now` reads that instant, every "
                "schedule_relative/absolute call of the real code is recorded with its due instant and compared with the timer the "
                "spec sets in the same step (same number, same instants), a timer fires exactly at its due instant (scheduler "
                "contract) from an ARBITRARY later state in which it is still pending. debounce_: an element arms a timer one due time "
                "ahead and cancels the previous one (event order compared); the timer of generation k emits the pending element iff no "
                "newer element arrived; completion flushes the pending element, an error drops it. throttle_first_: an element passes "
                "iff at least the window duration has passed since the last element that passed (clock read once per element). "
                "sample_observable: at every tick of the sampler (element or completion) the latest element not yet sampled is emitted "
                "and, once the source completed, the next tick completes - for every interleaving of source and sampler events.",
        "note": _K1_NOTE + " A-time: integer ticks, relative times are plain integers, a timer due in the past runs at the current "
                "instant (VirtualTimeScheduler semantics), conversions are identities (C36's business); A-time-step: the clock does not "
                "advance inside one handler. Timer-family invariant of debounce: a timer that is still pending is the one of the "
                "newest element (older ones were cancelled when replaced - SerialDisposable, C26 - and a cancelled timer never fires - "
                "scheduler contract C28/C30). RE-ENTRANCY: the coupling invariant is also proved at every element handed downstream, "
                "so a subscriber that calls back into the operator from inside on_next is covered. throttle_with_mapper_ "
                "(session 4): per-element family of throttle observables (user function that hands back an observable), identity = the "
                "generation; the pending element is emitted when the throttle of the NEWEST element first emits or completes, a spent "
                "member is deaf, mapper / throttle errors end the sequence. Not under contract: sample(period) = sample_observable over "
                "interval(period) (C35) is covered by the bounded native cross-check (timedrun.py, TestScheduler) only.",
        "technique": "K1 handler refinement in virtual time with timer families (K1-T), SMT; native TestScheduler replay",
    },
    "C17": {
        "text": "K1-T (see C16) for the boundary operators. take_with_time_ / take_until_with_time_ (relative and absolute): a timer "
                "is set at subscription for the boundary instant; elements pass unchanged until it fires, its firing completes the "
                "sequence. skip_with_time_ / skip_until_with_time_: elements are dropped until the timer set at subscription fires, "
                "then pass unchanged; terminals always pass. timeout_ (relative and absolute due time, with a fallback source): a "
                "timer is armed at subscription and re-armed by every element (the new timer replaces and cancels the pending one, "
                "event order compared); source notifications are mirrored while not switched; the timer of generation k fires the "
                "switch iff no notification arrived since it was armed: the subscriber itself is handed to the fallback source and "
                "the source's subscription is released; after the source terminated nothing switches (terminated-state invariant + "
                "ghost invariant of the timer families). take_last_with_time_ / skip_last_with_time_: the queue of time-stamped "
                "records is a symbolic sequence of records; the pruning loop and the flush loop are cut at loop invariants over three "
                "recursive functions of the queue (aged prefix, rest after the aged prefix, all young values) whose defining equations "
                "are instantiated on the ground terms; the boundary rule (young: age < d, not younger: age >= d) is stated once, in those "
                "functions, and every handler must agree with it. K8 lemmas by structural induction connect them with the property's "
                "words: what an arrival prunes can never be young later (the rule does not depend on unrelated arrivals), in a "
                "time-ordered queue the aged prefix is ALL the not-younger elements, prefix and rest partition the queue, and a step "
                "of the spec machines keeps the queue time-ordered.",
        "note": _K1_NOTE + " A-time / A-time-step as in C16; absolute times are tagged integers (isinstance(x, datetime) is true exactly "
                "for them). A source element AT the boundary instant is processed by whichever of the two events the scheduler runs "
                "first - both orders are covered since every step starts from an arbitrary state. Pending-set assumption used for "
                "timeout after a switch: the timer that switched was the newest one, older ones having been cancelled when replaced "
                "(SerialDisposable C26; a cancelled item never runs C28/C30). Induction schema of the K8 lemmas is instantiated by the "
                "generator, not checked by the solver. timeout_with_mapper_ (session 4, not named in the statement but the same rule): "
                "first_timeout is a third source, the per-element timeouts a handler family with identity = generation and the ghost "
                "invariant 1 <= k <= gen, term => k < gen (proved established and preserved); the timeout being watched switches to the "
                "fallback ONCE (spent-member obligation: found the double switch fixed by the last C17 fix commit). Subscribe-phase order: "
                "timers are set before the source is subscribed (found skip_until_with_time_'s inverse order, fixed). timeout without a "
                "fallback is timeout with fallback throw(...) (C37).",
        "technique": "K1 handler refinement in virtual time with timer families and loop invariants over recursive sequence functions (K1-T), K8 lemmas by induction, SMT",
    },
    "C22": {
        "text": "Function contracts with loop invariants on the real ReplaySubject, the retained queue viewed as a SEQUENCE of (time, "
                "value) records with non-decreasing times, buffer_size and window arbitrary (None = no limit). _trim(now): both loops "
                "are cut at their invariants (one arbitrary iteration from an arbitrary queue): the size loop removes exactly the head "
                "and only while more than buffer_size records are retained, stopping exactly when at most buffer_size are left; the "
                "age loop removes exactly the head and only while it is older than the window at `now`, stopping exactly when the "
                "queue is empty or its head is young enough - so after _trim the queue is the longest suffix with at most "
                "buffer_size records whose head is within the window: 'the last buffer_size values whose age is within the window'. "
                "_on_next_core: under the lock it snapshots the subscribers, reads the clock once, appends exactly (now, value) at the "
                "tail and trims with that time; outside the lock it gives the value to every subscriber of the snapshot in order and "
                "activates each. _subscribe_core, under the lock and in this order: refuses when disposed; trims with the current "
                "time; registers a new ScheduledObserver(subject's scheduler, observer); replays (the loop is cut: one arbitrary "
                "iteration gives exactly that record's value to exactly the new observer and nothing else); then the stored error, "
                "else completion if stopped; after the lock it activates the observer and returns a disposable that unregisters "
                "it. Registration + replay and (append + snapshot) are critical sections of the same lock, so a value is either "
                "replayed or forwarded to a given subscriber - never both, never neither: nothing duplicated, lost or reordered. "
                "The terminal cores snapshot and clear the subscribers (and keep the error), trim, and give the terminal to every "
                "subscriber they had. RemovableDisposable / dispose unregister and clear. The ScheduledObserver contract this argument "
                "uses (every notification handed to it is delivered to the wrapped observer exactly once, in order, the terminal last: "
                "C32) is re-proved inside this check.",
        "note": "Trusted: rxvc; z3; A-time (integer ticks, the scheduler clock is an opaque monotone reading bounded by 10^15; "
                "timedelta.max is modelled as 10^18); QueueItem (a NamedTuple) is modelled as the pair (interval, value); deque.popleft "
                "/ append are sequence operations; what a ScheduledObserver does with what it is given (exactly-once, in-order "
                "delivery on the scheduler) is C32, used here as a contract; the Lock contract. Sequential histories (the property "
                "quantifies histories); the 'either replayed or forwarded' argument is the lock-discipline argument spelled out above, "
                "its per-method premises are what is proved. Replay and thorough cross-check: replayrun.py (timed histories on a "
                "VirtualTimeScheduler against a reference model) - bounded.",
        "technique": "function contracts with loop invariants (one arbitrary iteration) over a sequence view of the queue, symbolic execution of the real code, SMT",
    },
    "C24": {
        "text": "Function / closure contracts on the real multicasting code. ConnectableObservable.connect, from either state: not "
                "connected - subscribes the SUBJECT to the source exactly once, marks itself connected and returns a disposable holding "
                "that subscription, whose disposal disposes the source subscription once and marks it disconnected (the next connect "
                "subscribes again); connected - subscribes nothing and returns the same connection. _subscribe_core subscribes the "
                "observer to the subject and nothing else, so a subscriber sees exactly what the subject gives it from then on (what "
                "that is, replay and current value included, is C20-C23). ref_count, from any count >= 0 and with call-outs that may "
                "re-enter it (the count is arbitrary after each): subscribes the observer to the connectable once and before "
                "connecting, connects iff the count was 0 when this subscription started - decided before any call-out -, and the "
                "returned disposable unsubscribes, decrements and disconnects iff the count returned to 0, once. auto_connect(n): "
                "connects at once iff n == 0; otherwise the k-th subscription connects iff k == n and it is not connected; every "
                "subscription subscribes the observer to the connectable exactly once. multicast_: subject form = "
                "ConnectableObservable(source, that subject); neither subject nor factory = ValueError; factory form, per "
                "subscription: one subject from the factory (called with the scheduler), a connectable over it handed to the mapper, "
                "the mapper's result subscribed with the observer and THEN connect, both held by the result. publish_ / replay_ / "
                "publish_value_ are multicast over a new Subject() / ReplaySubject(buffer_size, window, scheduler) / "
                "BehaviorSubject(initial_value) per application; share_ = publish followed by ref_count.",
        "note": "Trusted: rxvc; z3; sources, subscribers and (where not constructed by the code) subjects are opaque - subscribe calls are "
                "recorded, a subscription is an opaque disposable; Disposable / CompositeDisposable run for real (C25/C26). Not "
                "thread-safe by design (ref_count's counter is unlocked): concurrent subscribe/unsubscribe is outside. The mapper forms "
                "of publish_/replay_/publish_value_ are covered through multicast_'s factory form only as far as 'which factory'; "
                "auto_connect never disconnects (by design) and resets its connected flag when any subscriber leaves - harmless "
                "because connect() is idempotent while connected. Replay and thorough cross-check: mcastrun.py (all histories of "
                "length <= 4 over hot and cold sources against a reference model, plus re-entrant ref_count cases) - bounded.",
        "technique": "function/closure contracts with re-entrancy havoc at call-outs, symbolic execution of the real code, SMT",
    },
    "C32": {
        "text": "Rely/guarantee contracts with a ghost OWNER TOKEN on the real ScheduledObserver / ObserveOnObserver / observe_on_. Two "
                "roles: the producer (appends a thunk, then ensure_active) and the runner (a scheduled `run`). The token exists iff "
                "is_acquired and not has_faulted; it is minted by the critical section of ensure_active that flips is_acquired, travels "
                "with every scheduler.schedule(self.run) and is given up by the critical section of run that clears is_acquired. Every "
                "method is executed as one thread of its role against an arbitrary environment of the other role (fields havocked "
                "under that role's guarantee whenever the lock is not held). ensure_active decides under the lock, keeps the "
                "producer's guarantee (queue and fault flag untouched, is_acquired only rises), schedules self.run - exactly once, "
                "outside the lock, keeping the handle for cancellation - iff that section minted the token, and leaves 'not faulted "
                "and queue non-empty implies acquired' (no lost wake-up: no received notification is ever left without an owner, so "
                "none stays undelivered while the scheduler is idle). run, entered with the token: its critical section either takes "
                "exactly the HEAD of the queue or - only when the queue is empty in that very section - gives the token up and returns "
                "without delivering or scheduling; the thunk taken is invoked exactly once, outside the lock, by the token holder "
                "(exactly once, in the order received, never two deliveries at once); on return it schedules self.run exactly once "
                "keeping the token; when the delivery raises, the queue is emptied and the fault latched in one critical section, "
                "nothing is scheduled and the same exception propagates (nothing further is delivered). The *_core methods append "
                "exactly one thunk at the tail which makes exactly that one downstream call; ObserveOnObserver's cores are the "
                "inherited core followed by ensure_active; observe_on_ subscribes the source once with an ObserveOnObserver over "
                "(target scheduler, subscriber); dispose stops the observer and cancels the pending run.",
        "note": "Trusted: rxvc; z3; the RLock contract; A-gil (list.append and an attribute store are atomic - the producer appends "
                "without the lock); A-serial for the producer side (one on_* call at a time: the notification grammar of the source); "
                "the target scheduler is opaque: that it runs each scheduled run exactly once and - for the 'never two at once' clause "
                "with multi-threaded schedulers - that the next run is only scheduled after the previous delivery returned (proved "
                "here) is all that is needed. ReplaySubject's use of ScheduledObserver is covered by these contracts; its replay "
                "semantics are C22 (not claimed). Replay and thorough cross-check: obsrun.py (real threads made cooperative, all "
                "line-level interleavings with <= 2 preemptions over 5 scenarios) - bounded.",
        "technique": "rely/guarantee reasoning with a ghost ownership token over the real methods (environment havoc under the other role's guarantee), SMT",
    },
    "C30": {
        "text": "Function contracts with a loop invariant on the real Trampoline, TrampolineScheduler and CurrentThreadScheduler. "
                "Trampoline.run(item): when idle it enqueues exactly the item, marks the trampoline busy, enters the run loop with the "
                "lock free and - whether the loop returns or an action raises - ends idle with an empty queue; when busy it enqueues "
                "exactly the item, notifies and returns without invoking anything and without entering the loop (so an action "
                "scheduled while another runs starts only after that one returned, and there is one runner at a time). Trampoline._run: "
                "the loop is cut at its invariant (lock free, nothing pending in `ready`) and ONE arbitrary iteration is executed from "
                "an arbitrary queue: at most one item leaves the queue, it is the head of the (due time, insertion stamp) order and only "
                "when due <= the clock read in that critical section (never early); only that item is invoked, outside the lock, with no "
                "other action between choosing and invoking it (due-time order, first-scheduled-first, including everything earlier "
                "actions scheduled); it is invoked only when its cancellation flag - arbitrary after every earlier action - is false at "
                "that moment; the loop is left only with an empty queue, decided under the lock; it waits only for a head that is not "
                "yet due, holding the lock. TrampolineScheduler.schedule/_relative/_absolute hand exactly one ScheduledItem (this "
                "scheduler, the state, the action, due = now / now + max(0, d) / the given time) to get_trampoline().run and return its "
                "disposable. CurrentThreadScheduler.get_trampoline is keyed by the current thread: same thread same trampoline, another "
                "thread another one.",
        "note": _VTS_NOTE + " Here additionally: the Condition is opaque (wait releases the lock: the queue is arbitrary afterwards); "
                "`item.scheduler.now` is an opaque monotone clock; WeakKeyDictionary behaves as a dictionary keyed by identity; "
                "cancellation by ANOTHER thread between the test and invoke is outside (best effort, as the API says). The "
                "CurrentThreadSchedulerSingleton (threading.local) variant and `ensure_trampoline` are not under contract. On a tree "
                "whose run loop has a different loop structure the unit leaves the subset and the bounded native runner tramprun.py "
                "(scenario trees of <= 4 actions with past due-time offsets, one cancellation, two threads) decides that run.",
        "technique": "function contracts + loop invariant (one arbitrary iteration), PriorityQueue view by contract, symbolic execution of the real methods, SMT",
    },
    "C35": {
        "text": "Function, closure and loop contracts on the real periodic-scheduling code. PeriodicScheduler.schedule_periodic (used by the "
                "virtual-time, timeout, thread-pool, event-loop and asyncio schedulers) makes one schedule_relative(period, P, "
                "state=state) call and returns a disposable holding that tick; the closure P, by frame induction (no cell is named): "
                "a live tick calls the action exactly once with the state, reschedules THE SAME closure exactly once on the scheduler "
                "it was given with the state the action returned and a delay of period - elapsed (so the next tick is due exactly one "
                "period after this one started: k-th tick at k times the period in virtual time), stores that tick in the disposable "
                "and changes nothing else (it stays live after any number of ticks); when the action raises the exception propagates, "
                "the disposable is disposed and nothing is rescheduled; once the disposable is disposed (by the user - which cancels "
                "the pending tick - or by a raise) P returns without calling the action or scheduling and changes nothing (it stays "
                "stopped). NewThreadScheduler.schedule_periodic starts exactly one thread and returns a disposable that sets the "
                "`disposed` event; its run loop is cut at an invariant and one arbitrary iteration (any state, any remaining time, "
                "flag set or not) is executed: it waits for the remaining time iff positive, tests the disposed flag before EVERY tick "
                "(also when no wait was due because the action overran the period) and returns when it is set, otherwise calls the "
                "action exactly once with the current state, keeps the returned state and sets the next wait to period - elapsed; an "
                "exception of the action ends the loop. EventLoopScheduler.schedule_periodic raises DisposedException when disposed and "
                "otherwise delegates unchanged. timer/interval: with duetime == period one schedule_periodic(period, A, state=0) call "
                "whose A(c) emits exactly on_next(c) and returns c + 1 (0, 1, 2, ... at the ticks); otherwise the first tick is "
                "scheduled at the due time and the tick closure emits the running count, increments it and schedules itself once at "
                "dt + p (now + p when late).",
        "note": "Trusted: rxvc; z3; A-time (time values are integer ticks; to_seconds/to_timedelta/to_datetime are identities - their "
                "agreement is C36's business); the scheduler clock is an opaque monotone reading; actions are opaque (return any state "
                "or raise); threading.Event is opaque with the contract 'once set it stays set'; the thread factory is opaque (start "
                "runs the function once on another thread). That the underlying scheduler runs a scheduled tick at its due time is that "
                "scheduler's own contract (C28 virtual time, C30 trampoline; the real-time schedulers C31/C34 are not claimed). "
                "CatchScheduler.schedule_periodic is proved under C42; the GUI main-loop schedulers are not under contract. Replay and "
                "thorough cross-check: periodicrun.py (virtual-time grid + real-thread runs with a 20 ms period) - bounded.",
        "technique": "function/closure contracts with frame induction, loop invariant (one arbitrary iteration), symbolic execution of the real code, SMT",
    },
    "C37": {
        "text": "Contracts on the real source factories, each as 'subscribe + one arbitrary tick': subscribe emits nothing itself, makes "
                "exactly the one scheduling call named below and returns a disposable holding it; the tick closure, run from an ARBITRARY "
                "tick state (iterator position / loop cells), emits exactly what the equivalent Python loop yields at that point and "
                "either reschedules ITSELF exactly once or emits the terminal - by induction over the ticks the whole emission is the "
                "Python sequence followed by its terminal. range_: the iterable is Python's range called with the caller's own "
                "arguments (1, 2 or 3 of them), one item per tick, completed at exhaustion. from_iterable_: one iterator, one scheduled "
                "action whose loop (cut at an invariant: arbitrary position, disposed or not, the subscriber may dispose inside on_next) "
                "asks the iterator once per round, emits exactly that item and goes on, emits on_completed at StopIteration, on_error "
                "with the iterator's exception, and leaves silently only when disposed; disposing the result sets the stop flag and "
                "cancels the action. of = from_iterable of its arguments. return_value_ (value then completed), empty_, never_ "
                "(schedules nothing), throw_ (the given exception, or Exception(message)). generate_: each tick steps the loop `s = "
                "init; while cond(s): yield s; s = iterate(s)` exactly once, a raising user function ends in on_error and nothing "
                "more. generate_with_relative_time_: each state is emitted one tick after it was computed and the tick is rescheduled "
                "with exactly the delay computed for the new state - whatever it is, zero included. timer(d): scheduled at once for "
                "d <= 0, after d otherwise (or at the date), emits 0 then completed. timer with a period / interval: see C35.",
        "note": "Trusted: rxvc; z3; the scheduler is opaque (that it runs a scheduled tick once, at its time, is C28/C30); iterables and "
                "iterators follow the iterator protocol over an arbitrary abstract sequence (iter gives a fresh iterator at position 0; "
                "next yields item i and advances, raises StopIteration at the end, or raises anything else); Python's range is trusted "
                "(the obligation is that it is called with the caller's arguments); user functions are deterministic uninterpreted "
                "functions that may raise (A-cb) and the delay function returns a time, not None; A-time. repeat_value (return_value "
                "piped through repeat) waits for the C10 contracts and is covered by the native cross-check only; throw_ ignores the "
                "scheduler given to the factory (it uses the one given to subscribe) - outside the statement, noted. Replay and "
                "thorough cross-check: srcrun.py (argument grids on a VirtualTimeScheduler against the Python computations, emission "
                "times included) - bounded.",
        "technique": "function/closure contracts (subscribe + one arbitrary tick, loop invariant for the drain loop), symbolic execution of the real code, SMT",
    },
    "C40": {
        "text": "Two layers on the real code. (1) K1 refinement of do_action_ (all 8 combinations of its optional callbacks), "
                "do_after_next, do_on_terminate and do_after_terminate against spec machines: the sequence and its terminal pass "
                "unchanged, every callback sees its notification once and in the documented order relative to the subscriber, and a "
                "raising callback ends the sequence with on_error of that exception. (2) Function / closure contracts for the "
                "subscription side, with the library's Disposable / CompositeDisposable run for real: using_ calls the resource factory "
                "once and the observable factory once with the resource, subscribes the inner observable once, and returns a "
                "disposable that holds the subscription AND the resource whenever the factory returned one - its truthiness is "
                "arbitrary (an empty CompositeDisposable is falsy) - so that disposing it disposes each exactly once and disposing it "
                "again nothing; a raising factory (either one) reaches the subscriber as throw(that exception) and a resource already "
                "created is still held. finally_action_: a raising source.subscribe runs the action once and propagates; otherwise "
                "nothing runs at subscription and disposing the result disposes the subscription and then runs the action exactly "
                "once - also when disposing the subscription raises - and never again. do_finally: the terminal handlers pass the "
                "terminal on first and then run the action iff it has not run (flag arbitrary), the dispose hook runs it iff it has "
                "not run, each marks it as run: once per subscription in any order of termination and disposal. do_on_dispose / "
                "do_on_subscribe: the action runs exactly at disposal (once) / once before the source is subscribed.",
        "note": _K1_NOTE + " For layer (2): the source is opaque (subscribe returns a subscription or raises), actions and factories are "
                "opaque call-outs; finally/dispose actions are assumed to return normally for the exactly-once clauses. That the "
                "subscription IS disposed when the sequence terminates - which turns 'once when disposed' into 'once per subscription, "
                "at termination or disposal, whichever comes first' - is the AutoDetachObserver clause of C01, used here as a "
                "contract. Not thread-safe by design (do_finally's flag is unlocked): concurrent termination and disposal are outside. "
                "Replay and thorough cross-check: resrun.py (resource kinds incl. a falsy one x timelines x dispose order x raising "
                "factories) - bounded.",
        "technique": "K1 handler refinement for the side-effect operators + function/closure contracts for resources and finally-actions, SMT",
    },
    "C42": {
        "text": "Function and closure contracts on the real CatchScheduler under a class invariant I (handler fixed; a cached recursive "
                "wrapper is a CatchScheduler with the same handler wrapping `_recursive_original`), each proved from an ARBITRARY object "
                "satisfying I (cache empty/hit/miss, every state field the contract does not name arbitrary within its __init__ type): "
                "__init__ establishes I; _get_recursive_wrapper(s) returns a catching scheduler with the same handler that wraps s and "
                "satisfies I; _wrap(action) returns W with W(s, st): the action is called exactly once with (R, st), R catching with the "
                "same handler and wrapping s (so recursive scheduling is caught again - coinductively, R obeys this very class contract); "
                "no raise => W returns the action's value and the handler is not called; raise e => handler called exactly once with e, "
                "truthy verdict => swallowed (a Disposable is returned), falsy => the same e propagates. schedule / schedule_relative / "
                "schedule_absolute make exactly one call of the same method on the wrapped scheduler with the same due time and state and "
                "an action satisfying W's contract, return its result and invoke nothing. schedule_periodic makes one "
                "schedule_periodic(period, P, state) call and returns a disposable holding that subscription; P by frame induction: a "
                "fresh P calls the action once with the state; a successful call returns the new state, calls no handler and changes no "
                "closure cell and no field (so it stays live after any number of successes); raise e => handler once with e; truthy => "
                "returns None, the subscription is disposed, and from then on P never calls the action and changes nothing; falsy => e "
                "propagates.",
        "note": "Trusted: rxvc and its Python-subset encoding; z3; the wrapped scheduler, the actions and the handler are opaque (actions may "
                "return or raise anything and may re-enter the scheduler they are given; the handler gives any verdict); A-sched-eq: "
                "schedulers compare by identity. That the wrapped scheduler actually runs what it is handed is its own contract (C28-C31, "
                "C34), not CatchScheduler's. Counter-models are replayed by catchrun.py (scenario trees of <= 3 nodes / depth 2 and <= 2 "
                "periodic subscriptions on a VirtualTimeScheduler, handler verdicts per exception) - bounded, replay only.",
        "technique": "function/closure contracts with a class invariant and frame induction, symbolic execution of the real methods, SMT",
    },
    "C43": {
        "text": "Lock-set contracts (guarded_by): the downstream observer, every window subject handed to it, and every state cell that "
                "handlers share are guarded by the operator's ONE lock.  (a) Path-sensitive, on the K1 symbolic runs of merge_all_, "
                "merge_(max_concurrent), zip_, combine_latest_, with_latest_from_ (arity 2 and 3) and amb_: on every path of every handler "
                "of every source (pass-through handlers included) each real downstream call and each mutation of a cell list happens with "
                "the lock held; amb_ forwards outside the lock but only under its side's guard `choice[0] == <side>`, and the guards are "
                "proved pairwise exclusive, stable across every handler step of either source, and written only under the lock. "
                "(b) Path-insensitive lock discipline on the AST of merge_all_, merge_, zip_, combine_latest_, with_latest_from_, "
                "window_with_time_, window_with_time_or_count_: every nested function gets the contexts it can run in (L(lock) / "
                "subscribing thread before anything escaped / after / handler thread; helpers inherit from their call sites by least "
                "fixpoint), and no downstream call, no unwrapped hand-out of observer.on_*, no write to a handler-shared list or "
                "nonlocal occurs outside L; all L contexts name one lock expression; Observable.lock is bound once. flat_map / "
                "flat_map_indexed / reactivex.merge are proved to be `....pipe(..., merge_all())`. With the RLock contract the critical "
                "sections serialise, so for EVERY interleaving no two threads are inside the downstream observer at once and the "
                "downstream trace is one of the sequential traces, whose grammar K1/C11/C13/C01 prove.",
        "note": "Trusted: rxvc and its Python-subset encoding; z3; the Lock/RLock contract (mutual exclusion, re-entrant) and A-gil; "
                "A-static (names mean what the module source says; `synchronized(lock)` is reactivex.internal.concurrency.synchronized, "
                "whose body `with lock: return fn(...)` is interpreted for the symbolic units but pattern-matched for the AST units); the "
                "sequential grammar of the window operators is NOT proved here (no K1 contract for them) - for them only the "
                "serialisation half is proved; unlocked READS of shared cells are not obligations. Refuted obligations are replayed by "
                "racerun.py: two real threads over lock-free hot sources, thread A held inside the downstream observer while thread B "
                "delivers one event of another source or fires the pending timer (bounded pair search - replay only; in the thorough "
                "tier it also runs as a cross-check and is listed under bounded_standins, never counted).",
        "technique": "K7 lock-set / guarded_by contracts: symbolic per-path lock sets on the K1 runs (SMT) + modular lock-context typing on the AST",
    },
    "C28": {
        "text": "Function contracts with loop invariants on the real VirtualTimeScheduler (inherited unchanged by TestScheduler and "
                "HistoricalScheduler), ScheduledItem and PriorityQueue. The run loops of start and advance_to are cut at their "
                "invariant: from an arbitrary state (any clock, any queue contents, numeric or datetime clock) one iteration must "
                "invoke exactly the head of the (duetime, insertion-count)-ordered queue view, only if it is not cancelled, outside "
                "the lock, with clock' = due if due > clock and never backwards, removing exactly that entry and re-stamping none; "
                "the loop may be left only when disabled, drained or (advance_to) the head is later than the target, with the queue "
                "untouched; advance_to keeps clock <= target and ends at the target; sleep runs nothing; schedule* enqueue one item "
                "with the right due time and return its cancellation handle.",
        "note": _VTS_NOTE,
        "technique": "function contracts + loop invariants (one arbitrary iteration), queue view by contract, SMT; native replay vs reference model",
    },
    "C29": {
        "text": "Total-correctness clauses of the same contracts: every iteration of start/advance_to that does not leave the loop "
                "removes one entry from the queue before calling out (so any finite schedule, self-rescheduling included, drains); "
                "no path raises, and no path re-acquires the non-reentrant scheduler lock it holds (self-deadlock), for numeric and "
                "datetime clocks and any spinning count; the loops are left only when nothing due remains; both end with the "
                "scheduler disabled ON EVERY WAY OUT (also returns in front of the run loop), so a drained or idle scheduler can be "
                "started again.",
        "note": _VTS_NOTE + " Termination is relative to the property's own bound: finitely many actions are ever scheduled.",
        "technique": "loop variant (one entry consumed per iteration) + no-self-deadlock and returns-normally obligations, SMT; watchdog replay",
    },
    "C07": {
        "text": "K8 lemma over the C05 contracts. (1) Closed forms of the stage operators (take, skip, take_last, skip_last) are proved by "
                "snoc induction over their spec machines - the machines the real handlers are proved to refine in C05 - as sequence "
                "equations for all histories. (2) The real slice_ and Observable.__getitem__ are executed symbolically with start, "
                "stop, step each None or an arbitrary integer; on each path the recorded ops.* pipeline is composed over those closed "
                "forms as index intervals plus the stride predicate obtained by evaluating the real lambda, and for arbitrary length n "
                "and index idx: idx is emitted <=> idx in range(*slice(start,stop,step).indices(n)); emitted values are the source "
                "elements; a stage never receives a negative count; step < 0 raises. Integer form source[i] = [list[i]] in range.",
        "note": "Trusted: rxvc; z3/cvc5; Python's slice-index normalisation as encoded in natives.py_slice_bounds (the same function "
                "the interpreter uses for list slicing); len(source) < sys.maxsize; map_indexed/map/take_while enter only through their "
                "C05 list semantics (take_while for a predicate proved downward closed in the position). Source errors pass through "
                "every stage by the C05 contracts (terminal pass-through). step = 0 is outside the property (the code treats it as 1).",
        "technique": "K8 lemma: snoc-induction closed forms + interval composition over symbolic execution of slice_, SMT (LIA + sequences)",
    },
    "C06": {
        "text": "As C05 for the aggregating operators. Operators with their own subscribe (scan, last/first/single_or_default_async, "
                "to_iterable, extrema_by, to_set, to_dict, sequence_equal) are proved against their spec machines handler by handler. "
                "Composite operators (reduce, last, first, single and their _or_default forms, some, all, contains, is_empty, count, sum, "
                "average, min, max, min_by, max_by) are proved MODULARLY: each operator "
                "they pipe through is replaced by its contract (its spec machine behind the C01 wrapper), never by its body, and the "
                "composite's own spec is shown to be refined by that composition under an invariant coupling the stage states; "
                "short-circuit timing is part of the per-event clause (emission at the deciding element). Empty-input errors, the "
                "second-element failure of single and None/falsy defaults are paths/models of the same obligations.",
        "note": _K1_NOTE + " All operators the property names are under contract (27 contracts). count, sum, average, min, max, min_by, "
                "max_by are compositions proved over the contracts of reduce / scan / last / map / filter / extrema_by; to_set and to_dict "
                "are known by their INSERTION HISTORY (the emitted set/dict is an uninterpreted function of the sequence of insertions, "
                "equal histories give equal containers). A-arith: +, -, / and float() on user elements are total deterministic "
                "uninterpreted functions (exact integer arithmetic on Python ints); natively they may raise, which both the operators "
                "and the spec twins turn into on_error (covered by the bounded native cross-check only). A-order: the ordering "
                "operators of user values are mutually consistent (a < b implies a <= b). average_'s shared seed record is part of the "
                "invariant (never modified). sequence_equal is proved for two observable arguments (any interleaving of the two "
                "sources' events; comparer always gets (left, right)); the iterable argument kind goes through from_iterable and is "
                "covered by the native cross-check only. min/max take Python's ordering of the elements as the default comparer.",
        "technique": "K1 handler refinement + modular composition over callee contracts, SMT (z3 then cvc5); native replay; must-fail mutants",
    },
}

_K4_NOTE = ("Trusted: the scope classification in /verif/rxvc/frame.py (which nested function is the subscription function: the one "
            "handed to Observable(...)/defer/create or named subscribe/_subscribe_core) and its list of mutating operations (assignment "
            "through nonlocal, item assignment/deletion, list/dict/set/deque mutators, next(), for over a one-shot iterator, handing a "
            "one-shot iterator to an Iterable parameter of an observable factory). Decided on the AST of the real functions, no solver. "
            "Library code is deterministic given the callbacks (A-cb); that freshly allocated per-subscription state yields the same "
            "trace again is the K1 step functions being functions (C05..). Admitted narrowly and listed in the module docstring: "
            "idempotent `v = sched.to_timedelta(v)`, draining the re-iterable infinite(), multicast operators exempt from C04 only.")

CHECKS = {
    "C04": {
        "text": "Frame condition on every operator/factory function of reactivex/operators and reactivex/observable (175 functions): "
                "everything modified by the subscription function or anything nested in it (handlers, scheduled actions, disposers) is "
                "bound at subscription or event scope; consuming an iterator counts as a write, and a one-shot iterator built at "
                "application scope may not be handed to a callee's Iterable parameter. Hence indices, budgets, queues, iterators over "
                "argument lists and fallback sequences start fresh for every subscription of the same observable object, for all "
                "pipelines built from these functions.",
        "note": _K4_NOTE,
        "technique": "K4 frame / allocation-scope conditions over the real AST (modifies-clause check), native double-subscription replay",
    },
    "C44": {
        "text": "Frame condition on every operator factory: nothing at application, subscription or event scope writes a name bound at "
                "factory scope, no mutable object allocated at factory scope (subject, list, dict, iterator) is used by the application "
                "function or captured by the returned operator; curry_flip'd operators have no factory-scope state by construction "
                "(their whole body runs per application). Hence one operator object applied to several sources shares nothing between "
                "the applications.",
        "note": _K4_NOTE + " curry_flip itself is executed by the interpreter in every K1 unit (C05) from its real source.",
        "technique": "K4 frame / allocation-scope conditions over the real AST, native two-sources replay",
    },
    "C01": {
        "text": "Two contracts that together cover every edge of every pipeline. (1) AutoDetachObserver and Observer: each method of "
                "the real class refines a gate spec whose user-callback calls are preceded by the assertion 'no terminal callback was "
                "invoked yet' (ghost term; invariant term => is_stopped): from any state, on any path, including callbacks that raise "
                "and re-entrant calls from inside callbacks (invariant proved at every call-out) - so a source that keeps emitting "
                "after its terminal, terminates twice, or a raising callback cannot produce a call after the terminal one; the "
                "subscription is disposed on normal and exceptional exit of a terminal callback. (2) Observable.subscribe: for every "
                "argument shape and every behaviour of the subscribe function the subscriber handed downstream IS such a wrapper, the "
                "user's callables flow nowhere else, and an exception of the subscribe function is delivered once through fail(); no "
                "other class in reactivex/ defines subscribe. Since every operator subscribes to its source only through "
                "Observable.subscribe, the grammar holds at every edge of every pipeline of any depth.",
        "note": _K2_NOTE.replace("specs/c20.py", "specs/c01.py") + " The current-thread trampoline is used through its contract "
                "(an action scheduled on an idle trampoline runs at once). Two threads inside one observer are C43's business.",
        "technique": _K2_TECH + "; symbolic execution of Observable.subscribe over all argument shapes x subscribe-function behaviours",
    },
    "C02": {
        "text": "Three contracts compose by induction over the depth of the pipeline. (1) K5 OWNERSHIP, per subscribe function of the "
                "library (operators/, observable/; 104 functions, each with its nested handlers, helpers and actions): every "
                "`X.subscribe(...)` / `subscribe_safe` (a source subscription) and every `S.schedule*(...)` (a pending action) stands in "
                "an owning position - returned, put into a Composite/Serial/SingleAssignment/MultipleAssignment/RefCount/Scheduled "
                "disposable or a list handed to one, disposed by the function handed to `Disposable(...)`, returned by a helper whose "
                "every call is owned, or returned by an action (owned by its scheduled item) - and the owner is reachable from the "
                "disposable the subscribe function returns (least fixpoint over the ownership graph). Ref-counted shares "
                "(`add_ref`, `GroupedObservable(.., rcd)`) are handed to the subscriber and to nobody inside the stage. "
                "(2) AutoDetachObserver (K2, the C01 contract): a terminal notification disposes the subscription on normal and "
                "exceptional exit of the subscriber's callback; dispose() stops the gate and disposes the subscription. "
                "(3) Observable.subscribe: what the subscribe function returns becomes that subscription; the handle returned to the "
                "caller is the wrapper's dispose. With the container contracts of C26 (a container disposes all it holds and whatever is "
                "added after it was disposed) a terminal notification at the subscriber disposes, level by level, every subscription "
                "any stage opened, whenever it was opened.",
        "note": "The ownership analysis is a contract checker on the real AST (flow-insensitive: a resource owned on one path only is not "
                "distinguished from one owned on all; sound under A-static - no reflection, names bound once per scope as written). "
                "Replacement before the end (a Serial slot re-pointed, a MultipleAssignment slot overwritten by the next scheduled "
                "tick) counts as owned: the container contracts (C26) say when the old item is released; for MultipleAssignment the "
                "overwritten item is an action that already ran. `X.connect(...)` - the shared connection of a multicast - is C24's "
                "business and not a resource here (auto_connect stays connected by design). Outside subscribe functions and therefore "
                "outside this contract: ConnectableObservable.connect, hot marbles, to_async, to_future (C41). The induction over the "
                "pipeline depth is a K8 composition lemma (compose.py: base and step discharged over uninterpreted predicates whose "
                "hypotheses are exactly the clauses of the ownership, container and AutoDetachObserver contracts; each hypothesis is "
                "shown necessary by a must-fail run; the induction schema itself is applied by the generator). Thorough tier: "
                "must-fail mutants of the ownership analysis and a native cross-check (ownrun.py: 70 pipeline shapes over logging cold "
                "sources x termination patterns x every dispose time) whose disagreement with a passing analysis is a checker crash.",
        "technique": "K5 ownership contracts by least-fixpoint analysis on the real AST + K2 class refinement (AutoDetachObserver) + contract of Observable.subscribe; native TestScheduler replay",
    },
    "C31": {
        "text": "Monitor contracts with a ghost RUNNER TOKEN on the real EventLoopScheduler, each method executed symbolically as one "
                "thread against an arbitrary environment (whenever the condition's lock is free the other threads may have scheduled, "
                "cancelled or disposed: containers re-read, the disposed flag may have gone up, is_cancelled() of any item may have become "
                "true). schedule_absolute: disposed -> DisposedException and nothing queued; else exactly one ScheduledItem, in ONE critical "
                "section appended to the ready list iff due <= now (clock read under the lock) else enqueued, notify, and a thread running "
                "self.run is started iff the runner slot is empty and stored in it (the token is minted there); returns "
                "Disposable(item.cancel). schedule / schedule_relative: schedule_absolute at now / now + max(0, delay). run, one ARBITRARY "
                "round of the outer loop (cut at its invariant; every inner loop cut as well): a disposed scheduler returns from the gather "
                "section invoking nothing; an entry leaves the queue only by dequeue(), under the lock, and only when its due time <= a "
                "clock reading taken since the lock was last (re)taken - never early, also after a wait that timed out; ready-list entries "
                "move head-first (submission order) into the batch; an item is invoked only right after ITS is_cancelled() answered False, "
                "outside the lock, one after the other; the idle section tests both containers and waits atomically - never while the ready "
                "list is non-empty, at most until the head is due, untimed only when the queue is empty and exit_if_empty is off; with "
                "exit_if_empty it clears the runner slot and returns in that very section (token given up), otherwise run returns only when "
                "disposed. The shared fields are written and the containers touched only under the lock. NewThreadScheduler (and "
                "ThreadPoolScheduler, which only supplies the thread factory): a fresh EventLoopScheduler(thread_factory, exit_if_empty=True) "
                "and its same-named method.",
        "note": "Serial execution on one thread follows from the token: actions are invoked only by run, run is started only by the section "
                "that fills the empty slot, and the slot is cleared only by run's own last critical section. Time is integer ticks, the clock "
                "an opaque monotone reading (A-time). PriorityQueue is used through its contract (peek/dequeue give the least due time, "
                "earlier insertion first - proved in C28); threading.Condition / Lock / Thread through theirs (mutual exclusion, wait "
                "releases and re-takes the lock and may return on notify or on timeout; a started thread runs its target once). One racy "
                "unlocked READ of the disposed flag at the top of schedule_absolute is admitted (the flag only goes up; a call that began "
                "before dispose() returned may still queue an item, which then never runs). Liveness (an item is eventually run) is not "
                "claimed. Thorough: 6 must-fail mutants and evrun.py (real threads, real clock, lower bounds only; a slow scheduler clock; "
                "a batch in which one action cancels the next).",
        "technique": "monitor contracts (rely/guarantee with a ghost runner token) and loop cuts by symbolic execution of the real class, SMT; native scenario replay",
    },
    "C38": {
        "text": "Loop contracts on the real marble parser, checked for ONE ARBITRARY round of the token loop from an arbitrary state "
                "(frame counter, stopped latch), the strings being opaque values with a symbolic length and symbolic answers to "
                "== '|' / '#' / '', int() and float(): every message of the round is stamped iframe * timespan + time_shift (the frame of "
                "the character that starts the token; the opening parenthesis for grouped values); the frame counter grows by exactly the "
                "length of the token's text (a group with its parentheses, a run of dashes, every character of a multi-character value) - "
                "so 'iframe = index of the next character, spaces not counted' is an invariant; '|' gives OnCompleted, '#' OnError(the given "
                "error, else Exception('error')), anything else OnNext(v) with v the text read as int if it parses as one, else as float, "
                "else the text, replaced by lookup[v] iff v is a key - whatever the looked-up value is; a group gives one message per "
                "non-empty element in order; a comma outside a group raises ValueError; with raise_stopped a marble after a terminal one - "
                "also inside a group - raises ValueError before anything is emitted for it, a terminal marble latches, without it nothing "
                "is rejected. from_marbles: one schedule_relative(time, action) per parsed message kept in the returned composite, the "
                "action delivers exactly its notification; hot: the same at creation with the due time as parse's time_shift, delivery to "
                "every current subscriber under the lock, no new subscribers after the terminal marble.",
        "note": "ASSUMED and cross-checked on every run (bounded): the tokeniser's contract - Python's re.findall with the module's pattern "
                "tiles a string of the documented syntax (balanced, non-nested groups) into group / dashes / comma / element tokens in "
                "order; str.replace / split / slicing / int() / float() through their documented meaning. 'An arbitrary element stands for "
                "each element of a group' relies on the comprehension / for-loop applying the same code to every element (structural "
                "obligations on the AST). marblerun.py compares the real parse with a character-by-character scanner written from the "
                "documentation on EVERY documented string up to 4 (quick) / 5 (thorough) characters over {-, a, b, 1, ., |, #, (, ), ',', "
                "space} x lookup x raise_stopped (53 k / 600 k cases), and runs from_marbles, hot and the testing context (cold, hot, exp) on "
                "a TestScheduler; a disagreement with a passing proof is a checker crash. Strings with unbalanced or nested parentheses "
                "are outside the documented syntax and not covered.",
        "technique": "loop contracts (one arbitrary iteration from an arbitrary state) by symbolic execution of the real parser against an assumed tokeniser contract, SMT; exhaustive small-scope native cross-check of that contract",
    },
    "C41": {
        "text": "Function and closure contracts on the real bridges, each executed symbolically against contracts of Future and Event. "
                "from_future_: subscribe registers exactly one done-callback and emits nothing itself; that callback emits the result "
                "then completes, or delivers the future's exception - cancellation (CancelledError, a BaseException) included - as "
                "on_error and nothing else; the returned disposable cancels the future. to_future_: one future from the right "
                "constructor, the source subscribed once with the scheduler; from ANY state of the cells on_next keeps the element as the "
                "last one (None and falsy values alike) and touches nothing else, on_completed resolves the future with the last element "
                "iff one came and fails it with SequenceContainsNoElementsError otherwise, on_error fails it with that error, a cancelled "
                "future is left alone, the done-callback disposes the subscription. run: subscribes once on the given or the default "
                "scheduler; on_next keeps the last element; on_error / on_completed record the outcome, set `done`, then the latch; the "
                "waiting loop (cut) only waits on the latch and leaves exactly when done; then it raises the recorded error - whatever "
                "its truth value -, or SequenceContainsNoElementsError iff no element came, else returns the last element. "
                "Observable.run = run(self, scheduler); __await__ = to_future_ on an AsyncIOScheduler of the running (else a new) loop. "
                "to_async_: one subject per call, exactly one action scheduled (given scheduler or the TimeoutScheduler singleton), the "
                "action calls the function once with the call's arguments and emits result + completion or the exception alone; "
                "start_ = to_async_(f, s)(); start_async_: throw(ex) when the factory raises, else from_future(its future). "
                "from_callback_: subscribe calls func(*arguments, handler) once; the handler, for 0..3 callback arguments with and without "
                "a mapper, emits exactly one value (the argument, the list of several, None for none, or the mapper's result) then "
                "completes, a raising mapper gives on_error alone, and no exception escapes into the caller of the callback.",
        "note": "Assumed contracts of dependencies: Future (result() gives the value or raises what it was completed with; CancelledError "
                "is not an Exception; add_done_callback runs the callback once when done), threading.Event (level-triggered), the "
                "AsyncSubject used by to_async (C23). 'Last element' is by frame induction over the handlers: each handler is run from an "
                "arbitrary state of the closure cells. concurrent.futures.Future.result() itself tests `if self._exception:` - an error "
                "with a False truth value is returned as None by CPython, outside RxPY. Two defects found by failing obligations and "
                "repaired (46299f8, 85e38cb). Thorough: 6 must-fail mutants, bridgerun.py (363 native cases).",
        "technique": "function / closure contracts with frame induction over handler cells, by symbolic execution of the real bridges against contracts of Future and Event, SMT; native replay",
    },
    "C33": {
        "text": "Function and closure contracts on the real AsyncIOScheduler and AsyncIOThreadSafeScheduler against the contract of an "
                "asyncio loop (call_soon / call_soon_threadsafe / call_later hand back a handle; the loop's thread runs callbacks one at "
                "a time in FIFO order, timers not before their delay on the loop clock, never a handle whose cancel() returned before it "
                "started; handle.cancel() keeps that promise only on the loop's thread or while the loop is not running; only "
                "call_soon_threadsafe may be used from other threads). Proved for every scenario - dispose() called by the loop thread, "
                "by another thread that runs its own loop, by a plain thread; loop running or not; for the two-stage relative schedule "
                "before or after the first stage ran: the schedule calls invoke nothing themselves and hand exactly one callback to the "
                "loop (thread-safe scheduler: through call_soon_threadsafe); the action is invoked exactly once, with (scheduler, state), "
                "on the loop's thread, after call_later(the positive delay); schedule_absolute = schedule_relative(due - now); every "
                "handle.cancel() happens on the loop's thread or with the loop stopped; from another thread while the loop runs the "
                "cancellation is handed to the loop and dispose() returns only after the future that the marshalled callback resolves "
                "AFTER cancelling; no deadlock (nothing is waited for on the loop thread or with a stopped loop); once dispose() has "
                "returned the loop - resumed and run to the end, all armed timers fired - never starts the action.",
        "note": "The loop is an assumed contract (asyncio documentation), cross-checked natively in the thorough tier and on replay: "
                "aiorun.py drives a real SelectorEventLoop with a virtual clock and a gate inside call_later, so the interleaving 'dispose() "
                "from another thread while the first stage is arming the timer' is produced deterministically. That scenario failed on the "
                "pinned tree for a plain disposing thread (fix 8dcc6bf). Interleavings are covered by the contract's serialisation "
                "argument (all cancels and both stages run on one thread), not by enumeration. Time: integer ticks (A-time).",
        "technique": "function / closure contracts by symbolic execution of the real schedulers against a contract of the asyncio loop, over all disposer-thread x loop-state x stage scenarios, SMT; gated native replay on a real loop",
    },
    "C34": {
        "text": "The EventLoopScheduler contracts of C31 (never early: an entry leaves the queue only when due by a clock reading of that "
                "critical section, also after a timed-out wait; never after cancellation: invoked only right after its own is_cancelled() "
                "answered False; nothing after dispose), NewThreadScheduler / ThreadPoolScheduler = a fresh exit_if_empty event loop per "
                "call, schedule_absolute = schedule_relative(due - now); plus function contracts for TimeoutScheduler - exactly one daemon "
                "Timer(seconds, f) started, seconds the non-negative delay (0 for schedule), f invokes the action exactly once with "
                "(scheduler, state) and keeps its disposable, the call itself invokes nothing, the returned disposable cancels THAT timer "
                "and disposes what the action returned; schedule_absolute = schedule_relative(due - now) - and ImmediateScheduler: schedule "
                "invokes the action synchronously exactly once with (scheduler, state) and returns its result, schedule_relative raises "
                "WouldBlockException iff the delay is positive and invokes nothing then, schedule_absolute = relative(due - now).",
        "note": "Assumed contract of threading.Timer (a dependency, not verified): the function is not called before `interval` seconds have "
                "passed and not at all once cancel() returned before that. 'Best effort' cancellation as documented: a cancel that races "
                "with the very start of the action is not claimed by the property either ('disposed before its due time'). Otherwise as C31.",
        "technique": "monitor and function contracts by symbolic execution of the real scheduler classes against contracts of Timer / Thread / Condition, SMT; native scenario replay",
    },
    "C36": {
        "text": "Function contracts on the real Scheduler.to_seconds / to_datetime / to_timedelta and Scheduler.now, executed "
                "symbolically for every kind of argument (float seconds, timedelta, timezone-aware datetime with an arbitrary utc "
                "offset) against a contract of the datetime module: a timedelta is an integer number of microseconds, an aware "
                "datetime an instant (integer microseconds since the epoch) plus an offset, arithmetic between aware datetimes goes by "
                "the instant, replace(tzinfo=..) keeps the wall-clock fields (moves the instant), mixing naive and aware raises. "
                "Postconditions from the property: a value that already has the target representation is returned unchanged (the very "
                "object); otherwise the result is the one value of the target representation that denotes the same instant / span, "
                "to_datetime yields aware UTC, now is aware UTC. The round-trip and order statements of the property are lemmas over "
                "these postconditions and A-float.",
        "note": "A-float (assumed contract of CPython's float <-> microsecond conversions, NOT proved: floating point is outside the "
                "reach of this family here): total_seconds() and timedelta(seconds=..) / fromtimestamp(.., tz) are monotone and inverse "
                "on every microsecond-aligned value with |us| < 2**52 (about 142 years around the epoch; measured: beyond that double "
                "seconds no longer resolve single microseconds and the round trip fails for 4% of the values of the next binade, so "
                "'round-trips exactly' cannot hold there for any implementation on float seconds). The datetime-module contract and "
                "A-float are cross-checked natively in the thorough tier (timerun.py: 6800 cases - grid of floats, timedeltas, aware "
                "datetimes in six zones, all pairs for order, all round trips, `now` of every scheduler class); a disagreement with a "
                "passing proof is a checker crash. Naive datetimes are outside the property ('timezone-aware datetimes').",
        "technique": "function contracts by symbolic execution of the real conversions against a contract of the datetime module, SMT; float conversions assumed (A-float) and cross-checked natively",
    },
    "C14": {
        "text": "A chain of per-function contracts, each proved in its own unit of this check. (a) Producers (closure contracts, "
                "C37): from_iterable's loop runs only while its stop flag is clear and the disposable it returns sets that flag; "
                "range, generate and the concat engine behind repeat / repeat_value emit ONE element per scheduled action and "
                "re-schedule through a slot of the disposable they returned. (b) Early terminators (K1: take_, take_while_, first_, "
                "element_at_or_default_): completion right after the deciding element, for every input. (c) AutoDetachObserver (K2): "
                "the terminal notification disposes the subscription. (d) K5 ownership: that disposal reaches the producer's flag / slot "
                "through every stage of the library. (e) Observable.subscribe: whenever the current-thread trampoline is idle, "
                "`_subscribe_core` runs INSIDE a trampoline item - for every argument shape, with and without a scheduler argument - "
                "and the Trampoline contract (C30): an action scheduled while an item runs is queued and runs after it returned; so a "
                "producer's first action runs only after the subscription was assigned. (f) Every producer schedules on "
                "`scheduler or scheduler_ or CurrentThreadScheduler.singleton()` (AST contract). Together (L14): with the default "
                "scheduler, or the singleton passed explicitly, at most one producer step per level happens after the deciding element.",
        "note": "L14, the composition of (a)-(f), is argued in DESIGN.md and not machine-checked as one theorem. The chain does NOT cover, "
                "and the BOUNDED native run (c14run.py: 5 never-ending sources x 10 pass-through stages x 5 terminators x 4 scheduler "
                "configurations, work budget 3000 steps; never counted as proved) decides: an explicit ImmediateScheduler or a fresh "
                "CurrentThreadScheduler() instance (hypothesis of (e) fails), and starvation. On the unchanged tree that run fails for "
                "both explicit-scheduler configurations and for from_iterable through flat_map / combine_latest (starvation): genuine "
                "defects against the property as stated, recorded in known_findings.json (KNOWN-FINDING lines), not repairable by a "
                "small safe patch. Quick tier runs default + singleton in full and two representative pipelines of each explicit "
                "configuration; thorough runs everything. take_until has no K1 contract (bounded run only).",
        "technique": "chain of function contracts (closure contracts, K1 refinement, K2 class refinement, K5 ownership, contract of Observable.subscribe, Trampoline contract) + AST contract on producers; bounded native work-budget run for the configurations outside the chain",
    },
    "C03": {
        "text": "The same three contracts as C02, read for dispose(): (2) AutoDetachObserver.dispose() sets the gate (every later "
                "on_next / on_error / on_completed of that edge returns without calling the subscriber - invariant `stopped`, proved for "
                "re-entrant calls too) and disposes the subscription; (3) the handle Observable.subscribe returns IS that dispose; "
                "(1) by ownership that disposal reaches, synchronously and level by level, every source subscription and every pending "
                "scheduled action of every stage, so no handler of the pipeline is entered afterwards: handlers are only ever called "
                "through their own edge's gate, actions only by items that are now cancelled (C28/C30: a cancelled item never runs). "
                "Shares still held by a live group / window subscriber keep the RefCountDisposable's underlying subscription open - the "
                "exception the property itself makes (C27).",
        "note": "As C02. 'At that instant': disposal is synchronous code (no scheduling on the way) - by the shapes admitted as owning "
                "positions, which are all direct containment. Single thread / virtual time only, as the property says; concurrent "
                "dispose is C25-C27 / C43.",
        "technique": "K5 ownership contracts by least-fixpoint analysis on the real AST + K2 class refinement (AutoDetachObserver) + contract of Observable.subscribe; native TestScheduler replay",
    },
    "C20": {
        "text": "Every method of the real Subject (subscribe core, InnerSubscription.dispose, on_next/on_error/on_completed with the "
                "inherited Observer gates, dispose) is proved to refine the spec machine from an arbitrary state satisfying the coupling "
                "invariant: same call-outs to the same observers (a broadcast is one event over the value of the snapshot list), same "
                "exception (DisposedException after dispose), invariant re-established at exit and already true at every call-out, so "
                "re-entrant subscribe/unsubscribe/dispose from callbacks see a consistent subject. Inductive over call histories of any length.",
        "note": _K2_NOTE,
        "technique": _K2_TECH,
    },
    "C21": {
        "text": "As C20 for BehaviorSubject with the current value in the abstract state: a new subscriber first receives the current value "
                "(last on_next value or the initial one, None included - values are an uninterpreted sort), the value is already updated "
                "at the moment observers are notified (invariant at the call-out), after termination only the terminal is delivered.",
        "note": _K2_NOTE,
        "technique": _K2_TECH,
    },
    "C23": {
        "text": "As C20 for AsyncSubject with (has_value, value) in the abstract state: on_next delivers nothing, completion delivers the "
                "last value (if any, None included) then completion to every current observer, error only the error, late subscribers "
                "the same from the latched state.",
        "note": _K2_NOTE,
        "technique": _K2_TECH,
    },
    "C39": {
        "text": "For every public method of the eleven Observable mixins and every call shape (number of positional arguments x set of "
                "keywords) accepted by both the method and ops.<same name>, the real method body is executed with symbolic argument "
                "values; the obligation is that it returns exactly self.pipe(ops.<name>(...)) with every ops parameter - bound through "
                "the real ops signature, defaults included - equal to what the same call shape gives ops.<name> directly (proved under "
                "the path condition, so branching methods are covered per path). Finite set of shapes, symbolic values: all arguments.",
        "note": "Trusted: rxvc's interpreter for the method bodies and Python's argument-binding rules as implemented in rxvc; the "
                "operator functions themselves are opaque terms (their behaviour is the business of C05..C19). Shapes accepted by only "
                "one side (renamed keyword, parameter the fluent method does not expose) are listed as notes, not violations. "
                "Known finding: do (see /verif/known_findings.json).",
        "technique": "K6 forwarding contracts over all call shapes, symbolic argument values, SMT equality of bound parameters; native replay",
    },
    "C25": {
        "text": "Every method of the real Disposable/BooleanDisposable is executed symbolically as one thread against an arbitrary "
                "environment: shared fields are havocked under the monitor invariant and the rely at every point where the lock is "
                "not held; each critical section must re-establish the invariant and the guarantee. The single 'action' token is "
                "minted only by the critical section that flips is_disposed and calling the action spends it, so the action runs at "
                "most once for any number of threads and every interleaving; is_disposed is stable after dispose() returns.",
        "note": _K3_NOTE + " ScheduledDisposable's 'on its scheduler' clause is covered through the SingleAssignmentDisposable contract "
                "(C26) it delegates to; the scheduler itself is an interface contract (runs the action once).",
        "technique": _K3_TECH,
    },
    "C26": {
        "text": "Thread-modular proof for Composite/Serial/SingleAssignment/MultipleAssignment disposables: each accepted item carries one "
                "dispose-obligation token that is in exactly one of {container, a thread's locals, consumed}; storing into a held slot, "
                "overwriting, removing, item.dispose() and leaving a method are checked against that discipline on every path, with "
                "interference by other threads at every unlocked point (including stale unlocked pre-checks). Proved: every item is "
                "disposed exactly once (on replacement/removal where promised, on container disposal, or at once when handed over "
                "after disposal), never while a live container holds it, and SingleAssignmentDisposable never replaces an assigned "
                "item - for any number of threads and all interleavings.",
        "note": _K3_NOTE,
        "technique": _K3_TECH,
    },
    "C27": {
        "text": "RefCountDisposable and its InnerDisposable under the same thread-modular discipline: monitor invariant count>=0 and "
                "is_disposed == (is_primary_disposed and count == 0); the 'underlying' token is minted only by the critical section "
                "that makes is_disposed true and disposing the underlying resource spends it (exactly once, only after primary "
                "disposal and the last release); a dependent swaps its parent out under its own lock, so it releases once however "
                "often it is disposed; dependents requested after release are inert Disposables.",
        "note": _K3_NOTE + " release() is verified under the thread-local stable fact count>=1, justified by the dependents' "
                "once-only release (InnerDisposable contract) and the getter's increment.",
        "technique": _K3_TECH,
    },
    "C05": {
        "text": "Each element-wise operator's real handlers (parsed from /repo on every run) are proved to refine a spec "
                "machine whose output is the list-level function named in the property: initial state established by the "
                "real subscribe body, every handler path preserves the coupling invariant and emits exactly what the spec "
                "step emits (sequence equation over an uninterpreted value sort, so None/falsy/duplicate values are models "
                "the solver may pick), no exception escapes. Inductive over the input history: all lengths, all values, all "
                "parameters; output timing is part of the per-event clause.",
        "note": _K1_NOTE + " Under contract: map, filter (plain/indexed), take, skip, take_while (plain/indexed/inclusive), skip_while, "
                "distinct_until_changed, pairwise, default_if_empty, ignore_elements, take_last, skip_last, take_last_buffer, "
                "element_at(_or_default), find/find_index, pluck, starmap, materialize, dematerialize, and (session 4) distinct: the scan of "
                "the lookup list by a user comparer that may raise is a for-loop cut at the invariant 'what the scan answers for the whole "
                "list is what it answers for the part not visited yet', over a recursive function of the list (match_code / match_exc, "
                "defining equations by head / tail over the SAME uninterpreted symbols the comparer's calls use, instantiated on the ground "
                "terms); early return and raise leave the loop into the caller. start_with is decided in C10's unit (seqcomp.py: start_with_ "
                "hands concat the values followed by the source; concat's engine contract; from_iterable's C37 contract), not here.",
        "technique": "K1 handler refinement against spec machines, loop invariants, SMT (z3 then cvc5); native replay of counter-models",
    },
}
CHECKS.update(CHECKS_K1)

# ---------------------------------------------------------------------------------------------------------------------------------
# Units added to existing checks in session 4b (callee contracts and scope conditions); appended to the texts above.
_SCHED_CALLEES = (" Callee contracts re-proved inside this check: Scheduler.invoke_action (runs the action exactly once with the scheduler and "
                  "the state, returns the action's disposable or an inert one) and ScheduledItem.invoke / cancel / is_cancelled (what the "
                  "action returned is disposed exactly once whether cancel comes before or after invoke) - schedbase.py")
_QUEUE = "; PriorityQueue + ScheduledItem ordering (insertion order among equal due times) against the assumed heapq contract - vts.py queue mode."
ADDENDA = {
    "C27": " Functional clauses (refcount.py, sequential, from an arbitrary state satisfying the monitor invariant): .disposable counts and "
           "attaches a new dependent whenever the resource is not released yet - also after the primary was disposed - and is inert "
           "afterwards; release() gives back exactly one unit and disposes the resource exactly when the primary is disposed and "
           "none is left; dispose() disposes it exactly when it is the first dispose and no dependent is alive; a dependent releases "
           "once however often it is disposed.",
    "C10": " catch(handler) - the one operator of this property that is not built on the three engines - is under a K1 contract of its own "
           "(contracts/c10.py): the source is mirrored, its error hands the subscriber to handler(e, source) in place of the source's "
           "subscription, a raising handler ends the output; scenario 'the source fails from inside its subscribe call': the "
           "continuation subscribed in that nested step is still subscribed when subscribe returns.",
    "C03": " from_iterable_'s emission loop (srcfac unit, loop contract: the user's iterator is asked only while the subscription is not "
           "disposed) is part of this check; a loop of another shape drifts to the native run, which counts the items pulled "
           "after a dispose() issued inside on_next. After-emission obligations (own.py, every handler nested in a subscribe function of "
           "operators/ and observable/): between handing an element downstream (`<x>.on_next(..)`, directly or through a local helper) and "
           "a call of a user function of the operator or a new .subscribe( stands a re-check `if <disposable the returned subscription "
           "owns>.is_disposed` - a subscriber that unsubscribes inside on_next has nothing more done on its behalf; replayed natively by "
           "ownrun.py (the subscriber disposes inside its k-th on_next, every lambda of the shape logs its calls).",
    "C37": " repeat_value_ (srcwire.py): the result is return_value(value) piped through exactly ops.repeat(n'), n' = None for None / -1, built "
           "from the two arguments alone - so every (re-)subscription sees v n times by the contracts of return_value and of the concat engine.",
    "C38": " hot() with an ABSOLUTE due time: the shift handed to parse is the timedelta `duetime - scheduler.now` itself (opaque values of the "
           "marble world; native: one day + 200.5 s).",
    "C42": " Scenario 'another CatchScheduler (another handler) wrapped the same action before'; frame unit instance-state: no method "
           "writes a mutable container held in a class attribute.",
    "C08": " Besides the opacity analysis, every element-level refinement proof is a unit of this check: the K1 contracts of the element-wise, "
           "aggregating and time-shifting operators (C05, C06, C15) and the K2 refinements of the subjects (C20-C23, ReplaySubject) quantify over an "
           "uninterpreted element sort - None, 0, False, '', () are among its values and truthiness is a free predicate - so 'emitted, counted, "
           "buffered, compared, delayed, replayed like any other element' is what those obligations say (64 units).",
    "C07": " A slice pipeline built from other stages than those with closed forms drifts to slicerun.py (list slicing on sources of length 0..5, "
           "all start / stop in -6..6, steps 1, 2, 3, 6), which is also the thorough-tier cross-check.",
    "C29": " (Session 4c) The same unit as C28 with every clause reported (an advance_to that moves the clock by itself or returns early leaves due "
           "actions un-run); an action may move the clock forward (sleep() inside an action: the clock after a call-out is arbitrary >= before); "
           "'returns without running only when a run is already in progress' is taken from the property - advance_to(clock) / advance_by(0) returning "
           "at once with due actions pending is a KNOWN FINDING (pinned by test_historicalscheduler::test_advance_by). Constructors: schedctor.py, vtsub.py.",
    "C28": " (Session 4c) An action may move the clock forward (sleep() inside an action): advance_to ends at the target or where an action left the "
           "clock if later, never backwards (fix bb448a9); advance_to(clock) returning at once with due actions pending is a KNOWN FINDING. "
           "HistoricalScheduler.__init__ and TestScheduler.schedule_absolute (vtsub.py) are under function contracts: the clock starts at the given "
           "instant or the epoch, the due time is handed on as seconds with the same action and state, nothing else of virtual time is overridden.",
    "C34": " ThreadPoolScheduler: one executor, a thread factory whose startable submits exactly the target once to it (executor contract assumed), "
           "cancel cancels that submission; nothing else overridden.",
    "C05": " The indexed forms that are compositions (indexed.py): zip_with_iterable_ by subscribe + one arbitrary element (one iterator per "
           "subscription; exactly the pair (x, next item) or completion when exhausted), map_indexed_ = zip_with_iterable(infinite()) | "
           "starmap_indexed(m or first), starmap_indexed = map(t -> m(*t)), skip_while_indexed_ = map_indexed(pair) | skip_while(p(*t)) | map(t[0]), "
           "pluck_attr_ = map(getattr): wiring over the K1 contracts of map / skip_while.",
    "C20": " Constructor contract (the real __init__ establishes the coupling invariant with the spec machine's initial state) and the monitor discipline "
           "of _subscribe_core on the real AST (decide and register in one critical section of self.lock; no subject state read outside it).",
    "C21": " Constructor contract (the initial value IS the current value - None and falsy values included) and the monitor discipline of _subscribe_core: "
           "the current value is handed to the new subscriber inside the critical section that registered it.",
    "C23": " Constructor contract and the monitor discipline of _subscribe_core (decide and register in one critical section; no state read outside the lock).",
    "C22": " Monitor discipline of _subscribe_core (registration, trim and replay in one critical section); the native stand-in has fractional ages and "
           "more than a day of silence (the window is a span).",
    "C30": " (Session 4c) Contracts follow the repaired trampoline (fix 139da7c): the run loop goes idle in the critical section that saw the queue empty; "
           "whoever made the trampoline idle touches it no more; whatever leaves the run loop - a BaseException that is no Exception included - the "
           "trampoline ends idle with an empty queue. Constructors: schedctor.py (the condition is over the trampoline's own lock).",
    "C25": " The action of a Disposable is user code: the monitor harness also runs the path on which it raises - the exception may leave "
           "dispose(), every critical section on the way out still keeps the rely (is_disposed never goes back to False) and the claimed "
           "token stays spent (no second run).",
    "C07": " The K1 contracts of the five stage operators (take_, skip_, take_last_, skip_last_, filter_indexed_) whose spec machines the closed "
           "forms are lemmas over are re-proved inside this check.",
    "C09": " A try statement with specific clauses only (`except KeyError:`) around a user call is not a guard, but each of its clauses must "
           "deliver or re-raise: it catches that class of exception when the user's function raises it (found case(): fixed db6b252).",
    "C14": " The operators' state is proved to be allocated per subscription (frame condition, frame.run_local): repeat / retry / a second "
           "subscriber re-subscribe the same early-terminating observable.",
    "C36": " The process's local time zone is an input: the datetime contract has its utc offset as a free integer (naive constructor, astimezone / "
           "timestamp of a naive value, fromtimestamp without tz); the constants UTC_ZERO and DELTA_ZERO of reactivex/internal/constants.py are "
           "evaluated from their real defining expressions under it (UTC_ZERO is the epoch whatever that offset); the native table runs in four "
           "process zones.",
}
ADDENDA["C35"] = ADDENDA.get("C35", "") + (" The contracts of the event-loop run loop (evloop.py: the timed wait is until the head is due by a clock reading of the section "
                                          "that waits) are re-proved inside this check; the native table drives the real run loop on one thread under a controlled clock.")
ADDENDA["C32"] = ADDENDA.get("C32", "") + (" Every critical section of run() is checked against the runner's guarantee where the lock is released (the queue loses at most its "
                                          "head; the list object producers append to is replaced only together with the fault latch).")
ADDENDA["C33"] = ADDENDA.get("C33", "") + " Every dispose scenario is also run with the loop started / stopped between the schedule call and dispose()."
ADDENDA["C40"] = ADDENDA.get("C40", "") + (" What 'the subscription terminates' means - the class contract of AutoDetachObserver (a terminal notification disposes the subscription "
                                          "also when the subscriber's handler raises) and the function contract of Observable.subscribe - is re-proved inside this check.")
for _p in ("C20", "C21", "C22", "C23"):
    ADDENDA[_p] = ADDENDA.get(_p, "") + (" Every method of the subject touches the state handed to new subscribers (observers, exception, value, has_value, queue) only under "
                                        "the subject's lock (AST obligation; helpers called only under the lock are exempt).")
for _p in ("C28", "C29"):
    ADDENDA[_p] = ADDENDA.get(_p, "") + (" start / advance_to / advance_by called from inside an action (a run is in progress) change nothing: still enabled, clock and queue "
                                        "untouched, nothing run by the nested call.")
for _p in ("C28", "C29", "C33", "C42"):
    ADDENDA[_p] = ADDENDA.get(_p, "") + _SCHED_CALLEES + "."
for _p in ("C30", "C31", "C34", "C35"):
    ADDENDA[_p] = ADDENDA.get(_p, "") + _SCHED_CALLEES + _QUEUE
_NOTIF = (" The Notification classes (reactivex/notification.py) are under function contracts of their own (notif.py): kind / payload fields, accept replays "
          "exactly the one notification, to_observable schedules one action that replays it, from_notifier.")
for _p in ("C05", "C08", "C15", "C38"):
    ADDENDA[_p] = ADDENDA.get(_p, "") + _NOTIF
_PUB = (" The public entry points of these operators (reactivex/operators/__init__.py, reactivex/__init__.py) are proved to reach the implementation "
        "functions under contract with the very arguments (pubapi.py: same-named parameter unchanged, plus the documented exceptions such as "
        "find_index = find_value_(predicate, yield_index=True)).")
for _p in ("C05", "C06", "C07", "C09", "C10", "C13", "C14", "C15", "C16", "C17", "C18", "C19", "C24", "C37", "C40"):
    ADDENDA[_p] = ADDENDA.get(_p, "") + _PUB
_FUT = (" Where the text of an operator asks `is_future`, its inner elements / argument operands are an observable OR a future on separate "
        "paths of the K1 run; `from_future(f)` stands for its callee contract (the observable of that future).")
for _p in ("C11", "C12", "C13", "C14", "C17"):
    ADDENDA[_p] = ADDENDA.get(_p, "") + _FUT
ADDENDA["C14"] = ADDENDA.get("C14", "") + (" c14run also has pipelines in which the never-ending source is cancelled before its first step "
                                            "(loser of a merge, loser of amb, replaced by switch_map).")
for _p in ("C02", "C03"):
    ADDENDA[_p] = ADDENDA.get(_p, "") + (" The ownership proofs are about one subscription; the frame condition that carries them to every subscription and "
                                         "application (state is allocated per subscription, frame.run_local) is checked over all operator and source files.")
ADDENDA["C37"] = ADDENDA.get("C37", "") + " A tick of generate / generate_with_relative_time calls exactly the user functions one loop step needs, in order."
ADDENDA["C17"] = ADDENDA.get("C17", "") + " timeout_with_mapper's mapper may be omitted (never() through its callee contract)."
for _p in ("C28", "C29", "C31", "C33", "C34", "C35", "C15", "C16", "C17", "C18", "C37", "C22"):
    ADDENDA[_p] = ADDENDA.get(_p, "") + (" The time conversions every due time goes through (Scheduler.to_seconds / to_timedelta / to_datetime, the contracts of "
                                         "C36) are re-proved inside this check.")
for _p in ("C28", "C29"):
    ADDENDA[_p] = ADDENDA.get(_p, "") + " Every store into the clock keeps the clock's representation (tick clock: a number, datetime clock: a datetime)."
ADDENDA["C11"] = ADDENDA.get("C11", "") + (" The scenario 'a source notifies from inside its subscribe call' is also run inside the handlers of the inner "
                                            "sequences (a completed inner starts the next queued one).")
for _p in ("C05", "C06", "C10", "C11", "C12", "C13", "C15", "C16", "C17", "C18", "C19", "C24"):
    ADDENDA[_p] = ADDENDA.get(_p, "") + (" The implicit callees of every operator proof - Observable.subscribe (the guard around the subscribe function) and "
                                         "the auto-detaching observer it wraps the subscriber in - are re-proved inside this check.")
for _p in ("C28", "C29", "C30", "C31", "C32", "C33", "C34", "C35", "C37", "C41", "C42", "C43", "C44", "C04", "C07", "C08"):
    ADDENDA[_p] = ADDENDA.get(_p, "") + " The contracts of the disposable containers / subjects its own files import are re-proved inside this check."
for _p in ("C05", "C06", "C10", "C11", "C12", "C13", "C14", "C15", "C16", "C17", "C18", "C19", "C24", "C40"):
    ADDENDA[_p] = ADDENDA.get(_p, "") + " The guard condition (no user exception escapes a handler of an operator) is checked inside this property as well."
for _p in ("C20", "C21", "C22", "C23"):
    ADDENDA[_p] = ADDENDA.get(_p, "") + " At every call-out to an observer the observer may dispose the subject from inside its callback."
for _p in ("C20", "C21", "C23"):
    ADDENDA[_p] = ADDENDA.get(_p, "") + " A subscriber may bring a scheduler along (subscribe with a scheduler argument): the subject does not use it."
ADDENDA["C33"] = ADDENDA.get("C33", "") + " aiorun (stand-in / thorough cross-check) also has two threads disposing two different actions at the same time."
for _p in ("C18", "C19"):
    ADDENDA[_p] = ADDENDA.get(_p, "") + (" What a handler still does after handing out a window / group stands behind a re-check of the subscription "
                                         "(after-emission obligations of the ownership analysis, over this property's own files).")
for _p, _t in ADDENDA.items():
    if _p in CHECKS:
        CHECKS[_p] = dict(CHECKS[_p], text=CHECKS[_p]["text"] + _t)

