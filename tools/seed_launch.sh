#!/bin/bash
# usage: tools/seed_launch.sh <batch-letter> Cxx...   -> creates worktrees + prompt files (with a list of earlier changes to avoid)
b=$1; shift
mkdir -p /tmp/seed
for p in "$@"; do
  wt=/tmp/seed/$b-$p
  git -C /repo worktree add --detach $wt HEAD >/dev/null 2>&1
  python3 /verif/tools/seed_prompt.py $p $wt > /tmp/seed/$b-$p.prompt
  python3 - $p >> /tmp/seed/$b-$p.prompt <<'PY'
import json,glob,sys
p=sys.argv[1]
print("\nChanges of this kind have been tried already - pick a DIFFERENT function, mechanism or corner (not a variation of one of these):")
for m in sorted(glob.glob(f'/verif/seeded/{p}-*/meta.json')):
    d=json.load(open(m)); print("  -", (d.get('summary') or '')[:260].replace('\n',' '))
print("Do not read anything under /verif or any other directory outside your worktree except /venv.")
PY
  echo $wt
done
