#!/bin/bash
# usage: tools/seed_do.sh <batch-letter> Cxx   -> collect the finished seed of that batch, remove its worktree, try it against its property
b=$1; p=$2
n=$(ls -d /verif/seeded/$p-* | sed 's/.*-//' | sort | tail -1); l=$(echo $n | tr 'a-y' 'b-z')
mkdir -p /tmp/probe
/verif/tools/seed_collect.sh $p /tmp/seed/$b-$p $p-$l
git -C /repo worktree remove --force /tmp/seed/$b-$p
/verif/tools/try_seed.sh $p-$l $p > /tmp/probe/ts-$p-$l.out 2>&1
echo "== $p-$l violations: $(grep -c '^VIOLATION' /tmp/probe/ts-$p-$l.out)"
grep -m1 "^VIOLATION" /tmp/probe/ts-$p-$l.out | cut -c1-200
grep -m1 -E "^\[C" /tmp/probe/ts-$p-$l.out | cut -c1-200
r=$(grep -m1 -o "replay=[^ ]*" /tmp/probe/ts-$p-$l.out | cut -d= -f2)
[ -n "$r" ] && [ -f "$r" ] && sed -n 3,3p $r | cut -c1-260
exit 0
