#!/usr/bin/env python3
"""Regenerate /verif/MANIFEST.json from rxvc/registry.py + tools/manifest_meta.py."""
import json
import os
import sys

HERE = os.path.dirname(os.path.dirname(os.path.abspath(__file__)))
sys.path.insert(0, HERE)
sys.path.insert(0, os.path.join(HERE, "tools"))

import manifest_meta as mm  # noqa: E402

props = [json.loads(l) for l in open(os.path.join(HERE, "properties.jsonl"))]
BASELINE = ("cd /repo && /venv/bin/python -m pytest -ra -q -p no:cacheprovider --timeout=900 "
            "--continue-on-collection-errors")

checks = []
na = []
for p in props:
    pid = p["id"]
    m = mm.CHECKS.get(pid)
    if m is None:
        na.append({"property_id": pid, "reason": mm.NOT_CLAIMED.get(pid, mm.DEFAULT_REASON)})
        continue
    checks.append({
        "property_id": pid,
        "quick_cmd": f"python3-vt -m rxvc check {pid} --tier quick",
        "thorough_cmd": f"python3-vt -m rxvc check {pid} --tier thorough",
        "evidence_file": f"/verif/evidence/{pid}.json",
        "replay_cmd_template": "/venv/bin/python {path}",
        "engine": "rxvc",
        "level_claimed": {"category": "proof", "text": m["text"], "design_ref": m.get("design_ref", f"DESIGN.md §4 {pid}")},
        "level_note": m["note"],
        "technique": m["technique"],
    })

manifest = {
    "version": 1,
    "setup_cmd": "python3-vt -m rxvc selftest",
    "hooks": {
        "guard": "REACTIVEX_RXPY_VERIF",
        "enable": "none needed: contracts are sidecars under /verif/contracts, the verifier only reads /repo's working tree",
        "baseline_off_cmd": BASELINE,
        "source_commits": [],
        "add_only": True,
    },
    "engines": [{
        "name": "rxvc",
        "path": "/verif/rxvc",
        "serves_properties": [c["property_id"] for c in checks],
        "kind_free_text": "contract-based deductive verification: own AST->SMT verification-condition generator over the real "
                          "function bodies of /repo (re-parsed every run), sidecar contracts (/verif/contracts) and spec machines "
                          "(/verif/specs), obligations discharged by z3 5.1 with cvc5 taking z3's unknowns; counter-models replayed "
                          "natively on the real code (/venv/bin/python)",
    }],
    "checks": checks,
    "not_applicable": na,
    "notes": "Exit codes of every check: 0 held, 1 violation (VIOLATION line), 2 undecided (solver unknown; never a violation), "
             "3 checker crash. Known findings: /verif/known_findings.json. Seeded breaking changes: /verif/seeded/.",
}
with open(os.path.join(HERE, "MANIFEST.json"), "w") as f:
    json.dump(manifest, f, indent=1)
print(f"MANIFEST.json: {len(checks)} checks, {len(na)} not claimed")
