#!/bin/bash
# regenerate every evidence file from the claimed checks on the current (clean) tree; prints one line per property
cd /verif
tier=${1:-quick}
git -C /repo status --short | grep -q . && echo "WARNING: /repo has uncommitted changes"
rc=0
for p in $(python3 -c "import json;print(' '.join(c['property_id'] for c in json.load(open('MANIFEST.json'))['checks']))"); do
  out=$(python3-vt -m rxvc check $p --tier $tier 2>&1 | tail -1); echo "$out"; echo "$out" | grep -q "exit 0" || rc=1
done
python3-vt - <<'PY'
import json,glob,jsonschema
sch=json.load(open('/root/.vp/EVIDENCE.schema.json'))
for f in sorted(glob.glob('/verif/evidence/*.json')):
    e=json.load(open(f)); jsonschema.validate(e,sch)
    c=e['coverage']
    assert c['obligations']==c['discharged'] and c['obligations']>0, f
print('evidence files valid:', len(glob.glob('/verif/evidence/*.json')))
PY
exit $rc
