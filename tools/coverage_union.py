#!/usr/bin/env python3
"""Dev tool: union of the statements of /repo reached by the symbolic execution over ALL properties' quick units; lists the top-level functions
of the operator / source / scheduler / subject / disposable modules that no symbolic execution ever enters (decided by AST analyses or native
tables only - or not at all).   usage: python3-vt tools/coverage_union.py [out.json]"""
import ast, glob, json, multiprocessing, os, sys
sys.path.insert(0, os.path.dirname(os.path.dirname(os.path.abspath(__file__))))
from concurrent.futures import ProcessPoolExecutor
from rxvc import registry, report

def main():
    props = [json.loads(l)["id"] for l in open("/verif/properties.jsonl")]
    units, seen = [], set()
    for p in props:
        for u in registry.units_for(p, "quick"):
            key = (u.get("runner"), u.get("id"), u.get("module"), u.get("name"), u.get("mode"),
                   u.get("prop") if u.get("runner") not in ("k1", "monitor", "classref", "forward") else None)
            if key in seen:
                continue
            seen.add(key)
            units.append(u)
    hit = {}
    ctx = multiprocessing.get_context("fork")
    with ProcessPoolExecutor(max_workers=16, mp_context=ctx) as ex:
        for rep in ex.map(report.run_unit, units):
            for f, ln in rep.get("lines_executed", []):
                hit.setdefault(f, set()).add(ln)
    out = {}
    for p in sorted(glob.glob("/repo/reactivex/**/*.py", recursive=True)):
        rel = os.path.relpath(p, "/repo")
        if "/testing/" in rel or rel.endswith("__init__.py") or "/abc/" in rel or "/typing" in rel:
            continue
        t = ast.parse(open(p).read())
        fns = []
        for n in t.body:
            if isinstance(n, ast.FunctionDef):
                fns.append((n.name, n))
            elif isinstance(n, ast.ClassDef):
                for m in n.body:
                    if isinstance(m, ast.FunctionDef):
                        fns.append((f"{n.name}.{m.name}", m))
        for name, node in fns:
            stmts = [s for s in ast.walk(node) if isinstance(s, ast.stmt) and not isinstance(s, (ast.FunctionDef, ast.ClassDef, ast.Import, ast.ImportFrom, ast.Pass, ast.Nonlocal, ast.Global))
                     and not (isinstance(s, ast.Expr) and isinstance(s.value, ast.Constant))]
            if not stmts:
                continue
            r = sum(1 for s in stmts if s.lineno in hit.get(rel, ()))
            out[f"{rel}::{name}"] = (r, len(stmts))
    zero = sorted(k for k, (r, n) in out.items() if r == 0)
    print(len(units), "units;", len(out), "functions;", len(zero), "never entered by a symbolic execution")
    for k in zero:
        print("  ", k, out[k][1])
    if len(sys.argv) > 1:
        json.dump({k: list(v) for k, v in out.items()}, open(sys.argv[1], "w"), indent=0)

if __name__ == "__main__":
    main()
