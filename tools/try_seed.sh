#!/bin/bash
# apply a seeded patch to /repo, run the given property checks, undo; evidence files are restored afterwards
# usage: tools/try_seed.sh <seed name> <prop>...
name=$1; shift
cd /verif
mkdir -p /tmp/ev_backup && cp evidence/*.json /tmp/ev_backup/ 2>/dev/null
git -C /repo apply /verif/seeded/$name/patch.diff || { echo "patch does not apply"; exit 2; }
trap 'git -C /repo checkout -- . ; cp /tmp/ev_backup/*.json /verif/evidence/ 2>/dev/null' EXIT PIPE INT TERM
for p in "$@"; do python3-vt -m rxvc check $p --tier quick 2>&1 | tail -8; echo "exit=$?"; done
git -C /repo checkout -- .
cp /tmp/ev_backup/*.json evidence/ 2>/dev/null
git -C /repo status --short | head
