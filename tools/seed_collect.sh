#!/bin/bash
# Confirm a sub-agent's seeded change myself and keep it under /verif/seeded/<name>/.
#   tools/seed_collect.sh <property id> <worktree> [<name>]
# Confirms: (a) with the change the full suite passes and demo.py exits 1; (b) without it demo.py exits 0.
set -u
id=$1; wt=$2; name=${3:-$id}
dst=/verif/seeded/$name
[ -f "$wt/_seed/patch.diff" ] || { echo "$name: no patch.diff"; exit 2; }
mkdir -p "$dst"
cd "$wt" || exit 2
# start from a clean tree and apply exactly the delivered patch (git stash is shared between worktrees: never use it)
git checkout -q -- reactivex
git apply _seed/patch.diff || { echo "$name: patch does not apply"; exit 2; }
git diff -- reactivex > "$dst/patch.diff"
tests=$(PYTHONPATH=$wt /venv/bin/python -m pytest -q -p no:cacheprovider --timeout=900 -x 2>&1 | tail -1)
PYTHONPATH=$wt timeout 300 /venv/bin/python _seed/demo.py > "$dst/demo_with_change.out" 2>&1; with=$?
git apply -R "$dst/patch.diff"
PYTHONPATH=$wt timeout 300 /venv/bin/python _seed/demo.py > "$dst/demo_without_change.out" 2>&1; without=$?
git apply "$dst/patch.diff"
cp _seed/demo.py "$dst/demo.py"
python3 - "$dst" "$id" "$tests" "$with" "$without" <<'EOF'
import json, sys
dst, pid, tests, w, wo = sys.argv[1:]
try:
    meta = json.load(open(dst + "/../../../tmp/none"))
except Exception:
    meta = {}
import os
src = os.path.join(os.environ.get("WT", ""), "_seed/meta.json")
EOF
python3 - "$dst" "$id" "$tests" "$with" "$without" "$wt" <<'EOF'
import json, sys
dst, pid, tests, w, wo, wt = sys.argv[1:]
try:
    meta = json.load(open(wt + "/_seed/meta.json"))
except Exception as e:
    meta = {"property": pid, "summary": "?", "needs": "?"}
meta["property"] = pid
meta["confirmed_by_me"] = {
    "suite_with_change": tests.strip(),
    "demo_exit_with_change": int(w),
    "demo_exit_without_change": int(wo),
    "ran": "tools/seed_collect.sh: full pytest suite in the scratch worktree with the change applied; demo.py with and without it (git stash)",
}
meta["ok"] = ("passed" in tests and "failed" not in tests and int(w) == 1 and int(wo) == 0)
json.dump(meta, open(dst + "/meta.json", "w"), indent=1)
print(pid, "OK" if meta["ok"] else "NOT-CONFIRMED", tests.strip(), "with=", w, "without=", wo)
EOF
