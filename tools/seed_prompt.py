#!/usr/bin/env python3
"""Print the prompt given to an independent seeding sub-agent for one property.
The agent gets only the property text and its own scratch worktree (nothing from /verif)."""
import json, sys
pid, wt = sys.argv[1], sys.argv[2]
for l in open('/verif/properties.jsonl'):
    p = json.loads(l)
    if p['id'] == pid:
        break
else:
    raise SystemExit('no such property')
print(f"""You are helping test a verification effort for the Python library ReactiveX/RxPY (a pure-Python ReactiveX implementation).
You have your own scratch git worktree of the repository at {wt} (detached HEAD). Work ONLY inside {wt}; never touch /repo or /verif and do not read anything under /verif.
There is no network. Run Python as:  cd {wt} && PYTHONPATH={wt} /venv/bin/python ...   (this makes `import reactivex` resolve to your worktree; verify with `python -c "import reactivex; print(reactivex.__file__)"`).
The full test suite is:  cd {wt} && PYTHONPATH={wt} /venv/bin/python -m pytest -q -p no:cacheprovider --timeout=900   (about 25 s, 1529 tests, must stay green).

Here is a semantic property that the library is supposed to satisfy:

  id: {p['id']}
  title: {p['title']}
  statement: {p['statement']}
  quantified over: {p['quantifier']['text']}
  code it is anchored in: {', '.join(p['anchors']['files'])}

YOUR TASK: make ONE small, realistic change to the library source under {wt}/reactivex (the kind of regression a maintainer could plausibly introduce in a refactor or 'optimisation') that BREAKS this property while the package still imports and the ENTIRE existing test suite still passes unedited.
Prefer a change that needs something specific to manifest — a particular interleaving, a fault or exception at a particular point, a multi-step sequence of operations, an unusual input (None/falsy value, boundary count, negative index, same-instant events), or two cooperating sites that each look fine alone — NOT one that ordinary use would expose at once. Do not edit tests. Do not add new files to the library. Keep the diff minimal (ideally < 15 changed lines).
Note the unchanged library may already violate the property in some corner; your change must introduce a NEW violation: your demonstration must pass on the unchanged tree and fail with your change.

Deliverables, all inside {wt}/_seed/ (create that directory):
  1. patch.diff  — output of `git -C {wt} diff -- reactivex` (the library change only).
  2. demo.py     — a small standalone program (no pytest needed) that exits 0 on the unchanged tree and exits 1 (printing what went wrong) with your change applied. It must be deterministic (use TestScheduler / virtual time, or explicitly gated threads with generous timeouts — no sleeps that race).
  3. meta.json   — {{"property": "{p['id']}", "summary": "<one sentence: what the change does>", "needs": "<what is required for the violation to manifest>", "files_changed": [...], "how_verified": "<commands you ran and their outcomes>"}}
Verify yourself, in this order, and record the outcomes in meta.json: (a) with the change applied: full test suite passes, demo.py exits 1; (b) apply the patch in reverse (`git -C {wt} apply -R _seed/patch.diff`; do NOT use `git stash`: the stash is shared with other worktrees of this repository and other people are working in them): demo.py exits 0; then re-apply (`git -C {wt} apply _seed/patch.diff`) so that the worktree ends WITH the change applied.
If your first idea makes an existing test fail, pick a different change. Finish by replying with the contents of meta.json and the diff.""")
