"""Sidecar contracts (K2) for the subjects: C20 Subject, C21 BehaviorSubject, C23 AsyncSubject."""
from rxvc.contract import ClassContract

S = "reactivex/subject/"

BASE_FIELDS = {"is_stopped": "bool", "is_disposed": "bool", "observers": "reflist:observer", "exception": "optexc",
               "lock": "lock"}
BASE_SPEC = {"state": "int", "obs": "reflist:observer", "err": "val"}
BASE_INV = ("0 <= s.state and s.state <= 3 and same(observers, s.obs) and is_disposed == (s.state == 3) "
            "and is_stopped == (s.state != 0) and implies(s.state != 0, len(observers) == 0) "
            "and implies(s.state == 2, exception is not None and same(exception, s.err)) "
            "and implies(s.state != 2, exception is None)")
METHODS = {
    "subscribe": dict(call="self._subscribe_core(o)", args={"o": "ref:observer"}),
    # a subscriber may bring a scheduler along: the subjects do not use it - what a new subscriber gets, it gets inside the subscribe call
    "subscribe_with_scheduler": dict(call="self._subscribe_core(o, sch)", args={"o": "ref:observer", "sch": "ref:scheduler"}, spec="subscribe"),
    "unsubscribe": dict(call="InnerSubscription(self, o).dispose()", args={"o": "ref:observer"}),
    "on_next": dict(call="self.on_next(v)", args={"v": "val"}),
    "on_error": dict(call="self.on_error(e)", args={"e": "exc"}),
    "on_completed": dict(call="self.on_completed()", args={}),
    "dispose": dict(call="self.dispose()", args={}),
}
IMPORTS = {"InnerSubscription": ("reactivex.subject.innersubscription", "InnerSubscription")}
ALSO = [("reactivex/subject/innersubscription.py", "InnerSubscription"), ("reactivex/observer/observer.py", "Observer")]

CLASSES = [
    ClassContract(
        name="Subject", props=["C20"], file=S + "subject.py", cls="Subject",
        fields=BASE_FIELDS, spec="specs.c20:subject", spec_fields=BASE_SPEC, inv=BASE_INV,
        methods=METHODS, imports=IMPORTS, also=ALSO, witness="Subject",
        init=dict(args={}, spec={"state": 0, "obs": [], "err": None}),
    ),
    ClassContract(
        name="BehaviorSubject", props=["C21", "C08"], file=S + "behaviorsubject.py", cls="BehaviorSubject",
        fields=dict(BASE_FIELDS, value="val"), spec="specs.c20:behavior_subject",
        spec_fields=dict(BASE_SPEC, value="val"),
        inv=BASE_INV + " and implies(s.state != 3, same(value, s.value))",
        methods=METHODS, imports=IMPORTS, also=ALSO + [(S + "subject.py", "Subject")], witness="BehaviorSubject",
        init=dict(args={"value": "val"}, spec={"state": 0, "obs": [], "err": None, "value": "arg:value"}),
    ),
    ClassContract(
        name="AsyncSubject", props=["C23", "C08"], file=S + "asyncsubject.py", cls="AsyncSubject",
        fields=dict(BASE_FIELDS, value="val", has_value="bool"), spec="specs.c20:async_subject",
        spec_fields=dict(BASE_SPEC, value="val", has_value="bool"),
        inv=BASE_INV + " and implies(s.state != 3, has_value == s.has_value and implies(s.has_value, same(value, s.value)))",
        methods=METHODS, imports=IMPORTS, also=ALSO + [(S + "subject.py", "Subject")], witness="AsyncSubject",
        init=dict(args={}, spec={"state": 0, "obs": [], "err": None, "value": None, "has_value": False}),
    ),
]
