"""Sidecar contracts (K2) for C01 / C03: AutoDetachObserver and Observer."""
from rxvc.contract import ClassContract

O = "reactivex/observer/"

GATE_METHODS = {
    "on_next": dict(call="self.on_next(v)", args={"v": "val"}),
    "on_error": dict(call="self.on_error(e)", args={"e": "exc"}),
    "on_completed": dict(call="self.on_completed()", args={}),
    "dispose": dict(call="self.dispose()", args={}),
    "fail": dict(call="self.fail(e)", args={"e": "exc"}),
}

CLASSES = [
    ClassContract(
        name="AutoDetachObserver", props=["C01", "C02", "C03", "C14", "C40"], file=O + "autodetachobserver.py", cls="AutoDetachObserver",
        fields={"_on_next": "callback", "_on_error": "callback", "_on_completed": "callback",
                "_subscription": "ref:disposable", "is_stopped": "bool"},
        spec="specs.c01:auto_detach",
        spec_fields={"cb_next": "shared", "cb_error": "shared", "cb_completed": "shared", "sub": "shared",
                     "stopped": "bool", "term": "bool"},
        shared={"cb_next": "_on_next", "cb_error": "_on_error", "cb_completed": "_on_completed", "sub": "_subscription"},
        inv="is_stopped == s.stopped and implies(s.term, s.stopped)",
        methods=dict(GATE_METHODS, set_disposable=dict(call="self.set_disposable(d)", args={"d": "ref:disposable"})),
        witness="AutoDetachObserver", runner="gaterun.py",
        init=dict(args={"on_next": "callback", "on_error": "callback", "on_completed": "callback"}, spec={"stopped": False, "term": False},
                  stores={"_on_next": "on_next", "_on_error": "on_error", "_on_completed": "on_completed"}),
    ),
    ClassContract(
        name="Observer", props=["C01", "C20"], file=O + "observer.py", cls="Observer",
        fields={"_handler_on_next": "callback", "_handler_on_error": "callback", "_handler_on_completed": "callback",
                "is_stopped": "bool"},
        spec="specs.c01:observer",
        spec_fields={"cb_next": "shared", "cb_error": "shared", "cb_completed": "shared", "stopped": "bool", "term": "bool"},
        shared={"cb_next": "_handler_on_next", "cb_error": "_handler_on_error", "cb_completed": "_handler_on_completed"},
        inv="is_stopped == s.stopped and implies(s.term, s.stopped)",
        methods=GATE_METHODS, witness="Observer", runner="gaterun.py",
        init=dict(args={"on_next": "callback", "on_error": "callback", "on_completed": "callback"}, spec={"stopped": False, "term": False},
                  stores={"_handler_on_next": "on_next", "_handler_on_error": "on_error", "_handler_on_completed": "on_completed"}),
    ),
]
