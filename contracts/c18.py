"""Sidecar contracts for C18 (windows and buffers): K1 / K1-T with the operator's own subjects used through the Subject
contract (C20) and sequences of open windows."""
from rxvc.contract import OpContract

OPS = "reactivex/operators/"


def _c(**kw):
    runner = kw.pop("runner", None)
    ends = kw.pop("ends_with_source", True)
    quiet = kw.pop("done_quiet", True)
    c = OpContract(**kw)
    c.done_quiet = quiet
    c.subjects = True
    c.ends_with_source = ends
    if runner:
        c.runner = runner
    return c


_DRAIN = dict(inv="same(sent + q, old_q) and len(emitted) == 0", old=["q"], havoc={"q": "seq[ref:subject]"}, decreases="len(q)")

CONTRACTS = [
    _c(
        name="window_with_count", props=["C18"], file=OPS + "_windowwithcount.py", func="window_with_count_",
        call="window_with_count_(count, skip)(source)", params={"count": "int", "skip": "opt:int"},
        raises=[("count <= 0 or (False if skip is None else skip <= 0)", "ArgumentOutOfRangeException")],
        spec="specs.c18:window_with_count", spec_args={"open": "seq[ref:subject]"},
        cells={"n": "cell:int", "q": "seq[ref:subject]"},
        # the real queue IS the sequence of open windows; the element counter is the spec's
        inv="n[0] == s.n and same(q, s.open)",
        loops={
            ("window_with_count_.subscribe.on_error", 0): dict(_DRAIN, each=("on_error", "exception")),
            ("window_with_count_.subscribe.on_completed", 0): dict(_DRAIN, each=("on_completed", None)),
        },
        runner=("winrun.py", "window_with_count"),
    ),
    _c(
        name="window", props=["C18"], file=OPS + "_window.py", func="window_",
        call="window_(boundaries)(source)", params={}, sources=("source", "boundaries"),
        spec="specs.c18:window_boundaries", spec_args={"cur": "ref:subject"},
        cells={"window_subject": "ref:subject"},
        inv="same(window_subject, s.cur)", ends_with_source=False,
        runner=("winrun.py", "window"),
    ),
    _c(
        name="window_when", props=["C18", "C09"], file=OPS + "_window.py", func="window_when_",
        call="window_when_(closing_mapper)(source)", params={"closing_mapper": "callback:source"},
        spec="specs.c18:window_when", spec_args={"cur": "ref:subject"},
        cells={"window": "ref:subject"},
        inv="same(window, s.cur)", ends_with_source=False,
        families={"closing": dict(spec=("closing_next", "closing_error", "closing_completed"), created_in="subscribe", once=True)},
        runner=("winrun.py", "window_when"),
    ),
    _c(
        name="group_join", props=["C18"], file=OPS + "_groupjoin.py", func="group_join_",
        call="group_join_(right, left_duration_mapper, right_duration_mapper)(left)", sources=("left", "right"),
        params={"left_duration_mapper": "callback:source", "right_duration_mapper": "callback:source"},
        spec="specs.c18:group_join", spec_args={"windows": "refmap", "held": "valmap"},
        cells={"left_map": "refmap", "right_map": "valmap", "left_id": "cell:int", "right_id": "cell:int", "group.disposable": "seq"},
        # the two maps of the real code ARE the open windows and the retained right elements; ids are handed out in order
        inv="same(left_map, s.windows) and same(right_map, s.held) and left_id[0] == s.nl and right_id[0] == s.nr",
        ends_with_source=False, runner=("winrun.py", "group_join"),
        # after the end the maps are only changed by expiries: pending durations still find their entries
        inv_done="True", done_quiet=False,
        families={
            "ldur": dict(spec=("ldur_next", "ldur_error", "ldur_completed"), source="left", id_local="_id", once=True,
                         inv="maps_to(left_map, _id, subject) and contains(group.disposable, md) and _id < left_id[0]",
                         locals={"_id": "int", "subject": "ref:subject", "md": "ref"}, unique=("_id", "subject", "md")),
            "rdur": dict(spec=("rdur_next", "rdur_error", "rdur_completed"), source="right", id_local="_id", once=True,
                         inv="has_key(right_map, _id) and contains(group.disposable, md) and _id < right_id[0]",
                         locals={"_id": "int", "md": "ref"}, unique=("_id", "md")),
        },
    ),
    _c(
        name="window_with_time", props=["C18"], file=OPS + "_windowwithtime.py", func="window_with_time_",
        call="window_with_time_(timespan, timeshift, scheduler)(source)", params={"timespan": "int", "timeshift": "opt:int"}, scheduler="scheduler",
        requires="timespan >= 1 and (True if timeshift is None else timeshift >= 1)",
        spec="specs.c18:window_with_time", spec_args={"open": "seq[ref:subject]"},
        cells={"next_shift": "cell:int", "next_span": "cell:int", "total_time": "cell:int", "queue": "seq[ref:subject]"},
        # the real queue IS the sequence of open windows; the pending timer is due at the earlier of the next opening and the next
        # closing, and the two counters of the real code are already moved past whichever of them that timer stands for
        inv="same(queue, s.open) and total_time[0] + s.t0 == min(s.next_open, s.next_close) "
            "and next_shift[0] + s.t0 == s.next_open + (s.sh() if s.next_open <= s.next_close else 0) "
            "and next_span[0] + s.t0 == s.next_close + (s.sh() if s.next_close <= s.next_open else 0)",
        timers={
            "tick0": {"created_in": "subscribe", "spec": "on_fire",
                      "inv": "is_shift == (s.next_open <= s.next_close) and is_span == (s.next_close <= s.next_open) and due == min(s.next_open, s.next_close)"},
        },
        runner=("winrun.py", "window_with_time"),
    ),
    _c(
        name="window_with_time_or_count", props=["C18"], file=OPS + "_windowwithtimeorcount.py", func="window_with_time_or_count_",
        call="window_with_time_or_count_(timespan, count, scheduler)(source)", params={"timespan": "nat", "count": "int"}, scheduler="scheduler",
        spec="specs.c18:window_with_time_or_count", spec_args={"cur": "ref:subject"},
        cells={"n": "int", "s": "ref:subject", "window_id": "int"},
        # the current window, its element count and its number are the spec's
        inv="n == s.n and window_id == s.gen and same(cell_s, s.cur)",
        timers={
            # the timer of the first window, and the timer an element sets when its window is full (an arbitrary window number);
            # the timers a timer sets run the same code with the same kind of number
            "span0": {"created_in": "subscribe", "spec": "on_fire", "id": "s.gen", "inv": "_id == k"},
            "span": {"created_in": "source.on_next", "spec": "on_fire", "id": "s.gen", "inv": "_id == k"},
        },
        runner=("winrun.py", "window_with_time_or_count"),
    ),
]
