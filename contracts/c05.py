"""Sidecar contracts for C05 (element-wise operators).  Keyed by file + function + loop ordinal;
expressions are Python source over the *real* cell names, the spec object `s` and the parameters."""
from rxvc.contract import OpContract

OPS = "reactivex/operators/"

CONTRACTS = [
    OpContract(
        name="distinct", props=["C05", "C09"], file=OPS + "_distinct.py", func="distinct_",
        call="distinct_(key_mapper, comparer)(source)", params={"key_mapper": "opt:callback", "comparer": "opt:callback"},
        spec="specs.c05:distinct",
        cells={"hashset.set": "seq"},
        # the lookup list IS the list of the keys of the elements that passed
        inv="same(hashset.set, s.seen)",
        loops={
            # the scan of the stored keys: what it will answer for the whole list is what it will answer for the part not visited yet
            ("array_index_of_comparer", 0): dict(
                inv="match_code(array, item, comparer) == match_code(rest_, item, comparer) and "
                    "same(match_exc(array, item, comparer), match_exc(rest_, item, comparer))"),
        },
        witness="ops.distinct(key_mapper, comparer)",
    ),
    OpContract(
        name="take", props=["C05", "C14"], file=OPS + "_take.py", func="take_",
        call="take_(count)(source)", params={"count": "int"},
        raises=[("count < 0", "ArgumentOutOfRangeException")],
        spec="specs.c05:take",
        cells={"remaining": "int"},
        inv="s.n >= 0 and remaining == max(s.count - s.n, 0)",
        witness="ops.take(count)",
    ),
    OpContract(
        name="skip", props=["C05"], file=OPS + "_skip.py", func="skip_",
        call="skip_(count)(source)", params={"count": "int"},
        raises=[("count < 0", "ArgumentOutOfRangeException")],
        spec="specs.c05:skip",
        cells={"remaining": "int"},
        inv="s.n >= 0 and remaining == max(s.count - s.n, 0)",
        witness="ops.skip(count)",
    ),
    OpContract(
        name="skip_last", props=["C05", "C08"], file=OPS + "_skiplast.py", func="skip_last_",
        call="skip_last_(count)(source)", params={"count": "int"},
        requires="count >= 0",
        spec="specs.c05:skip_last",
        cells={"q": "seq"},
        inv="same(q, s.q) and len(q) <= count",
        witness="ops.skip_last(count)",
    ),
    OpContract(
        name="take_last", props=["C05"], file=OPS + "_takelast.py", func="take_last_",
        call="take_last_(count)(source)", params={"count": "int"},
        requires="count >= 0",
        spec="specs.c05:take_last",
        cells={"q": "seq"},
        inv="same(q, s.q) and len(q) <= count",
        loops={("take_last_.subscribe.on_completed", 0): dict(
            inv="same(emitted + q, old_q)", old=["q"], havoc={"q": "seq"}, decreases="len(q)")},
        witness="ops.take_last(count)",
    ),
    OpContract(
        name="filter", props=["C05", "C09"], file=OPS + "_filter.py", func="filter_",
        call="filter_(predicate)(source)", params={"predicate": "callback"},
        spec="specs.c05:filter", inv="True",
        witness="ops.filter(predicate)",
    ),
    OpContract(
        name="map", props=["C05", "C09"], file=OPS + "_map.py", func="map_",
        call="map_(mapper)(source)", params={"mapper": "opt:callback"},  # omitted: the identity
        spec="specs.c05:map", inv="True",
        witness="ops.map(mapper)",
    ),
    OpContract(
        name="filter_indexed", props=["C05", "C09"], file=OPS + "_filter.py", func="filter_indexed_",
        call="filter_indexed_(predicate_indexed)(source)", params={"predicate_indexed": "opt:callback"},
        spec="specs.c05:filter_indexed",
        cells={"count": "int"}, inv="count == s.i",
        witness="ops.filter_indexed(predicate_indexed)",
    ),
    OpContract(
        name="take_while", props=["C05", "C09", "C14"], file=OPS + "_takewhile.py", func="take_while_",
        call="take_while_(predicate, inclusive)(source)", params={"predicate": "callback", "inclusive": "pybool"},
        spec="specs.c05:take_while",
        cells={"running": "val"}, inv="truthy(running) == (not s.stopped)",
        witness="ops.take_while(predicate, inclusive)",
    ),
    OpContract(
        name="take_while_indexed", props=["C05", "C09"], file=OPS + "_takewhile.py", func="take_while_indexed_",
        call="take_while_indexed_(predicate, inclusive)(source)", params={"predicate": "callback", "inclusive": "pybool"},
        spec="specs.c05:take_while_indexed",
        cells={"running": "val", "i": "int"}, inv="truthy(running) == (not s.stopped) and i == s.i",
        witness="ops.take_while_indexed(predicate, inclusive)",
    ),
    OpContract(
        name="skip_while", props=["C05", "C09"], file=OPS + "_skipwhile.py", func="skip_while_",
        call="skip_while_(predicate)(source)", params={"predicate": "callback"},
        spec="specs.c05:skip_while",
        cells={"running": "bool"}, inv="running == s.running",
        witness="ops.skip_while(predicate)",
    ),
    OpContract(
        name="distinct_until_changed", props=["C05", "C09"], file=OPS + "_distinctuntilchanged.py",
        func="distinct_until_changed_",
        call="distinct_until_changed_(key_mapper, comparer)(source)",
        params={"key_mapper": "opt:callback", "comparer": "opt:callback"},
        spec="specs.c05:distinct_until_changed",
        cells={"has_current_key": "bool", "current_key": "val"},
        inv="has_current_key == s.has and implies(s.has, same(current_key, s.cur))",
        witness="ops.distinct_until_changed(key_mapper, comparer)",
    ),
    OpContract(
        name="pairwise", props=["C05", "C08"], file=OPS + "_pairwise.py", func="pairwise_",
        call="pairwise_()(source)", params={},
        spec="specs.c05:pairwise",
        cells={"has_previous": "bool", "previous": "val"},
        inv="has_previous == s.has and implies(s.has, same(previous, s.prev))",
        witness="ops.pairwise()",
    ),
    OpContract(
        name="default_if_empty", props=["C05"], file=OPS + "_defaultifempty.py", func="default_if_empty_",
        call="default_if_empty_(default_value)(source)", params={"default_value": "val"},
        spec="specs.c05:default_if_empty",
        cells={"found": "cell:bool"}, inv="found[0] == s.found",
        witness="ops.default_if_empty(default_value)",
    ),
    OpContract(
        name="ignore_elements", props=["C05"], file=OPS + "_ignoreelements.py", func="ignore_elements_",
        call="ignore_elements_()(source)", params={},
        spec="specs.c05:ignore_elements", inv="True",
        witness="ops.ignore_elements()",
    ),
    OpContract(
        name="take_last_buffer", props=["C05"], file=OPS + "_takelastbuffer.py", func="take_last_buffer_",
        call="take_last_buffer_(count)(source)", params={"count": "int"}, requires="count >= 0",
        spec="specs.c05:take_last_buffer",
        cells={"q": "seq"}, inv="same(q, s.q) and len(q) <= count",
        witness="ops.take_last_buffer(count)",
    ),
    OpContract(
        name="element_at_or_default", props=["C05", "C14"], file=OPS + "_elementatordefault.py",
        func="element_at_or_default_",
        call="element_at_or_default_(index, has_default, default_value)(source)",
        params={"index": "int", "has_default": "pybool", "default_value": "val"},
        raises=[("index < 0", "ArgumentOutOfRangeException")],
        spec="specs.c05:element_at_or_default",
        cells={"index_": "int"},
        inv="s.n >= 0 and index_ == max(s.index - s.n, 0) and s.found == (s.n > s.index)",
        witness="ops.element_at_or_default(index, default_value) if has_default else ops.element_at(index)",
    ),
    OpContract(
        name="find_value", props=["C05", "C09"], file=OPS + "_find.py", func="find_value_",
        call="find_value_(predicate, yield_index)(source)", params={"predicate": "callback", "yield_index": "pybool"},
        spec="specs.c05:find_value",
        cells={"index": "int"}, inv="index == s.i",
        witness="ops.find_index(predicate) if yield_index else ops.find(predicate)",
    ),
    OpContract(
        name="materialize", props=["C05"], file=OPS + "_materialize.py", func="materialize_",
        call="materialize_()(source)", params={},
        spec="specs.c05:materialize", inv="True",
        witness="ops.materialize()",
    ),
    OpContract(
        name="dematerialize", props=["C05"], file=OPS + "_dematerialize.py", func="dematerialize_",
        call="dematerialize_()(source)", params={},
        spec="specs.c05:dematerialize", inv="True",
        witness="ops.dematerialize()", elem="notification",
    ),
    OpContract(
        name="pluck", props=["C05"], file=OPS + "_pluck.py", func="pluck_",
        call="pluck_(key)(source)", params={"key": "val"},
        spec="specs.c05:pluck", inv="c[0].failed == s.failed",  # c[0] = map(mapper)
        witness="ops.pluck(key)",
    ),
    OpContract(
        name="starmap", props=["C05", "C09"], file=OPS + "__init__.py", func="starmap",
        call="starmap(mapper)(source)", params={"mapper": "opt:callback"},
        spec="specs.c05:starmap", inv="c[0].failed == s.failed",  # c[0] = map(starred) / map(identity_fn)
        witness="ops.starmap(mapper)",
    ),
]
