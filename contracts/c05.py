"""Sidecar contracts for C05 (element-wise operators).  Keyed by file + function + loop ordinal;
expressions are Python source over the *real* cell names, the spec object `s` and the parameters."""
from rxvc.contract import OpContract

OPS = "reactivex/operators/"

CONTRACTS = [
    OpContract(
        name="take", props=["C05", "C14"], file=OPS + "_take.py", func="take_",
        call="take_(count)(source)", params={"count": "int"},
        raises=[("count < 0", "ArgumentOutOfRangeException")],
        spec="specs.c05:take",
        cells={"remaining": "int"},
        inv="s.n >= 0 and remaining == max(s.count - s.n, 0)",
        witness="ops.take(count)",
    ),
    OpContract(
        name="skip", props=["C05"], file=OPS + "_skip.py", func="skip_",
        call="skip_(count)(source)", params={"count": "int"},
        raises=[("count < 0", "ArgumentOutOfRangeException")],
        spec="specs.c05:skip",
        cells={"remaining": "int"},
        inv="s.n >= 0 and remaining == max(s.count - s.n, 0)",
        witness="ops.skip(count)",
    ),
    OpContract(
        name="skip_last", props=["C05", "C08"], file=OPS + "_skiplast.py", func="skip_last_",
        call="skip_last_(count)(source)", params={"count": "int"},
        requires="count >= 0",
        spec="specs.c05:skip_last",
        cells={"q": "seq"},
        inv="same(q, s.q) and len(q) <= count",
        witness="ops.skip_last(count)",
    ),
    OpContract(
        name="take_last", props=["C05"], file=OPS + "_takelast.py", func="take_last_",
        call="take_last_(count)(source)", params={"count": "int"},
        requires="count >= 0",
        spec="specs.c05:take_last",
        cells={"q": "seq"},
        inv="same(q, s.q) and len(q) <= count",
        loops={("take_last_.subscribe.on_completed", 0): dict(
            inv="same(emitted + q, old_q)", old=["q"], havoc={"q": "seq"}, decreases="len(q)")},
        witness="ops.take_last(count)",
    ),
    OpContract(
        name="filter", props=["C05", "C09"], file=OPS + "_filter.py", func="filter_",
        call="filter_(predicate)(source)", params={"predicate": "callback"},
        spec="specs.c05:filter", inv="True",
        witness="ops.filter(predicate)",
    ),
    OpContract(
        name="map", props=["C05", "C09"], file=OPS + "_map.py", func="map_",
        call="map_(mapper)(source)", params={"mapper": "callback"},
        spec="specs.c05:map", inv="True",
        witness="ops.map(mapper)",
    ),
]
