"""Sidecar contracts (K3) for the disposables: C25, C26, C27."""
from rxvc.contract import MonitorContract

D = "reactivex/disposable/"

MONO = "implies(old.is_disposed, new.is_disposed)"

MONITORS = [
    # ---- C25 -------------------------------------------------------------------------------
    MonitorContract(
        name="Disposable", props=["C25"], file=D + "disposable.py", cls="Disposable",
        fields={"is_disposed": "bool", "action": "callback:action", "lock": "lock"},
        rely=MONO,
        # the single action token is claimed by the critical section that flips the flag
        mint=[("action", "not old.is_disposed and new.is_disposed")],
        methods={"dispose": []},
        ensures={"dispose": "is_disposed"},
        witness="disposable",
    ),
    MonitorContract(
        name="BooleanDisposable", props=["C25"], file=D + "booleandisposable.py", cls="BooleanDisposable",
        fields={"is_disposed": "bool", "lock": "lock"},
        rely=MONO,
        methods={"dispose": []},
        ensures={"dispose": "is_disposed"},
        witness="boolean",
    ),
    # ---- C26 -------------------------------------------------------------------------------
    MonitorContract(
        name="SerialDisposable", props=["C26", "C02", "C03"], file=D + "serialdisposable.py", cls="SerialDisposable",
        fields={"current": "optref", "is_disposed": "bool", "lock": "lock"},
        inv="implies(is_disposed, current is None)",
        rely=MONO,
        held={"current": "slot"},
        methods={"set_disposable": ["item"], "dispose": [], "get_disposable": []},
        ensures={"dispose": "is_disposed"},
        witness="serial",
    ),
    MonitorContract(
        name="SingleAssignmentDisposable", props=["C26", "C02", "C03"], file=D + "singleassignmentdisposable.py",
        cls="SingleAssignmentDisposable",
        fields={"current": "optref", "is_disposed": "bool", "lock": "lock"},
        inv="implies(is_disposed, current is None)",
        # only dispose() may clear the slot; an assigned item is never replaced
        rely=MONO + " and implies(old.current is not None, new.current is None or new.current is old.current)",
        held={"current": "slot"},
        methods={"set_disposable": ["item"], "dispose": [], "get_disposable": []},
        may_raise={"set_disposable": ["Exception"]},
        ensures={"dispose": "is_disposed"},
        witness="single",
    ),
    MonitorContract(
        name="MultipleAssignmentDisposable", props=["C26"], file=D + "multipleassignmentdisposable.py",
        cls="MultipleAssignmentDisposable",
        fields={"current": "optref", "is_disposed": "bool", "lock": "lock"},
        inv="implies(is_disposed, current is None)",
        rely=MONO,
        # replacing does NOT dispose the previous item (the class does not promise that): its token
        # returns to the environment; clearing the slot (dispose) hands the token to the thread
        held={"current": "slot:replace-drops"},
        methods={"set_disposable": ["item"], "dispose": [], "get_disposable": []},
        ensures={"dispose": "is_disposed"},
        witness="multiple",
    ),
    MonitorContract(
        name="CompositeDisposable", props=["C26", "C02", "C03"], file=D + "compositedisposable.py", cls="CompositeDisposable",
        fields={"disposable": "reflist", "is_disposed": "bool", "lock": "lock"},
        inv="implies(is_disposed, len(disposable) == 0)",
        rely=MONO,
        held={"disposable": "list"},
        methods={"add": ["item"], "remove": ["ref"], "dispose": [], "clear": []},
        ensures={"dispose": "is_disposed"},
        witness="composite",
    ),
    # ---- C27 -------------------------------------------------------------------------------
    MonitorContract(
        name="RefCountDisposable", props=["C27", "C02", "C03"], file=D + "refcountdisposable.py", cls="RefCountDisposable",
        fields={"underlying_disposable": "effectref:underlying", "is_primary_disposed": "bool", "is_disposed": "bool",
                "count": "int", "lock": "lock"},
        # count = number of handed-out, undisposed dependents; released exactly when primary and none left
        inv="count >= 0 and is_disposed == (is_primary_disposed and count == 0)",
        rely=MONO + " and implies(old.is_primary_disposed, new.is_primary_disposed)",
        mint=[("underlying", "not old.is_disposed and new.is_disposed")],
        methods={"dispose": [], "release": [], "disposable": []},
        # release() is only reachable through a live dependent (InnerDisposable contract: once each),
        # and every live dependent accounts for one unit of count
        stable_requires={"release": "count >= 1"},
        ensures={"dispose": "is_primary_disposed"},
        witness="refcount",
    ),
    MonitorContract(
        name="InnerDisposable", props=["C27"], file=D + "refcountdisposable.py", cls="RefCountDisposable.InnerDisposable",
        fields={"parent": "optref", "is_disposed": "bool", "lock": "lock"},
        rely="implies(old.parent is None, new.parent is None)",
        held={"parent": "slot"},
        methods={"dispose": []},
        ensures={"dispose": "parent is None"},
        witness="inner",
    ),
]
