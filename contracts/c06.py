"""Sidecar contracts for C06 (aggregating operators).  Composite operators are verified against
the CONTRACTS of the operators they pipe through (callee stages `c[i]`, downstream-most first),
never against their bodies."""
from rxvc.contract import OpContract

OPS = "reactivex/operators/"

# coupling of the `filtered` mixin with a leading ops.filter(predicate) stage
LOD = "c[0].seen == s.seen and implies(s.seen, same(c[0].value, s.value))"

CONTRACTS = [
    OpContract(
        name="scan", props=["C06", "C09"], file=OPS + "_scan.py", func="scan_",
        call="scan_(accumulator, seed)(source)", params={"accumulator": "callback", "seed": "notset:val"},
        spec="specs.c06:scan",
        cells={"has_accumulation": "bool", "accumulation": "val"},
        inv="has_accumulation == s.has and implies(s.has, same(accumulation, s.acc)) and not c[0].failed",
        witness="ops.scan(accumulator, seed)",
    ),
    OpContract(
        name="last_or_default_async", props=["C06", "C08"], file=OPS + "_lastordefault.py", func="last_or_default_async",
        call="last_or_default_async(source, has_default, default_value)",
        params={"has_default": "pybool", "default_value": "val"},
        spec="specs.c06:last_or_default_async",
        cells={"value": "cell:val", "seen_value": "cell:bool"},
        inv="seen_value[0] == s.seen and implies(s.seen, same(value[0], s.value)) and implies(not s.seen, same(value[0], default_value))",
        witness="ops.last_or_default(default_value) if has_default else ops.last()",
    ),
    OpContract(
        name="first_or_default_async", props=["C06", "C14"], file=OPS + "_firstordefault.py", func="first_or_default_async_",
        call="first_or_default_async_(has_default, default_value)(source)",
        params={"has_default": "pybool", "default_value": "val"},
        spec="specs.c06:first_or_default_async", inv="True",
        witness="ops.first_or_default(None, default_value) if has_default else ops.first()",
    ),
    OpContract(
        name="single_or_default_async", props=["C06"], file=OPS + "_singleordefault.py", func="single_or_default_async_",
        call="single_or_default_async_(has_default, default_value)(source)",
        params={"has_default": "pybool", "default_value": "val"},
        spec="specs.c06:single_or_default_async",
        cells={"value": "val", "seen_value": "bool"},
        inv="seen_value == s.seen and implies(s.seen, same(value, s.value)) and implies(not s.seen, same(value, default_value))",
        witness="ops.single_or_default(None, default_value) if has_default else ops.single()",
    ),
    OpContract(
        name="reduce", props=["C06"], file=OPS + "_reduce.py", func="reduce_",
        call="reduce_(accumulator, seed)(source)", params={"accumulator": "callback", "seed": "notset:val"},
        spec="specs.c06:reduce",
        # c[0]: last / last_or_default(seed) stage, c[1]: scan stage
        inv="c[1].has == s.has and implies(s.has, same(c[1].acc, s.acc)) and c[1].failed == s.failed "
            "and c[0].seen == s.has and implies(s.has, same(c[0].value, s.acc)) and not c[0].pfailed",
        witness="ops.reduce(accumulator, seed)",
    ),
    OpContract(
        name="last", props=["C06"], file=OPS + "_last.py", func="last_",
        call="last_(predicate)(source)", params={"predicate": "opt:callback"},
        spec="specs.c06:last",
        inv="(" + LOD + ") if len(c) == 1 else (c[1].failed == s.pfailed and not c[0].pfailed and " + LOD + ")",
        witness="ops.last(predicate)",
    ),
    OpContract(
        name="last_or_default", props=["C06", "C08"], file=OPS + "_lastordefault.py", func="last_or_default",
        call="last_or_default(default_value, predicate)(source)", params={"default_value": "val", "predicate": "opt:callback"},
        spec="specs.c06:last_or_default",
        inv="(" + LOD + ") if len(c) == 1 else (c[1].failed == s.pfailed and not c[0].pfailed and " + LOD + ")",
        witness="ops.last_or_default(default_value, predicate)",
    ),
    OpContract(
        name="first", props=["C06", "C14"], file=OPS + "_first.py", func="first_",
        call="first_(predicate)(source)", params={"predicate": "opt:callback"},
        spec="specs.c06:first",
        inv="(c[0].found == s.found) if len(c) == 1 else (c[1].failed == s.pfailed and c[0].found == s.found and not c[0].pfailed)",
        witness="ops.first(predicate)",
    ),
    OpContract(
        name="first_or_default", props=["C06"], file=OPS + "_firstordefault.py", func="first_or_default_",
        call="first_or_default_(predicate, default_value)(source)", params={"predicate": "opt:callback", "default_value": "val"},
        spec="specs.c06:first_or_default",
        inv="(c[0].found == s.found) if len(c) == 1 else (c[1].failed == s.pfailed and c[0].found == s.found and not c[0].pfailed)",
        witness="ops.first_or_default(predicate, default_value)",
    ),
    OpContract(
        name="single", props=["C06"], file=OPS + "_single.py", func="single_",
        call="single_(predicate)(source)", params={"predicate": "opt:callback"},
        spec="specs.c06:single",
        inv="(c[0].failed == s.failed and " + LOD + ") if len(c) == 1 else "
            "(c[1].failed == s.pfailed and not c[0].pfailed and c[0].failed == s.failed and " + LOD + ")",
        witness="ops.single(predicate)",
    ),
    OpContract(
        name="single_or_default", props=["C06"], file=OPS + "_singleordefault.py", func="single_or_default_",
        call="single_or_default_(predicate, default_value)(source)", params={"predicate": "opt:callback", "default_value": "val"},
        spec="specs.c06:single_or_default",
        inv="(c[0].failed == s.failed and " + LOD + ") if len(c) == 1 else "
            "(c[1].failed == s.pfailed and not c[0].pfailed and c[0].failed == s.failed and " + LOD + ")",
        witness="ops.single_or_default(predicate, default_value)",
    ),
    OpContract(
        name="some", props=["C06"], file=OPS + "_some.py", func="some_",
        call="some_(predicate)(source)", params={"predicate": "opt:callback"},
        spec="specs.c06:some",
        inv="True if len(c) == 0 else (c[1].failed == s.pfailed and c[0].found == s.found and not c[0].pfailed)",
        witness="ops.some(predicate)",
    ),
    OpContract(
        name="all", props=["C06"], file=OPS + "_all.py", func="all_",
        call="all_(predicate)(source)", params={"predicate": "callback"},
        spec="specs.c06:all_",
        # c[0]: map(not), c[1]: some(), c[2]: filter(not predicate)
        inv="not c[0].failed and c[1].found == s.found and not c[1].pfailed and c[2].failed == s.pfailed",
        witness="ops.all(predicate)",
    ),
    OpContract(
        name="contains", props=["C06"], file=OPS + "_contains.py", func="contains_",
        call="contains_(value, comparer)(source)", params={"value": "val", "comparer": "opt:callback"},
        spec="specs.c06:contains",
        inv="c[0].found == s.found and not c[0].pfailed and c[1].failed == s.pfailed",
        witness="ops.contains(value, comparer)",
    ),
    OpContract(
        name="is_empty", props=["C06"], file=OPS + "_isempty.py", func="is_empty_",
        call="is_empty_()(source)", params={},
        spec="specs.c06:is_empty",
        inv="not c[0].failed and c[1].found == s.found and not c[1].pfailed",
        witness="ops.is_empty()",
    ),
    OpContract(
        name="to_iterable", props=["C06"], file=OPS + "_toiterable.py", func="to_iterable_",
        call="to_iterable_()(source)", params={},
        spec="specs.c06:to_iterable",
        cells={"queue": "seq"}, inv="same(queue, s.q)",
        witness="ops.to_iterable()",
    ),
    OpContract(
        name="extrema_by", props=["C06", "C09"], file=OPS + "_minby.py", func="extrema_by",
        call="extrema_by(source, key_mapper, comparer)", params={"key_mapper": "callback", "comparer": "callback"},
        spec="specs.c06:extrema_by",
        cells={"has_value": "bool", "last_key": "val", "items": "seq"},
        inv="has_value == s.has and implies(s.has, same(last_key, s.last_key)) and same(items, s.items)",
        witness="ops.max_by(key_mapper, comparer)",
    ),
]

AVG = "obj:reactivex.operators._average:AverageValue(sum=val,count=nat)"
EXT = ("c[{k}].has == s.has and implies(s.has, same(c[{k}].last_key, s.last_key)) and same(c[{k}].items, s.items) "
       "and c[{k}].failed == s.failed")

CONTRACTS += [
    OpContract(
        name="count", props=["C06"], file=OPS + "_count.py", func="count_",
        call="count_(predicate)(source)", params={"predicate": "opt:callback"},
        spec="specs.c06:count", spec_args={"n": "nat"},
        # no predicate: c[0] = reduce(reducer, seed=0); with one: c[0] = count(), c[1] = filter(predicate)
        inv="(c[0].has == (s.n > 0) and implies(c[0].has, same(c[0].acc, s.n)) and not c[0].failed) if len(c) == 1 else "
            "(c[0].n == s.n and not c[0].pfailed and c[1].failed == s.pfailed)",
        witness="ops.count(predicate)",
    ),
    OpContract(
        name="sum", props=["C06"], file=OPS + "_sum.py", func="sum_",
        call="sum_(key_mapper)(source)", params={"key_mapper": "opt:callback"},
        spec="specs.c06:sum_", spec_args={"total": "val"},
        # no mapper: c[0] = reduce(seed=0, accumulator=+); with one: c[0] = sum(), c[1] = map(key_mapper)
        inv="(implies(c[0].has, same(c[0].acc, s.total)) and implies(not c[0].has, same(s.total, 0)) and c[0].failed == s.afailed) "
            "if len(c) == 1 else "
            "(same(c[0].total, s.total) and c[0].afailed == s.afailed and not c[0].kfailed and c[1].failed == s.kfailed)",
        witness="ops.sum(key_mapper)",
    ),
    OpContract(
        name="average", props=["C06", "C04"], file=OPS + "_average.py", func="average_",
        call="average_(key_mapper)(source)", params={"key_mapper": "opt:callback"},
        spec="specs.c06:average", spec_args={"total": "val", "n": "nat"},
        # c[0] = map(mapper), c[1] = last(), c[2] = scan(accumulator, seed), c[3] = map(key_mapper_)
        stage_args={1: {"value": AVG}, 2: {"acc": AVG}},
        # the seed record is shared by every subscription: it must never be modified
        cells={"seed.sum": "val", "seed.count": "int"},
        inv="not c[0].failed and not c[1].pfailed and c[1].seen == (s.n > 0) and implies(s.n > 0, same(field(c[1].value, 'sum', 0), s.total) and field(c[1].value, 'count', 0) == s.n) "
            "and c[2].has == (s.n > 0) and implies(s.n > 0, same(field(c[2].acc, 'sum', 0), s.total) and field(c[2].acc, 'count', 0) == s.n) "
            "and c[2].failed == s.afailed and c[3].failed == s.kfailed and implies(s.n == 0, same(s.total, 0)) "
            "and same(seed.sum, 0) and seed.count == 0",
        witness="ops.average(key_mapper)",
    ),
    OpContract(
        name="min_by", props=["C06"], file=OPS + "_minby.py", func="min_by_",
        call="min_by_(key_mapper, comparer)(source)", params={"key_mapper": "callback", "comparer": "opt:callback"},
        spec="specs.c06:min_by", inv=EXT.format(k=0),
        witness="ops.min_by(key_mapper, comparer)",
    ),
    OpContract(
        name="max_by", props=["C06"], file=OPS + "_maxby.py", func="max_by_",
        call="max_by_(key_mapper, comparer)(source)", params={"key_mapper": "callback", "comparer": "opt:callback"},
        spec="specs.c06:max_by", inv=EXT.format(k=0),
        witness="ops.max_by(key_mapper, comparer)",
    ),
    OpContract(
        name="min", props=["C06"], file=OPS + "_min.py", func="min_",
        call="min_(comparer)(source)", params={"comparer": "opt:callback"},
        spec="specs.c06:min_",
        # c[0] = map(first_only), c[1] = min_by(identity, comparer)
        inv="not c[0].failed and c[1].has == s.has and c[1].failed == s.failed and implies(s.has, same(c[1].last_key, s.best) "
            "and same(c[1].items[:1], [s.best])) and (len(c[1].items) > 0) == s.has",
        witness="ops.min(comparer)",
    ),
    OpContract(
        name="max", props=["C06"], file=OPS + "_max.py", func="max_",
        call="max_(comparer)(source)", params={"comparer": "opt:callback"},
        spec="specs.c06:max_",
        inv="not c[0].failed and c[1].has == s.has and c[1].failed == s.failed and implies(s.has, same(c[1].last_key, s.best) "
            "and same(c[1].items[:1], [s.best])) and (len(c[1].items) > 0) == s.has",
        witness="ops.max(comparer)",
    ),
    OpContract(
        name="to_set", props=["C06"], file=OPS + "_toset.py", func="to_set_",
        call="to_set_()(source)", params={},
        spec="specs.c06:to_set", cells={"s": "setlog"}, inv="same(cell_s, s.items)",
        witness="ops.to_set()",
    ),
    OpContract(
        name="to_dict", props=["C06", "C09"], file=OPS + "_todict.py", func="to_dict_",
        call="to_dict_(key_mapper, element_mapper)(source)", params={"key_mapper": "callback", "element_mapper": "opt:callback"},
        spec="specs.c06:to_dict", cells={"m": "dictlog"}, inv="same(m, s.d)",
        witness="ops.to_dict(key_mapper, element_mapper)",
    ),
    OpContract(
        name="sequence_equal", props=["C06"], file=OPS + "_sequenceequal.py", func="sequence_equal_",
        call="sequence_equal_(second, comparer)(source)", params={"comparer": "opt:callback", "n": "const:2"},
        sources=("source", "second"),
        spec="specs.c06:sequence_equal", live="not s.done_[i]",
        cells={"donel": "cell:bool", "doner": "cell:bool", "ql": "seq", "qr": "seq"},
        spec_args={"q": "list:seq", "done_": "list:bool", "term": "bool"},
        # at most one side has unmatched elements
        inv="same(ql, s.q[0]) and same(qr, s.q[1]) and donel[0] == s.done_[0] and doner[0] == s.done_[1] "
            "and (len(ql) == 0 or len(qr) == 0)",
        witness="source.pipe(ops.sequence_equal(second, comparer))",
    ),
]
