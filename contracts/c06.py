"""Sidecar contracts for C06 (aggregating operators).  Composite operators are verified against
the CONTRACTS of the operators they pipe through (callee stages `c[i]`, downstream-most first),
never against their bodies."""
from rxvc.contract import OpContract

OPS = "reactivex/operators/"

# coupling of the `filtered` mixin with a leading ops.filter(predicate) stage
LOD = "c[0].seen == s.seen and implies(s.seen, same(c[0].value, s.value))"

CONTRACTS = [
    OpContract(
        name="scan", props=["C06", "C09"], file=OPS + "_scan.py", func="scan_",
        call="scan_(accumulator, seed)(source)", params={"accumulator": "callback", "seed": "notset:val"},
        spec="specs.c06:scan",
        cells={"has_accumulation": "bool", "accumulation": "val"},
        inv="has_accumulation == s.has and implies(s.has, same(accumulation, s.acc)) and not c[0].failed",
        witness="ops.scan(accumulator, seed)",
    ),
    OpContract(
        name="last_or_default_async", props=["C06", "C08"], file=OPS + "_lastordefault.py", func="last_or_default_async",
        call="last_or_default_async(source, has_default, default_value)",
        params={"has_default": "pybool", "default_value": "val"},
        spec="specs.c06:last_or_default_async",
        cells={"value": "cell:val", "seen_value": "cell:bool"},
        inv="seen_value[0] == s.seen and implies(s.seen, same(value[0], s.value)) and implies(not s.seen, same(value[0], default_value))",
        witness="ops.last_or_default(default_value) if has_default else ops.last()",
    ),
    OpContract(
        name="first_or_default_async", props=["C06", "C14"], file=OPS + "_firstordefault.py", func="first_or_default_async_",
        call="first_or_default_async_(has_default, default_value)(source)",
        params={"has_default": "pybool", "default_value": "val"},
        spec="specs.c06:first_or_default_async", inv="True",
        witness="ops.first_or_default(None, default_value) if has_default else ops.first()",
    ),
    OpContract(
        name="single_or_default_async", props=["C06"], file=OPS + "_singleordefault.py", func="single_or_default_async_",
        call="single_or_default_async_(has_default, default_value)(source)",
        params={"has_default": "pybool", "default_value": "val"},
        spec="specs.c06:single_or_default_async",
        cells={"value": "val", "seen_value": "bool"},
        inv="seen_value == s.seen and implies(s.seen, same(value, s.value)) and implies(not s.seen, same(value, default_value))",
        witness="ops.single_or_default(None, default_value) if has_default else ops.single()",
    ),
    OpContract(
        name="reduce", props=["C06"], file=OPS + "_reduce.py", func="reduce_",
        call="reduce_(accumulator, seed)(source)", params={"accumulator": "callback", "seed": "notset:val"},
        spec="specs.c06:reduce",
        # c[0]: last / last_or_default(seed) stage, c[1]: scan stage
        inv="c[1].has == s.has and implies(s.has, same(c[1].acc, s.acc)) and c[1].failed == s.failed "
            "and c[0].seen == s.has and implies(s.has, same(c[0].value, s.acc)) and not c[0].pfailed",
        witness="ops.reduce(accumulator, seed)",
    ),
    OpContract(
        name="last", props=["C06"], file=OPS + "_last.py", func="last_",
        call="last_(predicate)(source)", params={"predicate": "opt:callback"},
        spec="specs.c06:last",
        inv="(" + LOD + ") if len(c) == 1 else (c[1].failed == s.pfailed and not c[0].pfailed and " + LOD + ")",
        witness="ops.last(predicate)",
    ),
    OpContract(
        name="last_or_default", props=["C06", "C08"], file=OPS + "_lastordefault.py", func="last_or_default",
        call="last_or_default(default_value, predicate)(source)", params={"default_value": "val", "predicate": "opt:callback"},
        spec="specs.c06:last_or_default",
        inv="(" + LOD + ") if len(c) == 1 else (c[1].failed == s.pfailed and not c[0].pfailed and " + LOD + ")",
        witness="ops.last_or_default(default_value, predicate)",
    ),
    OpContract(
        name="first", props=["C06", "C14"], file=OPS + "_first.py", func="first_",
        call="first_(predicate)(source)", params={"predicate": "opt:callback"},
        spec="specs.c06:first",
        inv="(c[0].found == s.found) if len(c) == 1 else (c[1].failed == s.pfailed and c[0].found == s.found and not c[0].pfailed)",
        witness="ops.first(predicate)",
    ),
    OpContract(
        name="first_or_default", props=["C06"], file=OPS + "_firstordefault.py", func="first_or_default_",
        call="first_or_default_(predicate, default_value)(source)", params={"predicate": "opt:callback", "default_value": "val"},
        spec="specs.c06:first_or_default",
        inv="(c[0].found == s.found) if len(c) == 1 else (c[1].failed == s.pfailed and c[0].found == s.found and not c[0].pfailed)",
        witness="ops.first_or_default(predicate, default_value)",
    ),
    OpContract(
        name="single", props=["C06"], file=OPS + "_single.py", func="single_",
        call="single_(predicate)(source)", params={"predicate": "opt:callback"},
        spec="specs.c06:single",
        inv="(c[0].failed == s.failed and " + LOD + ") if len(c) == 1 else "
            "(c[1].failed == s.pfailed and not c[0].pfailed and c[0].failed == s.failed and " + LOD + ")",
        witness="ops.single(predicate)",
    ),
    OpContract(
        name="single_or_default", props=["C06"], file=OPS + "_singleordefault.py", func="single_or_default_",
        call="single_or_default_(predicate, default_value)(source)", params={"predicate": "opt:callback", "default_value": "val"},
        spec="specs.c06:single_or_default",
        inv="(c[0].failed == s.failed and " + LOD + ") if len(c) == 1 else "
            "(c[1].failed == s.pfailed and not c[0].pfailed and c[0].failed == s.failed and " + LOD + ")",
        witness="ops.single_or_default(predicate, default_value)",
    ),
    OpContract(
        name="some", props=["C06"], file=OPS + "_some.py", func="some_",
        call="some_(predicate)(source)", params={"predicate": "opt:callback"},
        spec="specs.c06:some",
        inv="True if len(c) == 0 else (c[1].failed == s.pfailed and c[0].found == s.found and not c[0].pfailed)",
        witness="ops.some(predicate)",
    ),
    OpContract(
        name="all", props=["C06"], file=OPS + "_all.py", func="all_",
        call="all_(predicate)(source)", params={"predicate": "callback"},
        spec="specs.c06:all_",
        # c[0]: map(not), c[1]: some(), c[2]: filter(not predicate)
        inv="not c[0].failed and c[1].found == s.found and not c[1].pfailed and c[2].failed == s.pfailed",
        witness="ops.all(predicate)",
    ),
    OpContract(
        name="contains", props=["C06"], file=OPS + "_contains.py", func="contains_",
        call="contains_(value, comparer)(source)", params={"value": "val", "comparer": "opt:callback"},
        spec="specs.c06:contains",
        inv="c[0].found == s.found and not c[0].pfailed and c[1].failed == s.pfailed",
        witness="ops.contains(value, comparer)",
    ),
    OpContract(
        name="is_empty", props=["C06"], file=OPS + "_isempty.py", func="is_empty_",
        call="is_empty_()(source)", params={},
        spec="specs.c06:is_empty",
        inv="not c[0].failed and c[1].found == s.found and not c[1].pfailed",
        witness="ops.is_empty()",
    ),
    OpContract(
        name="to_iterable", props=["C06"], file=OPS + "_toiterable.py", func="to_iterable_",
        call="to_iterable_()(source)", params={},
        spec="specs.c06:to_iterable",
        cells={"queue": "seq"}, inv="same(queue, s.q)",
        witness="ops.to_iterable()",
    ),
    OpContract(
        name="extrema_by", props=["C06", "C09"], file=OPS + "_minby.py", func="extrema_by",
        call="extrema_by(source, key_mapper, comparer)", params={"key_mapper": "callback", "comparer": "callback"},
        spec="specs.c06:extrema_by",
        cells={"has_value": "bool", "last_key": "val", "items": "seq"},
        inv="has_value == s.has and implies(s.has, same(last_key, s.last_key)) and same(items, s.items)",
        witness="ops.max_by(key_mapper, comparer)",
    ),
]
