"""Sidecar contracts for delay (K1-T with a queue of time-stamped notifications; the source reaches the handler through the
callee contracts of materialize and timestamp)."""
from rxvc.contract import OpContract

OPS = "reactivex/operators/"

def _absolute(rel):
    """the same contract for an absolute due time (a datetime: tagged integer instant)"""
    import copy
    c = copy.copy(rel)
    c.name = "delay/absolute"
    c.params = {"duetime": "datetime", "absolute": "const:True"}
    return c


_REL = OpContract(
        name="delay/relative", props=["C15"], timed=True, file=OPS + "_delay.py", func="observable_delay_timespan",
        call="observable_delay_timespan(source, duetime, scheduler)", params={"duetime": "nat", "absolute": "const:False"}, scheduler="scheduler",
        spec="specs.c15:delay", spec_args={"q": "seq[tupnotif]"},
        cells={"queue": "seq[tsnotif]", "active": "cell:bool", "running": "cell:bool", "exception": "val"},
        # the real queue IS the spec's; a completion record can only be its last record, and there is none while the source is live
        inv="same(queue, s.q) and active[0] == s.active and not running[0] and is_none(exception) and duetime_ == s.d "
            "and completion_last(queue) and (s.src_done or all_elements(queue))",
        live="not s.src_done",
        loops={
            # the drain loop of a tick: what it has delivered so far + the due prefix still queued = the due prefix of the whole queue
            ("observable_delay_timespan.subscribe.on_next.action", 0): dict(
                # ... and once it has delivered the completion (the loop goes on): everything due was delivered and nothing is left
                inv="completion_last(queue) and implies(all_elements(old_queue), all_elements(queue)) and ("
                    "(len(queue) == 0 and same(emitted, due_prefix_vals(old_queue, now_)) and due_prefix_completes(old_queue, now_)) if terminated else "
                    "(same(emitted + due_prefix_vals(queue, now_), due_prefix_vals(old_queue, now_)) and "
                    "due_prefix_completes(queue, now_) == due_prefix_completes(old_queue, now_) and "
                    "same(drop_due_prefix(queue, now_), drop_due_prefix(old_queue, now_))))",
                old=["queue"], havoc={"queue": "seq[tsnotif]"}, decreases="len(queue)", may_terminate="C"),
        },
        timers={"tick": {"created_in": "source.on_next", "spec": "on_fire", "inv": "s.active"}},
)

_DWM = OpContract(
    name="delay_with_mapper", props=["C15", "C09"], file=OPS + "_delaywithmapper.py", func="delay_with_mapper_",
    call="delay_with_mapper_(mapper, None)(source)", params={"mapper": "callback:source"},
    spec="specs.c15:delay_with_mapper",
    cells={"at_end": "cell:bool", "delays.disposable": "seq"},
    # one entry of the composite per element that is still held
    inv="at_end[0] == s.at_end and len(delays.disposable) == s.pending",
    families={"delay": dict(spec=("delay_next", "delay_error", "delay_completed"), id_local="x", once=True,
                            inv="contains(delays.disposable, d) and s.pending >= 1",
                            locals={"x": "val", "d": "ref"}, unique=("d",))},
)

_DWS = OpContract(
    name="delay_with_mapper/subscription_delay", props=["C15"], file=OPS + "_delaywithmapper.py", func="delay_with_mapper_",
    call="delay_with_mapper_(sub_delay, mapper)(source)", params={"mapper": "callback:source"}, sources=("source", "sub_delay"),
    spec="specs.c15:delay_with_mapper_sub",
    cells={"at_end": "cell:bool", "delays.disposable": "seq", "started": "cell:bool"},
    inv="at_end[0] == s.at_end and len(delays.disposable) == s.pending and started[0] == s.started",
    live="(not s.started) if i == 1 else s.started",
)
_DWS.late_subscribe = True
_DWS.must_fail = False  # the function's mutants are judged by the mapper-form contract (this one covers the subscription delay's handlers only)

CONTRACTS = [_REL, _absolute(_REL), _DWM, _DWS]
# native runner (timedrun.py: the mapper returns timer(d + 10 for None elements), subscription delays timer(sd)): replay, thorough
# cross-check, bounded stand-in on drift
_DWM.runner = ("timedrun.py", "delay_with_mapper")
_DWS.runner = ("timedrun.py", "delay_with_mapper")
