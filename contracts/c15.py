"""Sidecar contracts for delay (K1-T with a queue of time-stamped notifications; the source reaches the handler through the
callee contracts of materialize and timestamp)."""
from rxvc.contract import OpContract

OPS = "reactivex/operators/"

CONTRACTS = [
    OpContract(
        name="delay/relative", props=["C15"], timed=True, file=OPS + "_delay.py", func="observable_delay_timespan",
        call="observable_delay_timespan(source, duetime, scheduler)", params={"duetime": "nat"}, scheduler="scheduler",
        spec="specs.c15:delay", spec_args={"q": "seq[tupnotif]"},
        cells={"queue": "seq[tsnotif]", "active": "cell:bool", "running": "cell:bool", "exception": "val"},
        inv="same(queue, s.q) and active[0] == s.active and not running[0] and is_none(exception) and duetime_ == duetime",
        loops={
            # the drain loop of a tick: what it has delivered so far + the due prefix still queued = the due prefix of the whole queue
            ("observable_delay_timespan.subscribe.on_next.action", 0): dict(
                inv="same(emitted + due_prefix_vals(queue, now_), due_prefix_vals(old_queue, now_)) and "
                    "due_prefix_completes(queue, now_) == due_prefix_completes(old_queue, now_) and "
                    "same(drop_due_prefix(queue, now_), drop_due_prefix(old_queue, now_))",
                old=["queue"], havoc={"queue": "seq[tsnotif]"}, decreases="len(queue)", after_terminal="rest-empty"),
        },
        timers={"tick": {"created_in": "source.on_next", "spec": "on_fire", "inv": "s.active"}},
    ),
]
