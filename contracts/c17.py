"""Sidecar contracts for the timed operators (K1-T): C17 time boundaries, C15 clock readers, C16 rate limiters."""
from rxvc.contract import OpContract

OPS = "reactivex/operators/"

CONTRACTS = [
    OpContract(
        name="take_with_time", props=["C17"], file=OPS + "_takewithtime.py", func="take_with_time_",
        call="take_with_time_(duration, scheduler)(source)", params={"duration": "nat"}, scheduler="scheduler",
        spec="specs.c17:take_with_time", inv="True",
        timers={"end": {"created_in": "subscribe", "spec": "on_end"}},
    ),
    OpContract(
        name="skip_with_time", props=["C17"], file=OPS + "_skipwithtime.py", func="skip_with_time_",
        call="skip_with_time_(duration, scheduler)(source)", params={"duration": "nat"}, scheduler="scheduler",
        spec="specs.c17:skip_with_time", cells={"open": "cell:bool"}, inv="open[0] == s.open",
        timers={"open": {"created_in": "subscribe", "spec": "on_open"}},
    ),
    OpContract(
        name="take_until_with_time/relative", props=["C17"], file=OPS + "_takeuntilwithtime.py", func="take_until_with_time_",
        call="take_until_with_time_(end_time, scheduler)(source)", params={"end_time": "nat", "absolute": "const:False"}, scheduler="scheduler",
        spec="specs.c17:take_until_with_time", inv="True",
        timers={"end": {"created_in": "subscribe", "spec": "on_end"}},
    ),
    OpContract(
        name="take_until_with_time/absolute", props=["C17"], file=OPS + "_takeuntilwithtime.py", func="take_until_with_time_",
        call="take_until_with_time_(end_time, scheduler)(source)", params={"end_time": "datetime", "absolute": "const:True"}, scheduler="scheduler",
        spec="specs.c17:take_until_with_time", inv="True",
        timers={"end": {"created_in": "subscribe", "spec": "on_end"}},
    ),
    OpContract(
        name="skip_until_with_time/relative", props=["C17"], file=OPS + "_skipuntilwithtime.py", func="skip_until_with_time_",
        call="skip_until_with_time_(start_time, scheduler)(source)", params={"start_time": "nat", "absolute": "const:False"}, scheduler="scheduler",
        spec="specs.c17:skip_until_with_time", cells={"open": "cell:bool"}, inv="open[0] == s.open",
        timers={"open": {"created_in": "subscribe", "spec": "on_open"}},
    ),
    OpContract(
        name="skip_until_with_time/absolute", props=["C17"], file=OPS + "_skipuntilwithtime.py", func="skip_until_with_time_",
        call="skip_until_with_time_(start_time, scheduler)(source)", params={"start_time": "datetime", "absolute": "const:True"}, scheduler="scheduler",
        spec="specs.c17:skip_until_with_time", cells={"open": "cell:bool"}, inv="open[0] == s.open",
        timers={"open": {"created_in": "subscribe", "spec": "on_open"}},
    ),
    OpContract(
        name="throttle_first", props=["C16"], file=OPS + "_throttlefirst.py", func="throttle_first_",
        call="throttle_first_(window_duration, scheduler)(source)", params={"window_duration": "int"}, scheduler="scheduler",
        requires="window_duration > 0",
        spec="specs.c17:throttle_first", cells={"last_on_next": "opttime"}, timed=True,
        inv="(last_on_next is None) == (not s.has) and implies(s.has, last_on_next == s.last and s.last >= 1 and s.last <= s.clock)",
    ),
    OpContract(
        name="timestamp", props=["C15"], file=OPS + "_timestamp.py", func="timestamp_",
        call="timestamp_(scheduler)(source)", params={}, scheduler="scheduler",
        spec="specs.c17:timestamp", inv="not c[0].failed", timed=True,
    ),
    OpContract(
        name="time_interval", props=["C15"], file=OPS + "_timeinterval.py", func="time_interval_",
        call="time_interval_(scheduler)(source)", params={}, scheduler="scheduler",
        spec="specs.c17:time_interval", cells={"last": "int"}, inv="last == s.last and not c[0].failed", timed=True,
    ),
    OpContract(
        name="debounce", props=["C16"], file=OPS + "_debounce.py", func="debounce_",
        call="debounce_(duetime, scheduler)(source)", params={"duetime": "nat"}, scheduler="scheduler",
        spec="specs.c17:debounce",
        cells={"has_value": "cell:bool", "value": "cell:val", "_id": "cell:int", "cancelable.current": "optdisp"},
        inv="has_value[0] == s.has and implies(s.has, same(value[0], s.val)) and _id[0] == s.gen and s.gen >= 0 "
            "and (cancelable.current is not None) == (s.gen > 0)",
        # a timer that is still pending is the one of the newest element: older ones were cancelled when they were replaced
        timers={"fire": {"created_in": "source.on_next", "spec": "on_fire", "id": "s.gen", "inv": "current_id == k and k == _id[0]"}},
    ),
    OpContract(
        name="throttle_with_mapper", props=["C16", "C09"], file=OPS + "_debounce.py", func="throttle_with_mapper_",
        call="throttle_with_mapper_(mapper)(source)", params={"mapper": "callback:source"},
        spec="specs.c17:throttle_with_mapper",
        cells={"has_value": "bool", "value": "val", "_id": "cell:int", "cancelable.current": "optdisp"},
        inv="has_value == s.has and implies(s.has, same(value, s.val)) and _id[0] == s.gen and s.gen >= 0 "
            "and (cancelable.current is not None) == (s.gen > 0)",
        # a throttle that is still subscribed is the one of the newest element: older ones were released when they were replaced
        families={"throttle": dict(spec=("throttle_next", "throttle_error", "throttle_completed"), id="s.gen", once=True,
                                   inv="current_id == k and k == _id[0]")},
    ),
    OpContract(
        name="sample_observable", props=["C16"], timed=True, file=OPS + "_sample.py", func="sample_observable",
        call="sample_observable(source, sampler)", params={}, sources=("source", "sampler"),
        spec="specs.c17:sample",
        cells={"has_value": "bool", "value": "val", "at_end": "bool"},
        inv="has_value == s.has and implies(s.has, same(value, s.val)) and at_end == s.at_end",
    ),
    OpContract(
        name="timeout_with_mapper", props=["C17", "C09"], file=OPS + "_timeoutwithmapper.py", func="timeout_with_mapper_",
        call="timeout_with_mapper_(first_timeout, mapper, other)(source)", params={"mapper": "opt:callback:source"},  # the mapper may be omitted
        sources=("source", "other", "first_timeout"),
        spec="specs.c17:timeout_with_mapper",
        cells={"switched": "bool", "_id": "cell:int", "timer.current": "optdisp"},
        inv="switched == s.switched and _id[0] == s.gen and s.gen >= 0 and timer.current is not None",
        # after the end the counter and the flag still mirror the spec: a timeout left over from before is stale or finds the switch made
        inv_done="switched == s.switched and _id[0] == s.gen", live="not s.term and not s.switched",
        families={"timeout": dict(spec=("timeout_next", "timeout_error", "timeout_completed"), id="s.gen", once=True,
                                  inv="my_id == k", inv_done="my_id == k",
                                  # a timeout left over from before the source's terminal is stale
                                  ghost_inv="1 <= k and k <= s.gen and implies(s.term, k < s.gen)")},
    ),
    OpContract(
        # first timeout and fallback omitted: never() / throw(Exception("Timeout")) through their callee contracts
        name="timeout_with_mapper/defaults", props=["C17", "C09"], file=OPS + "_timeoutwithmapper.py", func="timeout_with_mapper_",
        call="timeout_with_mapper_(None, mapper, None)(source)", params={"mapper": "opt:callback:source"},  # the mapper may be omitted
        sources=("source", "other", "first_timeout"),
        spec="specs.c17:timeout_with_mapper_defaults",
        cells={"switched": "bool", "_id": "cell:int", "timer.current": "optdisp"},
        inv="switched == s.switched and _id[0] == s.gen and s.gen >= 0 and timer.current is not None",
        # after the end the counter and the flag still mirror the spec: a timeout left over from before is stale or finds the switch made
        inv_done="switched == s.switched and _id[0] == s.gen", live="not s.term and not s.switched",
        families={"timeout": dict(spec=("timeout_next", "timeout_error", "timeout_completed"), id="s.gen", once=True,
                                  inv="my_id == k", inv_done="my_id == k",
                                  # a timeout left over from before the source's terminal is stale
                                  ghost_inv="1 <= k and k <= s.gen and implies(s.term, k < s.gen)")},
    ),
    OpContract(
        name="timeout/relative", props=["C17"], file=OPS + "_timeout.py", func="timeout_",
        call="timeout_(duetime, other, scheduler)(source)", params={"duetime": "nat", "absolute": "const:False"}, scheduler="scheduler",
        sources=("source", "other"),
        spec="specs.c17:timeout",
        cells={"switched": "cell:bool", "_id": "cell:int", "timer.current": "optdisp"},
        inv="switched[0] == s.switched and _id[0] == s.gen and s.gen >= 0 and timer.current is not None",
        # after the end: the counter still mirrors the generation, so a timer left over from before the source's terminal
        # is stale (k < gen: ghost invariant of the spec machine, proved) and must not switch; once a timer has switched it
        # was the newest one, the older ones having been cancelled when replaced (assumed pending-set fact, see note)
        inv_done="_id[0] == s.gen", live="not s.term and not s.switched",
        timers={"first": {"created_in": "subscribe", "spec": "on_fire", "id": "s.gen", "inv": "my_id == k",
                          "inv_done": "my_id == k and not s.switched", "ghost_inv": "k <= s.gen and implies(s.term, k < s.gen)"},
                "rearmed": {"created_in": "source.on_next", "spec": "on_fire", "id": "s.gen", "inv": "my_id == k",
                            "inv_done": "my_id == k and not s.switched", "ghost_inv": "k <= s.gen and implies(s.term, k < s.gen)"}},
    ),
    OpContract(
        # no fallback given ("... or fails"): the sequence that takes over is throw(Exception("Timeout")), through its callee contract
        name="timeout/relative/no-fallback", props=["C17"], file=OPS + "_timeout.py", func="timeout_",
        call="timeout_(duetime, None, scheduler)(source)", params={"duetime": "nat", "absolute": "const:False"}, scheduler="scheduler",
        sources=("source", "other"),
        spec="specs.c17:timeout_failing",
        cells={"switched": "cell:bool", "_id": "cell:int", "timer.current": "optdisp"},
        inv="switched[0] == s.switched and _id[0] == s.gen and s.gen >= 0 and timer.current is not None",
        inv_done="_id[0] == s.gen", live="not s.term and not s.switched",
        timers={"first": {"created_in": "subscribe", "spec": "on_fire", "id": "s.gen", "inv": "my_id == k",
                          "inv_done": "my_id == k and not s.switched", "ghost_inv": "k <= s.gen and implies(s.term, k < s.gen)"},
                "rearmed": {"created_in": "source.on_next", "spec": "on_fire", "id": "s.gen", "inv": "my_id == k",
                            "inv_done": "my_id == k and not s.switched", "ghost_inv": "k <= s.gen and implies(s.term, k < s.gen)"}},
    ),
    OpContract(
        name="timeout/absolute", props=["C17"], file=OPS + "_timeout.py", func="timeout_",
        call="timeout_(duetime, other, scheduler)(source)", params={"duetime": "datetime", "absolute": "const:True"}, scheduler="scheduler",
        sources=("source", "other"),
        spec="specs.c17:timeout",
        cells={"switched": "cell:bool", "_id": "cell:int", "timer.current": "optdisp"},
        inv="switched[0] == s.switched and _id[0] == s.gen and s.gen >= 0 and timer.current is not None",
        # after the end: the counter still mirrors the generation, so a timer left over from before the source's terminal
        # is stale (k < gen: ghost invariant of the spec machine, proved) and must not switch; once a timer has switched it
        # was the newest one, the older ones having been cancelled when replaced (assumed pending-set fact, see note)
        inv_done="_id[0] == s.gen", live="not s.term and not s.switched",
        timers={"first": {"created_in": "subscribe", "spec": "on_fire", "id": "s.gen", "inv": "my_id == k",
                          "inv_done": "my_id == k and not s.switched", "ghost_inv": "k <= s.gen and implies(s.term, k < s.gen)"},
                "rearmed": {"created_in": "source.on_next", "spec": "on_fire", "id": "s.gen", "inv": "my_id == k",
                            "inv_done": "my_id == k and not s.switched", "ghost_inv": "k <= s.gen and implies(s.term, k < s.gen)"}},
    ),
    OpContract(
        name="delay_subscription/relative", props=["C15"], file=OPS + "_delaysubscription.py", func="delay_subscription_",
        call="delay_subscription_(duetime, scheduler)(source)", params={"duetime": "nat", "absolute": "const:False"}, scheduler="scheduler",
        spec="specs.c17:delay_subscription", inv="True",
        timers={"fire": {"created_in": "subscribe", "spec": "on_fire"}},
    ),
    OpContract(
        name="delay_subscription/absolute", props=["C15"], file=OPS + "_delaysubscription.py", func="delay_subscription_",
        call="delay_subscription_(duetime, scheduler)(source)", params={"duetime": "datetime", "absolute": "const:True"}, scheduler="scheduler",
        spec="specs.c17:delay_subscription", inv="True",
        timers={"fire": {"created_in": "subscribe", "spec": "on_fire"}},
    ),
]
for _c in CONTRACTS:
    if _c.name.startswith("delay_subscription"):
        _c.late_subscribe = True
    # native runner of their own (timedrun.py: the mapper returns timer(d + 10 for None elements)): replay, thorough cross-check,
    # bounded stand-in on drift
    if _c.name in ("throttle_with_mapper", "timeout_with_mapper", "timeout_with_mapper/defaults"):
        _c.runner = ("timedrun.py", _c.name.split("/")[0])
