"""Sidecar contracts for C11 (merging) and C12 (switching): K1 with handler families."""
from rxvc.contract import OpContract

OPS = "reactivex/operators/"
INNER = ("inner_next", "inner_error", "inner_completed")

CONTRACTS = [
    OpContract(
        name="merge_all", props=["C11"], file=OPS + "_merge.py", func="merge_all_",
        call="merge_all_()(source)", params={}, elem="source",
        spec="specs.c11:merge_all",
        cells={"is_stopped": "cell:bool", "group.disposable": "seq"},
        # the group holds the outer subscription plus one entry per live inner
        inv="is_stopped[0] == s.stopped and s.active >= 0 and len(group.disposable) == 1 + s.active",
        families={"inner": dict(spec=INNER, inv="contains(group.disposable, inner_subscription) and s.active >= 1")},
    ),
    OpContract(
        name="merge_concurrent", props=["C11"], file=OPS + "_merge.py", func="merge_",
        call="merge_(max_concurrent=max_concurrent)(source)", params={"max_concurrent": "int"}, elem="source",
        requires="max_concurrent >= 1",
        spec="specs.c11:merge_concurrent",
        cells={"active_count": "cell:int", "is_stopped": "cell:bool", "queue": "seq[ref:source]", "group.disposable": "seq"},
        # the group holds exactly one entry per subscribed inner, plus the outer subscription once source.subscribe returned
        # (a source that emits during subscribe finds the group without it): "at most n inner sequences are subscribed
        # at any time" counts subscriptions that were not released yet, also at every call-out
        inv="active_count[0] == s.active and is_stopped[0] == s.stopped and same(queue, s.q) and s.active >= 0 "
            "and s.active <= max_concurrent and implies(len(queue) > 0, s.active == max_concurrent) "
            "and s.active <= len(group.disposable) and len(group.disposable) <= 1 + s.active",
        families={"inner": dict(spec=INNER, inv="contains(group.disposable, subscription) and s.active >= 1")},
    ),
    OpContract(
        name="switch_latest", props=["C12"], file=OPS + "_switchlatest.py", func="switch_latest_",
        call="switch_latest_()(source)", params={}, elem="source",
        spec="specs.c11:switch_latest",
        cells={"latest": "cell:int", "has_latest": "cell:bool", "is_stopped": "cell:bool", "inner_subscription.current": "optdisp"},
        # the serial disposable holds the subscription of the most recent inner (if any arrived)
        inv="latest[0] == s.n and s.n >= 0 and has_latest[0] == s.has_latest and is_stopped[0] == s.stopped "
            "and (inner_subscription.current is not None) == (s.n > 0)",
        families={"inner": dict(spec=INNER, id="s.n", inv="_id == k and k <= s.n")},
    ),
]
# native runner (references written from the property text): replay, thorough cross-check, bounded stand-in on drift
for _c in CONTRACTS:
    _c.runner = ("flatrun.py", _c.name)
