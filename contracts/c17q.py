"""Sidecar contracts for the timed operators with a queue of time-stamped records (K1-T + loop invariants)."""
from rxvc.contract import OpContract

OPS = "reactivex/operators/"
REC = "seq[rec:interval=int,value=val]"

CONTRACTS = [
    OpContract(
        name="take_last_with_time", props=["C17"], timed=True, file=OPS + "_takelastwithtime.py", func="take_last_with_time_",
        call="take_last_with_time_(duration, scheduler)(source)", params={"duration": "nat"}, scheduler="scheduler",
        spec="specs.c17q:take_last_with_time", spec_args={"q": "seq[tup:int,val]"},
        cells={"q": REC},
        inv="same(q, s.q)",
        loops={
            # pruning at an arrival: what the loop has dropped so far is an aged prefix
            ("take_last_with_time_.subscribe.on_next", 0): dict(
                inv="len(emitted) == 0 and same(drop_aged_prefix(q, now, duration), drop_aged_prefix(old_q, now, duration))",
                old=["q"], havoc={"q": REC}, decreases="len(q)"),
            # the flush at completion: emitted so far + the young ones still queued = the young ones of the whole queue
            ("take_last_with_time_.subscribe.on_completed", 0): dict(
                inv="same(emitted + young_vals(q, now, duration), young_vals(old_q, now, duration))",
                old=["q"], havoc={"q": REC}, decreases="len(q)"),
        },
    ),
    OpContract(
        name="skip_last_with_time", props=["C17"], timed=True, file=OPS + "_skiplastwithtime.py", func="skip_last_with_time_",
        call="skip_last_with_time_(duration, scheduler)(source)", params={"duration": "nat"}, scheduler="scheduler",
        spec="specs.c17q:skip_last_with_time", spec_args={"q": "seq[tup:int,val]"},
        cells={"q": REC},
        inv="same(q, s.q)",
        loops={
            ("skip_last_with_time_.skip_last_with_time.subscribe.on_next", 0): dict(
                inv="same(emitted + aged_prefix_vals(q, now, duration), aged_prefix_vals(old_q, now, duration)) and "
                    "same(drop_aged_prefix(q, now, duration), drop_aged_prefix(old_q, now, duration))",
                old=["q"], havoc={"q": REC}, decreases="len(q)"),
            ("skip_last_with_time_.skip_last_with_time.subscribe.on_completed", 0): dict(
                inv="same(emitted + aged_prefix_vals(q, now, duration), aged_prefix_vals(old_q, now, duration)) and "
                    "same(drop_aged_prefix(q, now, duration), drop_aged_prefix(old_q, now, duration))",
                old=["q"], havoc={"q": REC}, decreases="len(q)"),
        },
    ),
]
