"""Sidecar contracts for C19 (grouping): K1 with an abstract map from keys to the subjects of the live groups, the
per-group family of duration subscriptions, and the operator's own subjects used through the Subject contract (C20)."""
from rxvc.contract import OpContract

OPS = "reactivex/operators/"

_gbu = OpContract(
    name="group_by_until", props=["C19"], file=OPS + "_groupbyuntil.py", func="group_by_until_",
    call="group_by_until_(key_mapper, element_mapper, duration_mapper, subject_mapper)(source)",
    params={"key_mapper": "callback", "element_mapper": "opt:callback", "duration_mapper": "callback:source",
            "subject_mapper": "opt:callback:subject"},
    spec="specs.c19:group_by_until", spec_args={"live": "refmap"},
    cells={"writers": "refmap", "group_disposable.disposable": "seq"},
    # the map of the real code IS the map of live groups (same keys, same subjects, same iteration order)
    inv="same(writers, s.live)",
    # after the end nothing is observable any more, but pending durations still fire: the map is only ever changed by expiries
    inv_done="True",
    families={"duration": dict(
        spec=("duration_next", "duration_error", "duration_completed"), id_local="key", once=True,
        # while its duration is pending a group is the live group of its key, and its duration subscription is held
        inv="maps_to(writers, key, writer) and maps_to(s.live, key, writer) and contains(group_disposable.disposable, sad)",
        # rely: the invariant of every OTHER pending member survives every step (distinct groups have distinct writers and slots)
        locals={"key": "val", "writer": "ref:subject", "sad": "ref"}, unique=("writer", "sad"),
    )},
)
_gbu.subjects = True
_gbu.runner = ("winrun.py", "group_by_until")
_gbu.done_quiet = False  # a source that goes on after a failing user function ended the output is C01's business

CONTRACTS = [_gbu]
