"""Sidecar contracts for C40: the side-effect operators (K1).  using / finally_action / do_finally / do_on_dispose /
do_on_subscribe are about subscriptions and disposal and live in rxvc/resrc.py."""
from rxvc.contract import OpContract

OPS = "reactivex/operators/"

CONTRACTS = [
    OpContract(
        name="do_action", props=["C40", "C09"], file=OPS + "_do.py", func="do_action_",
        call="do_action_(next_action, error_action, completed_action)(source)",
        params={"next_action": "opt:callback", "error_action": "opt:callback", "completed_action": "opt:callback"},
        spec="specs.c40:do_action", inv="True",
        witness="ops.do_action(next_action, error_action, completed_action)",
    ),
    OpContract(
        name="do_after_next", props=["C40", "C09"], file=OPS + "_do.py", func="do_after_next",
        call="do_after_next(source, after_next_action)", params={"after_next_action": "callback"},
        spec="specs.c40:do_after_next", inv="True",
        witness="lambda source: __import__('reactivex.operators._do', fromlist=['_']).do_after_next(source, after_next_action)",
    ),
    OpContract(
        name="do_on_terminate", props=["C40", "C09"], file=OPS + "_do.py", func="do_on_terminate",
        call="do_on_terminate(source, terminate_action)", params={"terminate_action": "callback"},
        spec="specs.c40:do_on_terminate", inv="True",
        witness="lambda source: __import__('reactivex.operators._do', fromlist=['_']).do_on_terminate(source, terminate_action)",
    ),
    OpContract(
        name="do_after_terminate", props=["C40"], file=OPS + "_do.py", func="do_after_terminate",
        call="do_after_terminate(source, terminate_action)", params={"terminate_action": "callback"},
        spec="specs.c40:do_after_terminate", inv="True",
        witness="lambda source: __import__('reactivex.operators._do', fromlist=['_']).do_after_terminate(source, terminate_action)",
    ),
]
