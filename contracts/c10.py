"""Sidecar contract for the one operator of C10 that is not built on the three iterable engines: catch with a callable handler."""
from rxvc.contract import OpContract

OPS = "reactivex/operators/"

_CH = OpContract(
    name="catch_handler", props=["C10", "C09"], file=OPS + "_catch.py", func="catch_handler",
    call="catch_handler(source, handler)", params={"handler": "callback:source"},
    spec="specs.c10:catch_handler",
    cells={"subscription.current": "optdisp"},
    inv="subscription.current is not None",
)
# the source may fail from INSIDE its subscribe call (throw() on an inline scheduler, a create() that fails at once): the
# continuation the handler returned is subscribed in that nested step and must still be subscribed when subscribe returns
_CH.sync_subscribe = (1,)

CONTRACTS = [_CH]
