"""Sidecar contracts for C13 (multi-source combinators).  amb is binary and exact; the n-ary ones are
instantiated for arity 2 and 3 (histories and values unbounded, arity bounded - stated in the evidence)."""
from rxvc.contract import OpContract

OBS = "reactivex/observable/"
OPS = "reactivex/operators/"


def _idx(n, fmt, join=" and "):
    return join.join(fmt.format(i=i) for i in range(n))


def nary(n):
    srcs = tuple("abc"[:n])
    args = ", ".join(srcs)
    out = []
    out.append(OpContract(
        name=f"combine_latest/{n}", props=["C13"], file=OBS + "combinelatest.py", func="combine_latest_",
        call=f"combine_latest_({args})", params={"n": f"const:{n}"}, sources=srcs,
        spec="specs.c13:combine_latest", live="not s.done_[i]", witness=f"reactivex.combine_latest({args})",
        cells={"has_value": "list:bool", "has_value_all": "bool", "is_done": "list:bool", "values": "list:val"},
        spec_args={"has": "list:bool", "vals": "list:val", "done_": "list:bool", "term": "bool"},
        inv=_idx(n, "has_value[{i}] == s.has[{i}] and is_done[{i}] == s.done_[{i}] and implies(s.has[{i}], same(values[{i}], s.vals[{i}]))")
            + " and has_value_all == (" + _idx(n, "s.has[{i}]") + ")",
    ))
    out.append(OpContract(
        name=f"zip/{n}", props=["C13"], file=OBS + "zip.py", func="zip_",
        call=f"zip_({args})", params={"n": f"const:{n}"}, sources=srcs,
        spec="specs.c13:zip_", live="not s.done_[i]", witness=f"reactivex.zip({args})",
        cells={"queues": "list:seq", "is_completed": "list:bool"},
        spec_args={"q": "list:seq", "done_": "list:bool", "term": "bool"},
        # between events at least one queue is empty (a full row is emitted at once)
        inv=_idx(n, "same(queues[{i}], s.q[{i}]) and is_completed[{i}] == s.done_[{i}]") + " and (" + _idx(n, "len(queues[{i}]) == 0", " or ") + ")",
    ))
    out.append(OpContract(
        name=f"fork_join/{n}", props=["C13"], file=OBS + "forkjoin.py", func="fork_join_",
        call=f"fork_join_({args})", params={"n": f"const:{n}"}, sources=srcs,
        spec="specs.c13:fork_join", live="not s.done_[i]", witness=f"reactivex.fork_join({args})",
        cells={"values": "list:val", "is_done": "list:bool", "has_value": "list:bool"},
        spec_args={"has": "list:bool", "vals": "list:val", "done_": "list:bool", "term": "bool"},
        # while the run is live, a source that completed had a value (an empty completion ends the run at once)
        inv=_idx(n, "has_value[{i}] == s.has[{i}] and is_done[{i}] == s.done_[{i}] and implies(s.has[{i}], same(values[{i}], s.vals[{i}])) "
                    "and implies(s.done_[{i}], s.has[{i}])"),
    ))
    if n >= 2:
        k = n - 1  # children
        out.append(OpContract(
            name=f"with_latest_from/{n}", props=["C13"], file=OBS + "withlatestfrom.py", func="with_latest_from_",
            call=f"with_latest_from_({args})", params={"n": f"const:{n}"}, sources=srcs,
            spec="specs.c13:with_latest_from", witness=f"a.pipe(ops.with_latest_from({', '.join(srcs[1:])}))",
            cells={"values": "list:sentinel-or-val"},
            spec_args={"has": "list:bool", "vals": "list:val", "term": "bool"},
            inv=" and ".join(f"(values[{j}] is not NO_VALUE) == s.has[{j + 1}] and implies(s.has[{j + 1}], same(values[{j}], s.vals[{j + 1}]))"
                             for j in range(k)),
        ))
    return out


CONTRACTS = nary(2) + nary(3) + [
    OpContract(
        name="amb", props=["C13"], file=OPS + "_amb.py", func="amb_",
        call="amb_(right_source)(left_source)", params={}, sources=("left_source", "right_source"),
        spec="specs.c13:amb", witness="left_source.pipe(ops.amb(right_source))",
        cells={"choice": "cell:choice:[None, 'L', 'R']"},
        spec_args={"choice": "int", "term": "bool"},
        inv="s.choice >= -1 and s.choice <= 1 and (choice[0] is None) == (s.choice == -1) and (choice[0] == 'L') == (s.choice == 0) "
            "and (choice[0] == 'R') == (s.choice == 1)",
        # K7: the choice is made under the lock, the winner then forwards outside it under `choice[0] == <its side>`
        exclusive={"left_source": "choice[0] == 'L'", "right_source": "choice[0] == 'R'"},
    ),
    OpContract(
        name="take_until", props=["C14"], file=OPS + "_takeuntil.py", func="take_until_",
        call="take_until_(other)(source)", params={}, sources=("source", "other"),
        spec="specs.c13:take_until", witness="source.pipe(ops.take_until(other))",
        spec_args={"term": "bool"}, inv="True",
    ),
]
