"""Check driver: runs the units of one property in a process pool, replays counter-models on
the real code, applies /verif/known_findings.json, writes /verif/evidence/<id>.json and prints
the VIOLATION / KNOWN-FINDING lines.   Exit codes: 0 held, 1 violation, 2 undecided, 3 crash."""
from __future__ import annotations

import hashlib
import importlib
import json
import multiprocessing
import os
import subprocess
import sys
import time
import traceback
from concurrent.futures import ProcessPoolExecutor

from .loader import DROPPED, REPO, VERIF

NATIVE_PY = "/venv/bin/python"
OUT = os.path.join(VERIF, "out")
REPLAY_DIR = os.path.join(OUT, "replay")

BASE_ASSUMPTIONS = [
    "rxvc (this repository's own AST->SMT verification-condition generator) is the verifier: its encoding of the "
    "Python subset is trusted (cross-checked by must-fail mutants and the native differential runner, not proved)",
    "A-static: names resolve lexically as written; no monkey-patching, metaclass tricks or __getattr__",
    "A-order: left-to-right evaluation, short-circuit and/or, exception semantics per the language reference",
    "Python ints are unbounded: treated as mathematical integers (exact, not an idealisation)",
    "A-cb: user callbacks are deterministic functions of their arguments; they may raise any Exception",
    "extraction drops: " + "; ".join(DROPPED),
]


def run_unit(desc):
    """executed in a worker process"""
    t0 = time.time()
    from . import loader as _loader
    from . import interp as _interp
    _loader.ALL_FILES_READ.clear()
    _interp.LINES_EXECUTED.clear()
    del _interp.PARTIAL_REFUTED[:]
    _loader.MUTATED = False
    try:
        mod = importlib.import_module(f"rxvc.{desc['runner']}")
        rep = mod.run_unit(desc)
        if rep.get("unsupported"):
            # obligations refuted before the unit left the subset (finished paths the harness kept + the paths of the aborted exploration)
            seen_ = set()
            part = []
            for r_ in [x for x in rep.get("results", []) if x.get("verdict") == "refuted"] + [x.as_dict() for x in _interp.PARTIAL_REFUTED]:
                if r_["id"] not in seen_:
                    seen_.add(r_["id"])
                    part.append(r_)
            rep["refuted_before_leaving_the_subset"] = part
    except Exception:
        rep = {"unit": desc.get("id", str(desc)), "kind": desc.get("runner"), "results": [], "functions": {},
               "unsupported": None, "crash": traceback.format_exc()[-2000:]}
    rep["seconds"] = round(time.time() - t0, 3)
    rep["desc"] = desc
    rep["files_read"] = dict(_loader.ALL_FILES_READ)
    rep["lines_executed"] = sorted(x for x in _interp.LINES_EXECUTED if isinstance(x[0], str) and x[0].startswith("reactivex/"))
    return rep


def statement_coverage(functions, reports):
    """which statements of the functions under contract the symbolic execution of this run reached (a meta-check against harness scenarios
    that skip a branch: an unreached statement is one no symbolically executed obligation speaks about - it may still be covered by an AST
    analysis of the same check, or by a native table)"""
    import ast as _ast
    from .loader import Loader
    hit = {}
    for r in reports:
        for f, ln in r.get("lines_executed", []):
            hit.setdefault(f, set()).add(ln)
    ld = Loader()
    total = reached = 0
    holes = []
    for key in sorted(functions):
        if "::" not in key:
            continue
        rel, qual = key.split("::", 1)
        if rel not in hit or not rel.endswith(".py"):
            continue  # decided by an AST analysis / not interpreted in this check
        try:
            node = ld.find(rel, qual.split("/")[0].split("[")[0].split("+")[0])
            src = ld.load_file(rel).src.splitlines()
        except Exception:  # noqa: BLE001
            continue
        for st in _ast.walk(node):
            if not isinstance(st, _ast.stmt) or isinstance(st, (_ast.FunctionDef, _ast.AsyncFunctionDef, _ast.ClassDef, _ast.Import, _ast.ImportFrom,
                                                                _ast.Global, _ast.Nonlocal, _ast.Pass)):
                continue
            if isinstance(st, _ast.Expr) and isinstance(st.value, _ast.Constant):
                continue  # docstring
            total += 1
            if st.lineno in hit[rel]:
                reached += 1
            else:
                holes.append(f"{rel}:{st.lineno}: {src[st.lineno - 1].strip()[:90]}")
    holes = sorted(set(holes))
    return {"statements": total, "reached_by_symbolic_execution": reached, "not_reached": holes[:80], "not_reached_total": len(holes)}


def native(args, timeout=300):
    env = dict(os.environ)
    env["PYTHONPATH"] = VERIF
    env.pop("PYTHONHOME", None)
    try:
        r = subprocess.run([NATIVE_PY] + args, capture_output=True, text=True, timeout=timeout, env=env, cwd=VERIF)
    except subprocess.TimeoutExpired:
        return None, "timeout"
    if r.returncode != 0:
        return None, (r.stderr or r.stdout)[-1500:]
    try:
        return json.loads(r.stdout.strip().splitlines()[-1]), None
    except Exception:
        return None, "unparseable: " + r.stdout[-500:]


def load_known():
    p = os.path.join(VERIF, "known_findings.json")
    if not os.path.exists(p):
        return {"findings": [], "fixed": []}
    with open(p) as f:
        return json.load(f)


def match_known(known, prop, unit, oid, path):
    for k in known.get("findings", []):
        if k.get("property") != prop:
            continue
        if k.get("unit") and k["unit"] != unit:
            continue
        if k.get("obligation") and k["obligation"] not in oid:
            continue
        pc = k.get("path_contains")
        if pc and not any(pc in p for p in path):
            continue
        return k
    return None


def pin_from_model(model):
    pin = {}
    for k, v in (model or {}).items():
        if "!" in k:
            continue
        try:
            pin[k] = int(v)
        except (TypeError, ValueError):
            pass
    return pin


class Check:
    def __init__(self, prop, tier, units, level_text="", extra_assumptions=(), trusted=()):
        self.prop = prop
        self.tier = tier
        self.units = units
        self.extra_assumptions = list(extra_assumptions)
        self.trusted = list(trusted)
        self.seed = int(os.environ.get("VERIF_SEED", "0") or 0)

    def run(self):
        t0 = time.time()
        os.makedirs(REPLAY_DIR, exist_ok=True)
        known = load_known()
        ctx = multiprocessing.get_context("fork")
        workers = min(16, max(1, len(self.units)))
        with ProcessPoolExecutor(max_workers=workers, mp_context=ctx) as ex:
            reports = list(ex.map(run_unit, self.units))
            # callee contracts: operators used BY CONTRACT inside the operators under proof (duration.pipe(take(1)), map + merge_all, ...)
            # are re-proved inside this check, so a change in such a callee fails here too (under the callee's own obligation)
            from . import registry

            used = sorted({u for r in reports for u in r.get("callee_contracts_used", [])})
            extra = registry.callee_op_units(self.prop, used, {u.get("id") for u in self.units}, self.tier)
            if extra:
                self.units = list(self.units) + extra
                reports += list(ex.map(run_unit, extra))
        # native side-jobs (spec validation, bounded stand-ins, replays) in threads
        lines = []
        violations = []
        known_seen = []
        undecided = []
        crashes = []
        drifted = []
        bounded = []
        spec_validation = []
        must_fail = []
        obligations = discharged = 0
        by_backend = {}
        solver_s = 0.0
        functions = {}
        samples = []
        all_results = []
        for rep in reports:
            unit = rep["unit"]
            functions.update(rep.get("functions", {}))
            if rep.get("crash"):
                crashes.append({"unit": unit, "trace": rep["crash"]})
                continue
            for sv in rep.get("spec_validation", []):
                spec_validation.append(sv)
                if sv.get("mismatches"):
                    crashes.append({"unit": unit, "trace": f"spec twin disagrees with its reference: {sv}"})
            for b in rep.get("bounded", []):
                bounded.append(b)
            if rep.get("must_fail"):
                must_fail.append(rep["must_fail"])
            if rep.get("unsupported"):
                drifted.append({"unit": unit, "reason": rep["unsupported"]})
                # bounded stand-in decides this unit for this run
                st = rep.get("standin")
                if st is None and rep.get("replayable"):
                    # the unit names a native runner for its replays: its bounded table stands in (labelled bounded)
                    ri = rep["replayable"]
                    h_ = hashlib.sha256(unit.encode()).hexdigest()[:8]
                    opts = {"max_len": 3, "replay_path": os.path.join(REPLAY_DIR, f"{self.prop}-standin-{h_}.py"), "prop": self.prop,
                            "oid": unit + "/bounded-standin", "budget_s": 200}
                    opts.update(ri.get("opts", {}))
                    r_, err_ = native([os.path.join(VERIF, "rxvc", ri["runner"]), ri.get("mode", "replay"), ri["module"], ri["name"], json.dumps(opts)], timeout=600)
                    if r_ is not None:
                        st = rep["standin"] = r_
                        bounded.append({"function": unit, "bound": f"{ri['runner']} {ri['name']}: the runner's bounded table (see its docstring)", "cases": r_.get("cases", 0),
                                        "mismatches": len(r_.get("found", [])), "role": "stand-in (out of subset)"})
                    else:
                        undecided.append({"unit": unit, "why": "out of subset and the stand-in did not run: " + str(err_)[:200]})
                        continue
                if st is None:
                    undecided.append({"unit": unit, "why": "out of subset and no bounded stand-in: " + rep["unsupported"]})
                elif st.get("found"):
                    f = st["found"][0]
                    violations.append({"unit": unit, "oid": f"{unit}/bounded-standin", "replay": st.get("replay"),
                                       "detail": f, "concrete": True})
                # a refuted obligation stays refuted: what failed on the real code before the unit left the subset is reported (nothing of
                # this unit counts as proved)
                for r in rep.get("refuted_before_leaving_the_subset", []):
                    k = match_known(known, self.prop, unit, r["id"], r.get("path", []))
                    if k is not None:
                        known_seen.append({"unit": unit, "obligation": r["id"], "what": k.get("what", "")})
                        continue
                    obligations += 1
                    r = dict(r, detail=(r.get("detail", "") + " [refuted before the unit left the verifier's subset: " + rep["unsupported"][:120] + "]"))
                    violations.append({"unit": unit, "oid": r["id"], "result": r, "rep": rep})
                continue
            for r in rep["results"]:
                all_results.append(r)
                solver_s += r.get("seconds", 0.0)
                if r["verdict"] == "proved":
                    obligations += 1
                    discharged += 1
                    by_backend[r["backend"]] = by_backend.get(r["backend"], 0) + 1
                    if len(samples) < 6 and (hash(r["id"]) + self.seed) % 7 == 0:
                        samples.append({"obligation": r["id"], "verdict": "proved", "backend": r["backend"]})
                elif r["verdict"] == "refuted":
                    k = match_known(known, self.prop, unit, r["id"], r.get("path", []))
                    if k is not None:
                        known_seen.append({"unit": unit, "obligation": r["id"], "what": k.get("what", "")})
                        continue
                    obligations += 1
                    violations.append({"unit": unit, "oid": r["id"], "result": r, "rep": rep})
                else:
                    obligations += 1
                    undecided.append({"unit": unit, "oid": r["id"], "why": r["verdict"] + " " + r.get("detail", "")[:200]})
        if not samples and all_results:
            r = all_results[0]
            samples.append({"obligation": r["id"], "verdict": r["verdict"], "backend": r["backend"]})
        # replays for violations found by the verifier
        seen_units = {}
        final_viol = []
        for v in violations:
            if v.get("concrete"):
                final_viol.append(v)
                continue
            key = v["unit"]
            if "/shape[" in v["oid"]:
                key = v["oid"].split("/shape[")[0]  # forwarding units: one replay per method
            if "/opacity/" in v["oid"]:
                key = v["oid"].split("/opacity/")[0].split("::")[0]  # opacity units: one replay per module
            if "/guard/" in v["oid"]:
                key = v["oid"].split("/guard/")[0]  # guard units: one replay per function
            if v["oid"].startswith("c14run/"):
                key = v["oid"].rsplit("/", 1)[0]  # one replay per pipeline configuration
            if "/ownership/" in v["oid"]:
                key = v["oid"].split("/ownership/")[0]  # ownership units: one replay per subscribe function
            if "/frame-" in v["oid"]:
                key = v["oid"].split("/frame-")[0]  # frame units: one replay per function
            if key in seen_units:
                # one replay per unit; further failing obligations of the same unit share it
                v["replay"], v["concrete"] = seen_units[key]
                final_viol.append(v)
                continue
            rp, concrete = self.replay(v)
            seen_units[key] = (rp, concrete)
            v["replay"], v["concrete"] = rp, concrete
            final_viol.append(v)
        for k in known_seen:
            lines.append(f"KNOWN-FINDING: property={self.prop} {k['unit']} {k['obligation'].split('/', 1)[-1]} -- {k['what']}")
        for v in final_viol:
            tail = "" if v.get("concrete") else " no-failing-input-found"
            ln = f"VIOLATION property={self.prop} replay={v['replay']}{tail}"
            if ln not in lines:
                lines.append(ln)
        wall = time.time() - t0
        status = 0
        if crashes:
            status = 3
        if undecided and status == 0:
            status = 2
        if final_viol:
            status = 1
        if obligations == 0 and status == 0 and not bounded:
            crashes.append({"unit": "*", "trace": "vacuity: zero obligations generated"})
            status = 3
        ev = {
            "property_id": self.prop,
            "tier": self.tier,
            "seed": self.seed,
            "level": "proof",
            "coverage": {
                "obligations": obligations,
                "discharged": discharged,
                "checker_cmd": f"python3-vt -m rxvc check {self.prop} --tier {self.tier}",
                "trusted_base": self.trusted + ["z3 5.1.0 (z3-solver wheel)", "cvc5 1.0.3 (/usr/bin/cvc5, takes z3's unknowns)",
                                                "rxvc VC generator (/verif/rxvc)", "CPython ast module"],
                "discharged_by_backend": by_backend,
                "solver_seconds": round(solver_s, 3),
                "functions_under_contract": functions,
                "repo_files_parsed_this_run": {k: v for r in reports for k, v in sorted(r.get("files_read", {}).items())},
                "statement_coverage_of_functions_under_contract": statement_coverage(functions, reports),
                "units": [{"unit": r["unit"], "kind": r.get("kind"), "obligations": len(r.get("results", [])),
                           "seconds": r.get("seconds"), "out_of_subset": r.get("unsupported")} for r in reports],
                "samples": samples,
                "spec_validation": spec_validation,
                "bounded_standins": bounded,
                "must_fail_checked": {"mutants": sum(m["mutants"] for m in must_fail), "killed": sum(m["killed"] for m in must_fail),
                                      "survivors": [f"{m['unit']}: {s}" for m in must_fail for s in m["survivors"]][:20]},
                "drifted_to_bounded": drifted,
                "known_findings_seen": known_seen,
                "undecided": undecided[:20],
                "violations": [{"unit": v["unit"], "obligation": v["oid"], "replay": v.get("replay"),
                                "concrete_input_found": bool(v.get("concrete"))} for v in final_viol],
                "crashes": crashes[:5],
                "explanation": "every obligation is generated from the AST of /repo's working tree on this run and "
                               "discharged by an SMT solver; bounded stand-ins are listed separately and never counted",
            },
            "assumptions": BASE_ASSUMPTIONS + self.extra_assumptions,
            "wall_s": round(wall, 3),
            "violations": len(final_viol),
        }
        evdir = os.environ.get("RXVC_EVIDENCE_DIR") or os.path.join(VERIF, "evidence")  # (the seed matrix writes to a scratch directory)
        os.makedirs(evdir, exist_ok=True)
        with open(os.path.join(evdir, f"{self.prop}.json"), "w") as f:
            json.dump(ev, f, indent=1, default=str)
        for ln in lines:
            print(ln)
        print(f"[{self.prop}] tier={self.tier} units={len(reports)} obligations={obligations} discharged={discharged} "
              f"violations={len(final_viol)} known={len(known_seen)} undecided={len(undecided)} drifted={len(drifted)} "
              f"crashes={len(crashes)} wall={wall:.1f}s -> exit {status}")
        if undecided:
            for u in undecided[:5]:
                print("  undecided:", u)
        for c in crashes[:3]:
            print("  crash:", c["unit"], c["trace"][-600:])
        return status

    def replay(self, v):
        """returns (path, concrete_input_found)"""
        r = v["result"]
        rep = v["rep"]
        h = hashlib.sha256(r["id"].encode()).hexdigest()[:10]
        path = os.path.join(REPLAY_DIR, f"{self.prop}-{h}.py")
        rinfo = r.get("replay_info") or rep.get("replayable")
        if rinfo:
            opts = {"max_len": 4, "pin": pin_from_model(r.get("model")), "replay_path": path, "prop": self.prop,
                    "oid": r["id"], "budget_s": 120}
            opts.update(rinfo.get("opts", {}))
            res, err = native([os.path.join(VERIF, "rxvc", rinfo["runner"]), rinfo.get("mode", "replay"), rinfo["module"],
                               rinfo["name"], json.dumps(opts)])
            if res and res.get("replay"):
                return path, True
        # no concrete input: the replay file names the obligation and carries the solver output
        with open(path, "w") as f:
            f.write("#!/venv/bin/python\n")
            f.write('"""' + f"Failed obligation of property {self.prop} (no failing concrete input found by the bounded search).\n")
            f.write(f"obligation: {r['id']}\nverdict: {r['verdict']} by {r.get('backend')}\n")
            f.write(f"detail: {r.get('detail', '')}\npath: {r.get('path')}\n")
            f.write("counter-model (solver output):\n" + json.dumps(r.get("model", {}), indent=1) + '\n"""\n')
            f.write("import sys\nprint(__doc__)\nsys.exit(1)\n")
        return path, False
