"""Native virtual-time runner for the operators that hand out inner observables: groups (C19) and windows / buffers (C18).
Replay of refuted obligations, thorough cross-check of the contracts against CPython, bounded stand-in on drift.  BOUNDED.

Runs under /venv/bin/python on reactivex.testing.TestScheduler: the outer result is subscribed at 200; every inner
observable (group / window) is subscribed the moment it is emitted, and what it delivers is recorded as (time, kind, value).
The recorded structure - [(opened at, key, [(time, kind, value) ...]) ...] plus the outer terminal - is compared with a
reference computed from the PROPERTY TEXT (not from the spec machines):

  group_by_until(key, elem, duration)  a new group the first time a key is seen or seen again after its group expired; every
                    element (mapped) to exactly the group of its key in arrival order; a group completes when its duration
                    first emits or completes; the source's terminal / a failing user function ends every open group and the output
  group_by          the same with groups that never expire
  partition(pred)   each element to exactly one of two outputs, both end with the source's terminal; ONE source subscription
  window_with_count(count, skip)       window k opens with element k*skip and holds elements k*skip .. k*skip+count-1
  window(boundaries) / window_when(closing) / window_with_time(span, shift) / window_with_time_or_count(span, count) /
  window_toggle(openings, closing)     every element to exactly the windows open when it arrives; all open windows end with
                    the source's terminal kind;  buffer_* = the contents of the corresponding windows
Hot sources are created before the subscription, so at equal instants a source notification is processed before a timer that
was set later (the scheduler's tie rule, C28).

usage: winrun.py replay - <operator or 'C18' / 'C19' / 'all'> '<json opts>'
       winrun.py case '<json case>'
"""
from __future__ import annotations

import json
import os
import sys

VERIF = os.path.dirname(os.path.dirname(os.path.abspath(__file__)))
REPO = os.environ.get("RXVC_REPO", "/repo")
if REPO not in sys.path:
    sys.path.insert(0, REPO)

SUB = 200
STOP = 330   # the virtual clock is stopped here (timer chains of an open-ended timeline never end by themselves)
KEYS = {"mod2": lambda x: x % 2, "mod3": lambda x: x % 3, "const": lambda x: 0, "id": lambda x: x,
        "none_or_0": lambda x: None if x % 2 else 0}
ELEMS = {"-": None, "x10": lambda x: x * 10, "none": lambda x: None}


class Boom(Exception):
    def __eq__(self, o):
        return isinstance(o, Boom) and o.args == self.args

    def __hash__(self):
        return hash(self.args)


def failing(f, at, tag):
    """f, but the call number `at` (0-based) raises"""
    n = [0]

    def g(*a):
        k = n[0]
        n[0] += 1
        if k == at:
            raise Boom(tag)
        return f(*a)
    return g


def mk_source(s, tl, cold=False):
    from reactivex.testing import ReactiveTest
    msgs = []
    for (t, k, v) in tl:
        if k == "N":
            msgs.append(ReactiveTest.on_next(t, v))
        elif k == "E":
            msgs.append(ReactiveTest.on_error(t, Boom("src")))
        else:
            msgs.append(ReactiveTest.on_completed(t))
    if cold:
        return s.create_cold_observable(*[type(m)(m.time - SUB, m.value) for m in msgs])
    return s.create_hot_observable(*msgs)


def observe_inners(s, o, key_of=None):
    """subscribe `o` at SUB; returns (inners, outer) filled while the scheduler runs"""
    inners, outer = [], []

    def on_inner(g):
        rec = (int(s.clock), key_of(g) if key_of else None, [])
        inners.append(rec)
        g.subscribe(lambda x: rec[2].append((int(s.clock), "N", x)), lambda e: rec[2].append((int(s.clock), "E", e)),
                    lambda: rec[2].append((int(s.clock), "C", None)))
    s.schedule_absolute(SUB, lambda *_: o.subscribe(on_inner, lambda e: outer.append((int(s.clock), "E", e)),
                                                    lambda: outer.append((int(s.clock), "C", None)), scheduler=s))
    s.schedule_absolute(STOP, lambda *_: s.stop())
    return inners, outer


def observe_values(s, o):
    out = []
    s.schedule_absolute(SUB, lambda *_: o.subscribe(lambda x: out.append((int(s.clock), "N", x)), lambda e: out.append((int(s.clock), "E", e)),
                                                    lambda: out.append((int(s.clock), "C", None)), scheduler=s))
    s.schedule_absolute(STOP, lambda *_: s.stop())
    return out


# ---------------------------------------------------------------------------------------------------------------------
# groups (C19)

def mk_duration(s, dur):
    import reactivex as rx
    from reactivex import operators as ops
    kind = dur[0]
    if kind == "never":
        return lambda g: rx.never()
    if kind == "timer":
        return lambda g: rx.timer(dur[1], scheduler=s)
    if kind == "count":
        # derived from the group itself: fires with the group's n-th element
        return lambda g: g.pipe(ops.skip(dur[1] - 1))
    if kind == "group_end":
        # derived from the group itself: fires only when the group itself ends
        return lambda g: g.pipe(ops.ignore_elements())
    if kind == "empty":
        return lambda g: rx.empty()  # completes through the scheduler: in the same instant, after the element was delivered
    if kind == "sync_empty":
        from reactivex.scheduler import ImmediateScheduler
        return lambda g: rx.empty(ImmediateScheduler())  # completes inside subscribe: the group expires before its first element
    if kind == "throw_at":
        from reactivex.scheduler import ImmediateScheduler
        n = [0]

        def f(g):
            n[0] += 1
            def fail_now(o, sch=None):  # fails inside subscribe
                o.on_error(Boom("duration"))
            return rx.create(fail_now) if n[0] - 1 == dur[1] else rx.never()
        return f
    raise ValueError(dur)


def run_group(op, tl, par):
    from reactivex import operators as ops
    from reactivex.testing import TestScheduler
    s = TestScheduler()
    src = mk_source(s, tl)
    key = KEYS[par["key"]]
    if par.get("key_fails") is not None:
        key = failing(key, par["key_fails"], "key")
    elem = ELEMS[par.get("elem", "-")]
    if par.get("elem_fails") is not None:
        elem = failing(elem or (lambda x: x), par["elem_fails"], "elem")
    if op == "group_by":
        o = src.pipe(ops.group_by(key, elem))
    else:
        dm = mk_duration(s, par["dur"])
        if par.get("dur_fails") is not None:
            dm = failing(dm, par["dur_fails"], "durmap")
        o = src.pipe(ops.group_by_until(key, elem, dm))
    inners, outer = observe_inners(s, o, key_of=lambda g: g.key)
    s.start()
    return {"inners": [(t, k, list(items)) for (t, k, items) in inners], "outer": outer}


def ref_group(op, tl, par):
    key = KEYS[par["key"]]
    elem = ELEMS[par.get("elem", "-")] or (lambda x: x)
    dur = ("never",) if op == "group_by" else tuple(par["dur"])
    live = {}      # key -> record
    inners, outer = [], []
    expiry = []    # (time, seq, rec) of timer durations
    calls = {"key": 0, "elem": 0, "dur": 0}
    done = [False]

    def end_all(t, kind, v):
        for rec in list(live.values()):
            rec[2].append((t, kind, v))
        live.clear()
        outer.append((t, kind, v))
        done[0] = True

    def expire_due(t, inclusive):
        for (te, rec) in list(expiry):
            if te < t or (inclusive and te == t):
                expiry.remove((te, rec))
                if live.get(rec[1], None) is rec and not done[0]:
                    del live[rec[1]]
                    rec[2].append((te, "C", None))
    for (t, k, v) in tl:
        if t <= SUB:
            continue
        # at equal instants the source notification comes first (it was scheduled before the timer)
        expire_due(t, inclusive=False)
        if done[0]:
            break
        if k == "E":
            end_all(t, "E", Boom("src"))
            break
        if k == "C":
            end_all(t, "C", None)
            break
        if par.get("key_fails") == calls["key"]:
            end_all(t, "E", Boom("key"))
            break
        calls["key"] += 1
        kk = key(v)
        rec = live.get(kk)
        if rec is None:
            rec = (t, kk, [])
            live[kk] = rec
            if par.get("dur_fails") == calls["dur"]:
                end_all(t, "E", Boom("durmap"))
                break
            calls["dur"] += 1
            inners.append(rec)
            if dur[0] == "timer":
                expiry.append((t + dur[1], rec))
            elif dur[0] == "sync_empty":
                del live[kk]
                rec[2].append((t, "C", None))
            elif dur[0] == "throw_at" and calls["dur"] - 1 == dur[1]:
                end_all(t, "E", Boom("duration"))
                break
        if par.get("elem_fails") == calls["elem"]:
            end_all(t, "E", Boom("elem"))
            break
        calls["elem"] += 1
        if dur[0] == "sync_empty":
            continue  # the group expired before its first element could be delivered
        rec[2].append((t, "N", elem(v)))
        if dur[0] == "empty" or (dur[0] == "count" and sum(1 for e in rec[2] if e[1] == "N") == dur[1]):
            del live[kk]
            rec[2].append((t, "C", None))
    if not done[0]:
        expire_due(10 ** 9, inclusive=True)
    return {"inners": [(t, k, list(items)) for (t, k, items) in inners], "outer": outer}


def run_partition(op, tl, par):
    from reactivex import operators as ops
    from reactivex.testing import TestScheduler
    s = TestScheduler()
    src = mk_source(s, tl, cold=True)
    if op == "partition":
        pred = (lambda x: x % 2 == 0)
        if par.get("pred") == "falsy":
            pred = (lambda x: 0 if x % 2 else "yes")
        a, b = src.pipe(ops.partition(pred))
    else:
        a, b = src.pipe(ops.partition_indexed(lambda x, i: i % 2 == 0))
    ra, rb = observe_values(s, a), observe_values(s, b)
    s.start()
    return {"true": ra, "false": rb, "source_subscriptions": len(src.subscriptions)}


def ref_partition(op, tl, par):
    ra, rb = [], []
    i = 0
    for (t, k, v) in tl:
        if k == "N":
            hit = (v % 2 == 0) if op == "partition" else (i % 2 == 0)
            (ra if hit else rb).append((t, "N", v))
            i += 1
        else:
            e = (t, k, Boom("src") if k == "E" else None)
            ra.append(e)
            rb.append(e)
            break
    return {"true": ra, "false": rb, "source_subscriptions": 1}


# ---------------------------------------------------------------------------------------------------------------------
# windows and buffers (C18)

def run_window(op, tl, par):
    import reactivex as rx
    from reactivex import operators as ops
    from reactivex.testing import TestScheduler
    s = TestScheduler()
    src = mk_source(s, tl)
    buf = op.startswith("buffer")
    name = op.replace("buffer", "window")
    if name == "window_with_count":
        o = src.pipe((ops.buffer_with_count if buf else ops.window_with_count)(par["count"], par.get("skip")))
    elif name == "window_with_time":
        o = src.pipe((ops.buffer_with_time if buf else ops.window_with_time)(par["span"], par.get("shift"), scheduler=s))
    elif name == "window_with_time_or_count":
        o = src.pipe((ops.buffer_with_time_or_count if buf else ops.window_with_time_or_count)(par["span"], par["count"], scheduler=s))
    elif name == "window":
        b = mk_source(s, [(t, "N", 0) for t in par["bounds"]] + ([(par["bend"][0], par["bend"][1], None)] if par.get("bend") else []))
        o = src.pipe((ops.buffer if buf else ops.window)(b))
    elif name == "window_when":
        calls = []

        def closing():
            calls.append(1)
            if par.get("sync_first") and len(calls) == 1:
                # a closing observable that fires from inside its subscribe call (an already resolved AsyncSubject, ...)
                from reactivex.disposable import Disposable

                def sub(o_, sch=None):
                    o_.on_completed()
                    return Disposable()
                return rx.create(sub)
            return rx.timer(par["every"], scheduler=s)
        o = src.pipe((ops.buffer_when if buf else ops.window_when)(closing))
    elif name == "window_toggle":
        opn = mk_source(s, [(t, "N", d) for (t, d) in par["opens"]])
        o = src.pipe((ops.buffer_toggle if buf else ops.window_toggle)(opn, lambda d: rx.timer(d, scheduler=s)))
    else:
        raise ValueError(op)
    if buf:
        out = observe_values(s, o)
        s.start()
        return {"buffers": out}
    inners, outer = observe_inners(s, o)
    s.start()
    return {"inners": [(t, k, list(items)) for (t, k, items) in inners], "outer": outer}


def ref_window(op, tl, par):
    """windows as (opened at, [events]); every source element goes to exactly the windows open when it arrives"""
    buf = op.startswith("buffer")
    name = op.replace("buffer", "window")
    wins, outer = [], []      # win: [opened, None, items, open?]
    events = []               # merged agenda: (time, order, kind, payload); at equal instants source notifications come first

    def open_(t):
        w = [t, None, [], True]
        wins.append(w)
        return w

    def close_(w, t):
        if w[3]:
            w[3] = False
            w[2].append((t, "C", None))
    src = [(t, k, v) for (t, k, v) in tl if t > SUB]
    end = None
    if name == "window_with_count":
        count, skip = par["count"], par.get("skip") or par["count"]
        open_(SUB)
        n = 0
        for (t, k, v) in src:
            if k != "N":
                end = (t, k)
                break
            for w in wins:
                if w[3]:
                    w[2].append((t, "N", v))
            c = n - count + 1
            if c >= 0 and c % skip == 0:
                close_(wins[c // skip], t)
            n += 1
            if n % skip == 0:
                open_(t)
    else:
        # time / boundary driven: build the agenda of boundary events first
        horizon = (src[-1][0] if src else SUB) + 1
        last = [e for e in src if e[1] != "N"]
        stop = last[0][0] if last else None
        agenda = [(t, 0, k, v) for (t, k, v) in src]
        if name == "window_with_time":
            span, shift = par["span"], par.get("shift") or par["span"]
            k = 0
            while SUB + k * shift <= (stop if stop is not None else STOP):
                if k > 0:
                    agenda.append((SUB + k * shift, 1, "open", None))
                agenda.append((SUB + k * shift + span, 1, "close", k))
                k += 1
        elif name == "window":
            for t in par["bounds"]:
                agenda.append((t, 1, "boundary", None))  # the source was created first: its notification of the same instant comes first
            if par.get("bend"):
                agenda.append((par["bend"][0], 1, "bend", par["bend"][1]))
        elif name == "window_toggle":
            for (t, d) in par["opens"]:
                agenda.append((t, 1, "topen", d))
        agenda.sort(key=lambda e: (e[0], e[1]))
        if name in ("window", "window_when", "window_with_time", "window_with_time_or_count"):
            open_(SUB)
        cur_n, timer_due, gen = 0, None, 0
        if name == "window_when":
            if par.get("sync_first"):
                # the first closing observable fires while it is being subscribed: window 0 closes at once, window 1 opens
                close_([w for w in wins if w[3]][-1], SUB)
                open_(SUB)
            timer_due = SUB + par["every"]
        if name == "window_with_time_or_count":
            timer_due = SUB + par["span"]
        toggles = []  # (close time, window)
        i = 0
        pending = list(agenda)
        while True:
            # next event: an agenda entry or an internal timer; at equal instants source notifications come first, then
            # timers in the order they were set
            cands = []
            if pending:
                cands.append((pending[0][0], pending[0][1], "agenda"))
            if timer_due is not None:
                cands.append((timer_due, 2, "timer"))
            for (tc, w) in toggles:
                cands.append((tc, 2, "tclose"))
            if not cands:
                break
            cands.sort()
            t, _o, what = cands[0]
            if stop is not None and t > stop:
                break
            if t >= STOP:
                break
            if what == "timer":
                cur = [w for w in wins if w[3]][-1]
                close_(cur, t)
                open_(t)
                cur_n = 0
                timer_due = t + (par["every"] if name == "window_when" else par["span"])
                continue
            if what == "tclose":
                tc, w = min(toggles, key=lambda e: e[0])
                toggles.remove((tc, w))
                close_(w, tc)
                continue
            (t, _o, k, v) = pending.pop(0)
            if k == "N":
                for w in wins:
                    if w[3]:
                        w[2].append((t, "N", v))
                if name == "window_with_time_or_count":
                    cur_n += 1
                    if cur_n == par["count"]:
                        cur = [w for w in wins if w[3]][-1]
                        close_(cur, t)
                        open_(t)
                        cur_n = 0
                        timer_due = t + par["span"]
            elif k in ("E", "C"):
                end = (t, k)
                break
            elif k == "open":
                open_(t)
            elif k == "close":
                ws = [w for w in wins]
                if v < len(ws):
                    close_(ws[v], t)
            elif k == "boundary":
                cur = [w for w in wins if w[3]][-1]
                close_(cur, t)
                open_(t)
            elif k == "bend":
                end = (t, v)
                break
            elif k == "topen":
                w = open_(t)
                toggles.append((t + v, w))
    if end is not None:
        t, k = end
        for w in wins:
            if w[3]:
                w[3] = False
                w[2].append((t, k, Boom("src") if k == "E" else None))
        outer.append((t, k, Boom("src") if k == "E" else None))
    if buf:
        out = []
        if end is not None and end[1] == "E":
            for w in wins:
                if w[2] and w[2][-1][1] == "C" and w[2][-1][0] <= end[0] and not (w[2][-1][0] == end[0] and False):
                    pass
        # a buffer is emitted when its window completes: the list of its elements
        evs = []
        for idx, w in enumerate(wins):
            if w[2] and w[2][-1][1] == "C":
                items = [e[2] for e in w[2] if e[1] == "N"]
                if name != "window_with_count" or items:
                    evs.append((w[2][-1][0], idx, "N", items))
        evs.sort(key=lambda e: (e[0], e[1]))
        out = [(t, k, v) for (t, _i, k, v) in evs]
        if end is not None:
            out.append((end[0], end[1], Boom("src") if end[1] == "E" else None))
        return {"buffers": out}
    return {"inners": [(w[0], None, list(w[2])) for w in wins], "outer": outer}


# ---------------------------------------------------------------------------------------------------------------------

def timelines(max_len=3):
    vals = [1, 2, 3, 4]
    out = []
    import itertools
    for n in range(0, max_len + 1):
        for vs in itertools.product(vals[:3], repeat=n):
            for gaps in itertools.product((10, 20), repeat=n):
                t = SUB
                tl = []
                for v, g in zip(vs, gaps):
                    t += g
                    tl.append((t, "N", v))
                for end in ("C", "E", None):
                    for eg in ((10, 0) if n else (10,)):
                        if end is None:
                            if eg == 10:
                                out.append(list(tl))
                            continue
                        if eg == 0 and n == 0:
                            continue
                        out.append(tl + [(t + eg, end, None)] if eg else tl + [(t, end, None)])
    return out


# ---------------------------------------------------------------------------------------------------------------------
# group_join (C18; also what the toggle windows are built on)

def run_group_join(op, tl, par):
    import reactivex as rx
    from reactivex import operators as ops
    from reactivex.testing import TestScheduler
    s = TestScheduler()
    left = mk_source(s, tl)
    right = mk_source(s, [tuple(e) for e in par["right"]])

    def fails(v):
        raise Boom("mapper")
    ld = (lambda v: rx.timer(par["dl"] + (10 if v == 2 else 0), scheduler=s)) if not par.get("ldur_fails") else fails
    rd = lambda v: rx.timer(par["dr"], scheduler=s)
    if par.get("rsync"):
        # the right duration ends from INSIDE its subscribe call (empty() on no scheduler: what window_toggle / buffer_toggle pass when they
        # are subscribed without one): the element goes to the windows that are open and is retained for no time at all
        from reactivex.scheduler import ImmediateScheduler
        rd = lambda v: rx.empty(scheduler=ImmediateScheduler())
    o = left.pipe(ops.group_join(right, ld, rd), ops.map(lambda t: t[1].pipe(ops.map(lambda y, _x=t[0]: (_x, y)))))
    inners, outer = observe_inners(s, o)
    s.start()
    return {"inners": [(t, k, list(items)) for (t, k, items) in inners], "outer": outer}


def ref_group_join(op, tl, par):
    """event simulation from the operator's contract: a left element opens a window that lives for its duration and is sent, at once,
    what is retained; a right element goes to every open window and is retained for its duration; an error of either side (or of a
    duration function) ends every open window and the output; the completion of the left side ends the output only; the
    completion of the right side is ignored.  Order in one instant: the scheduler's (due time, scheduling order) - the left
    source's messages were scheduled first, then the right's, a duration when its element arrived."""
    import heapq
    import itertools
    seq = itertools.count()
    q = []
    for (t, k, v) in tl:
        heapq.heappush(q, (t, next(seq), "L", (k, v)))
    for (t, k, v) in par["right"]:
        heapq.heappush(q, (t, next(seq), "R", (k, v)))
    wins, held, outer = [], {}, []
    st = {"dead": False, "outer_done": False, "hid": 0}

    def fail(t, e):
        for w in wins:
            if w["open"]:
                w["open"] = False
                w["items"].append((t, "E", e))
        st["dead"] = True
        if not st["outer_done"]:
            outer.append((t, "E", e))
            st["outer_done"] = True

    while q:
        t, _s, who, payload = heapq.heappop(q)
        if t >= STOP:
            break
        if st["dead"]:
            break
        if who == "L":
            k, v = payload
            if k == "N":
                w = {"t": t, "x": v, "items": [], "open": True}
                wins.append(w)
                for hid in sorted(held):
                    w["items"].append((t, "N", (v, held[hid])))
                if par.get("ldur_fails"):
                    fail(t, Boom("mapper"))
                    continue
                heapq.heappush(q, (t + par["dl"] + (10 if v == 2 else 0), next(seq), "close", w))
            elif k == "E":
                fail(t, Boom("src"))
            else:
                if not st["outer_done"]:
                    outer.append((t, "C", None))
                    st["outer_done"] = True
        elif who == "R":
            k, v = payload
            if k == "N":
                st["hid"] += 1
                hid = st["hid"]
                if not par.get("rsync"):
                    held[hid] = v
                    heapq.heappush(q, (t + par["dr"], next(seq), "expire", hid))
                for w in wins:
                    if w["open"]:
                        w["items"].append((t, "N", (w["x"], v)))
            elif k == "E":
                fail(t, Boom("src"))
        elif who == "close":
            w = payload
            if w["open"]:
                w["open"] = False
                w["items"].append((t, "C", None))
        elif who == "expire":
            held.pop(payload, None)
    return {"inners": [(w["t"], None, list(w["items"])) for w in wins], "outer": outer}


GJ_PARS = [{"dl": dl, "dr": dr, "right": r} for dl in (15, 30) for dr in (5, 20)
           for r in ([], [[215, "N", "p"]], [[205, "N", "p"], [225, "N", "q"]], [[215, "N", "p"], [225, "C", None]], [[215, "N", "p"], [225, "E", None]],
                     [[210, "N", "p"], [220, "N", "q"], [230, "N", "r"]])] + [{"dl": 15, "dr": 20, "right": [[205, "N", "p"]], "ldur_fails": True}] + [
               {"dl": dl, "dr": 0, "rsync": True, "right": r} for dl in (15, 30) for r in ([[205, "N", "p"], [225, "N", "q"]], [[210, "N", "p"], [220, "N", "q"], [230, "N", "r"]])]

GROUP_PARS = ([{"key": k, "elem": e, "dur": d} for k in ("mod2", "const", "none_or_0") for e in ("-", "x10")
               for d in (["never"], ["timer", 10], ["timer", 25], ["count", 1], ["count", 2], ["group_end"], ["sync_empty"], ["throw_at", 1])]
              + [{"key": "mod2", "elem": "none", "dur": ["count", 2]}, {"key": "mod3", "elem": "-", "dur": ["group_end"]},
                 {"key": "mod2", "dur": ["never"], "key_fails": 1}, {"key": "mod2", "dur": ["timer", 25], "elem_fails": 1},
                 {"key": "mod2", "dur": ["group_end"], "dur_fails": 1}, {"key": "id", "dur": ["group_end"], "elem_fails": 2}])
OPS = {
    "group_by_until": (run_group, ref_group, GROUP_PARS, "_groupbyuntil.py", "C19"),
    "group_by": (run_group, ref_group, [{"key": k, "elem": e} for k in ("mod2", "mod3", "none_or_0") for e in ("-", "x10")]
                 + [{"key": "mod2", "key_fails": 2}, {"key": "mod3", "elem_fails": 0}], "_groupby.py", "C19"),
    "partition": (run_partition, ref_partition, [{}, {"pred": "falsy"}], "_partition.py", "C19"),
    "partition_indexed": (run_partition, ref_partition, [{}], "_partition.py", "C19"),
    "window_with_count": (run_window, ref_window, [{"count": c, "skip": k} for c in (1, 2, 3) for k in (None, 1, 2, 3, 4)], "_windowwithcount.py", "C18"),
    "buffer_with_count": (run_window, ref_window, [{"count": c, "skip": k} for c in (1, 2, 3) for k in (None, 1, 2, 3)], "_buffer.py", "C18"),
    "window_with_time": (run_window, ref_window, [{"span": a, "shift": b} for a in (10, 15, 25) for b in (None, 10, 15, 25, 40)], "_windowwithtime.py", "C18"),
    "buffer_with_time": (run_window, ref_window, [{"span": a, "shift": b} for a in (10, 25) for b in (None, 10, 15, 40)], "_bufferwithtime.py", "C18"),
    "window_with_time_or_count": (run_window, ref_window, [{"span": a, "count": c} for a in (15, 25, 40) for c in (1, 2, 3)], "_windowwithtimeorcount.py", "C18"),
    "buffer_with_time_or_count": (run_window, ref_window, [{"span": a, "count": c} for a in (15, 25) for c in (1, 2)], "_bufferwithtimeorcount.py", "C18"),
    "window": (run_window, ref_window, [{"bounds": b, "bend": e} for b in ([], [215], [215, 225], [210, 230], [205, 215, 235])
                                        for e in (None, [225, "C"], [225, "E"])], "_window.py", "C18"),
    "buffer": (run_window, ref_window, [{"bounds": b, "bend": None} for b in ([], [215], [215, 225], [205, 215, 235])], "_buffer.py", "C18"),
    "window_when": (run_window, ref_window, [{"every": d} for d in (5, 15, 25, 100)] + [{"every": 15, "sync_first": True}], "_window.py", "C18"),
    "buffer_when": (run_window, ref_window, [{"every": d} for d in (15, 25)] + [{"every": 15, "sync_first": True}], "_buffer.py", "C18"),
    "group_join": (run_group_join, ref_group_join, GJ_PARS, "_groupjoin.py", "C18"),
    "window_toggle": (run_window, ref_window, [{"opens": o} for o in ([], [[205, 10]], [[205, 30], [215, 10]], [[215, 5], [225, 30]], [[205, 100], [206, 100]])], "_window.py", "C18"),
    "buffer_toggle": (run_window, ref_window, [{"opens": o} for o in ([[205, 30], [215, 10]], [[215, 5], [225, 30]])], "_buffer.py", "C18"),
}


def cut(r):
    """only what happens before the clock is stopped counts"""
    out = dict(r)
    if "inners" in out:
        out["inners"] = [(t, k, [e for e in items if e[0] < STOP]) for (t, k, items) in out["inners"] if t < STOP]
    for key in ("outer", "buffers", "true", "false"):
        if key in out:
            out[key] = [e for e in out[key] if e[0] < STOP]
    return out


def check(op, tl, par):
    run, ref = OPS[op][0], OPS[op][1]
    try:
        got = run(op, tl, par)
    except Exception as e:  # noqa: BLE001
        return {"what": f"escaped: {type(e).__name__}: {e}"}
    want = ref(op, tl, par)
    got, want = cut(got), cut(want)
    if json.dumps(got, default=repr, sort_keys=True) != json.dumps(want, default=repr, sort_keys=True):
        return {"what": "differs from the reference", "got": got, "expected": want}
    return None


REPLAY_TEMPLATE = '''#!/venv/bin/python
"""Replay of a violation of property {prop} ({op}).
obligation: {oid}
case: {case}
{what}
Exit 1 when it reproduces on the tree under RXVC_REPO (default /repo)."""
import subprocess, sys
r = subprocess.run(["/venv/bin/python", "{verif}/rxvc/winrun.py", "case", {case!r}])
sys.exit(r.returncode)
'''


def classify(tl):
    ends = [k for (_t, k, _v) in tl if k != "N"]
    return {"C": "source-completes", "E": "source-errors"}.get(ends[0] if ends else None, "open-end")


def main(argv):
    if argv[0] == "list":
        # every disagreement of one operator, one JSON line each (with the class of its timeline)
        op = argv[1]
        opts = json.loads(argv[2]) if len(argv) > 2 else {}
        n = 0
        for par in OPS[op][2]:
            for tl in timelines(min(opts.get("max_len", 2), 3)):
                n += 1
                r = check(op, tl, par)
                if r:
                    print(json.dumps({"class": classify(tl), "case": {"op": op, "par": par, "timeline": [list(e) for e in tl]}, "disagreement": r}, default=repr))
        print(json.dumps({"cases": n}))
        return
    if argv[0] == "case":
        c = json.loads(argv[1])
        r = check(c["op"], [tuple(e) for e in c["timeline"]], c["par"])
        print(json.dumps({"violation": r}, default=repr))
        sys.exit(1 if r else 0)
    target = argv[2]
    opts = json.loads(argv[3]) if len(argv) > 3 else {}
    oid = opts.get("oid", "")
    names = list(OPS)
    mine = [target] if target in names else [n for n in names if OPS[n][3] in oid or OPS[n][3] in target]
    if target in ("C18", "C19"):
        mine = [n for n in names if OPS[n][4] == target]
    order = mine if (target != "all" and mine) else names
    n, found = 0, None
    import time
    t_end = time.time() + min(float(opts.get("budget_s", 600)), 600)
    tls = timelines(min(opts.get("max_len", 3), 3))
    if opts.get("class"):
        tls = [tl for tl in tls if classify(tl) == opts["class"]]
    for op in order:
        for par in OPS[op][2]:
            if time.time() > t_end:
                break
            for tl in tls:
                n += 1
                r = check(op, tl, par)
                if r:
                    found = {"case": {"op": op, "par": par, "timeline": [list(e) for e in tl]}, "disagreement": r}
                    break
            if found:
                break
        if found:
            break
    res = {"cases": n, "found": [found] if found else []}
    if found and "replay_path" in opts:
        os.makedirs(os.path.dirname(opts["replay_path"]), exist_ok=True)
        with open(opts["replay_path"], "w") as f:
            f.write(REPLAY_TEMPLATE.format(prop=opts.get("prop", OPS[found["case"]["op"]][4]), oid=oid, verif=VERIF, op=found["case"]["op"],
                                           case=json.dumps(found["case"]), what=json.dumps(found["disagreement"], default=repr)[:900]))
        res["replay"] = opts["replay_path"]
    print(json.dumps(res, default=repr))


if __name__ == "__main__":
    main(sys.argv[1:])
