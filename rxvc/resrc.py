"""C40 (subscription side): contracts for using_, finally_action_, do_finally, do_on_dispose, do_on_subscribe.

The source is opaque (its subscribe call is recorded and returns an opaque subscription, or raises), user actions and
factories are opaque call-outs that return or raise, the resource is an opaque disposable whose TRUTHINESS IS ARBITRARY
(an empty CompositeDisposable is falsy); the library's own Disposable / CompositeDisposable run for real (their
once-only contracts are C25 / C26).  "Exactly once per subscription" is split as: the action / the resource's dispose is
called once when the returned disposable is disposed, disposing it again calls nothing, and nothing calls it before;
that the subscription IS disposed at termination is the AutoDetachObserver clause of C01.

  using_           resource_factory once, observable_factory once with the resource, the source subscribed once; the
                   returned disposable holds the subscription AND the resource (whenever the factory returned one, falsy or
                   not): disposing it disposes each exactly once, disposing it again nothing.  A raising factory (either):
                   the subscriber gets throw(that exception), and a resource already created is still held by the result.
  finally_action_  source subscribed once with the observer; a raising subscribe runs the action once and propagates;
                   otherwise nothing runs at subscribe time and the result, when disposed, disposes the subscription and runs
                   the action exactly once - also when disposing the subscription raises - and never again.
  do_finally       terminal handlers pass the terminal on first and then run the action iff it has not run (flag arbitrary);
                   the dispose hook runs it iff it has not run; each marks it as run: once per subscription whatever the order.
  do_on_dispose    the action runs exactly when the result is disposed, once; the subscription is disposed with it.
  do_on_subscribe  the action runs once, before the source is subscribed; the result is the source's subscription.
"""
from __future__ import annotations

import time

import z3

from . import smt
from .interp import NOTSET, Interp, World, explore
from .loader import Loader, all_functions
from .refine import Result
from .values import SV, BoundMethod, Closure, ListObj, Native, Obj, Opaque, PathEnd, PyExc, Unsupported
from .catchsched import conj, same

UFILE = "reactivex/observable/using.py"
FFILE = "reactivex/operators/_finallyaction.py"
DFILE = "reactivex/operators/_do.py"


class RWorld(World):
    def __init__(self):
        super().__init__()
        self.log = []
        self.n = 0
        self.truth = {}

    def truthy(self, it, o):
        if o.kind == "resource":
            if o.name not in self.truth:
                self.truth[o.name] = it.ctx.choose(2, f"{o.name} is truthy") == 0
            return self.truth[o.name]
        return True

    def call(self, it, o, method, args, kwargs):
        ctx = it.ctx
        if o.kind in ("source", "thrown") and method == "subscribe":
            self.n += 1
            if o.attrs.get("may_raise") and ctx.choose(2, f"{o.name}.subscribe raises") == 1:
                e = SV(ctx.fresh("sub_exc", "val").t, "val", tag="exc")
                self.log.append(("subscribe", o, list(args), dict(kwargs), ("raise", e)))
                raise PyExc(e)
            d = Opaque("disposable", f"sub:{o.name}#{self.n}", may_raise=o.attrs.get("dispose_may_raise", False))
            self.log.append(("subscribe", o, list(args), dict(kwargs), ("return", d)))
            return d
        if o.kind in ("disposable", "resource") and method == "dispose":
            self.log.append(("dispose", o))
            if o.attrs.get("may_raise") and ctx.choose(2, f"{o.name}.dispose raises") == 1:
                raise PyExc(SV(ctx.fresh("disp_exc", "val").t, "val", tag="exc"))
            return None
        if o.kind == "callback":
            k = sum(1 for e in self.log if e[0] == "call" and e[1] is o)
            if o.attrs.get("may_raise", True) and ctx.choose(2, f"{o.name}#{k} raises") == 1:
                e = SV(ctx.fresh("cb_exc", "val").t, "val", tag="exc")
                self.log.append(("call", o, list(args), ("raise", e)))
                raise PyExc(e)
            r = o.attrs.get("returns")
            if callable(r):
                r = r(it, k)
            self.log.append(("call", o, list(args), ("return", r)))
            return r
        if o.kind == "observer":
            self.log.append(("down", method, list(args)))
            beh = getattr(self, "down_behaviour", None)
            if beh is not None and method in ("on_error", "on_completed"):
                # what the subscriber does with its terminal notification is its business: it may raise (the default on_error handler re-raises),
                # and its auto-detaching wrapper disposes the subscription from inside this very call
                self.down_behaviour = None
                beh(it)
            return None
        if o.kind in ("lock", "logger"):
            return None
        return super().call(it, o, method, args, kwargs)


class ResHarness:
    def __init__(self, loader=None):
        self.loader = loader or Loader()
        self.results = []
        self.unsupported = None
        self.functions = {}

    def rec(self, ctx, oid, goal, detail=""):
        t0 = time.time()
        if isinstance(goal, bool):
            goal = z3.BoolVal(goal)
        v, m, b = smt.prove(ctx.pc, goal)
        ctx.results.append(Result(oid, v, b, smt.model_to_dict(m), list(ctx.branch_log), detail, time.time() - t0, "post"))

    def setup(self, ctx):
        w = self.w = RWorld()
        it = Interp(self.loader, ctx, w)
        self.observer = Opaque("observer", "observer")
        self.sched = Opaque("scheduler", "sched")
        return it

    def sub_fn(self, obs):
        sub = obs.fields.get("_subscribe") if isinstance(obs, Obj) else None
        if not isinstance(sub, Closure):
            raise Unsupported("the operator did not return Observable(subscribe)")
        return sub

    def ev(self, kind, who=None):
        return [e for e in self.w.log if e[0] == kind and (who is None or e[1] is who)]

    def dispose_twice(self, it, ctx, uid, D, want):
        """disposing D disposes exactly `want` (each once); disposing it again nothing"""
        w = self.w
        w.log.clear()
        raised = None
        try:
            it.call(it.get_attr(D, "dispose"), [], {})
        except PyExc as e:
            raised = e.value
        got = [e[1] for e in w.log if e[0] == "dispose"]
        self.rec(ctx, uid + "/dispose/releases-exactly-what-it-holds-each-once", len(got) == len(want) and all(any(g is x for g in got) for x in want)
                 and len(set(id(g) for g in got)) == len(got), detail=f"disposed: {[g.name for g in got]}, expected {[x.name for x in want]}")
        first_log = list(w.log)
        w.log.clear()
        try:
            it.call(it.get_attr(D, "dispose"), [], {})
        except PyExc:
            pass
        self.rec(ctx, uid + "/dispose/a-second-dispose-does-nothing", not [e for e in w.log if e[0] in ("dispose", "call")])
        w.log[:] = first_log
        return raised

    # -- using ---------------------------------------------------------------------------------------------
    def run_using(self, ctx):
        it = self.setup(ctx)
        w = self.w
        uid = f"{UFILE}::using_"
        R = Opaque("resource", "resource")
        src = Opaque("source", "inner")
        thrown = []

        def hook(it_, f, args, kwargs):
            fn = f.func if isinstance(f, BoundMethod) else f
            q = getattr(fn, "qualname", None) if isinstance(fn, Closure) else None
            if q in ("throw", "throw_"):
                t = Opaque("thrown", f"throw#{len(thrown)}", exc=args[0] if args else None)
                thrown.append(t)
                return t
            return NOTSET
        it.call_hook = hook
        gives_none = ctx.choose(2, "resource factory returns None") == 1
        rf = Opaque("callback", "resource_factory", returns=(None if gives_none else R))
        of = Opaque("callback", "observable_factory", returns=src)
        f = it.module_get("reactivex.observable.using", "using_")
        obs = it.call(f, [rf, of], {})
        sub = self.sub_fn(obs)
        w.log.clear()
        try:
            D = it.call(sub, [self.observer, self.sched], {})
        except PyExc as e:
            self.rec(ctx, uid + "/subscribe/no-exception-escapes", False, detail=f"{e.value!r}")
            return
        rcalls, ocalls = self.ev("call", rf), self.ev("call", of)
        self.rec(ctx, uid + "/subscribe/resource-factory-called-exactly-once", len(rcalls) == 1 and not rcalls[0][2])
        rf_ok = rcalls and rcalls[0][3][0] == "return"
        res = None if (gives_none or not rf_ok) else R
        if rf_ok:
            self.rec(ctx, uid + "/subscribe/observable-factory-called-exactly-once-with-the-resource",
                     len(ocalls) == 1 and len(ocalls[0][2]) == 1 and ocalls[0][2][0] is (None if gives_none else R))
        else:
            self.rec(ctx, uid + "/subscribe/observable-factory-not-called-without-a-resource", not ocalls)
        of_ok = rf_ok and ocalls and ocalls[0][3][0] == "return"
        subs = self.ev("subscribe")
        if of_ok:
            ok = len(subs) == 1 and subs[0][1] is src and subs[0][2] and subs[0][2][0] is self.observer
            self.rec(ctx, uid + "/subscribe/the-inner-observable-is-subscribed-once-with-the-observer", ok)
            held = [subs[0][4][1]] if ok else []
        else:
            failed = (rcalls[0][3][1] if not rf_ok else ocalls[0][3][1])
            ok = len(subs) == 1 and subs[0][1].kind == "thrown" and same(subs[0][1].attrs.get("exc"), failed) is True and subs[0][2][0] is self.observer
            self.rec(ctx, uid + "/subscribe/a-failing-factory-reaches-the-subscriber-as-throw(that-exception)", ok)
            held = [subs[0][4][1]] if ok else []
        self.rec(ctx, uid + "/subscribe/the-resource-is-not-disposed-before-the-subscription-ends", not self.ev("dispose"))
        want = held + ([res] if res is not None else [])
        self.dispose_twice(it, ctx, uid, D, want)

    # -- finally_action -------------------------------------------------------------------------------------
    def run_finally_action(self, ctx):
        it = self.setup(ctx)
        w = self.w
        uid = f"{FFILE}::finally_action_"
        src = Opaque("source", "source", may_raise=True, dispose_may_raise=True)
        action = Opaque("callback", "action", may_raise=False)
        f = it.module_get("reactivex.operators._finallyaction", "finally_action_")
        obs = it.call(it.call(f, [action], {}), [src], {})
        sub = self.sub_fn(obs)
        w.log.clear()
        raised, D = None, None
        try:
            D = it.call(sub, [self.observer, self.sched], {})
        except PyExc as e:
            raised = e.value
        subs = self.ev("subscribe")
        self.rec(ctx, uid + "/subscribe/source-subscribed-exactly-once-with-the-observer", len(subs) == 1 and subs[0][2] and subs[0][2][0] is self.observer)
        if not subs:
            return
        if subs[0][4][0] == "raise":
            self.rec(ctx, uid + "/subscribe-fails/action-runs-exactly-once", len(self.ev("call", action)) == 1)
            self.rec(ctx, uid + "/subscribe-fails/the-exception-propagates", raised is not None and same(raised, subs[0][4][1]))
            return
        self.rec(ctx, uid + "/subscribe/action-does-not-run-at-subscription", not self.ev("call", action) and raised is None)
        inner = subs[0][4][1]
        w.log.clear()
        try:
            it.call(it.get_attr(D, "dispose"), [], {})
        except PyExc:
            pass
        calls = self.ev("call", action)
        disp = self.ev("dispose", inner)
        self.rec(ctx, uid + "/dispose/disposes-the-subscription-once", len(disp) == 1)
        self.rec(ctx, uid + "/dispose/runs-the-action-exactly-once-even-when-disposing-the-subscription-raises", len(calls) == 1)
        if calls and disp:
            self.rec(ctx, uid + "/dispose/the-action-runs-after-the-subscription-was-disposed", w.log.index(disp[0]) < w.log.index(calls[0]))
        w.log.clear()
        try:
            it.call(it.get_attr(D, "dispose"), [], {})
        except PyExc:
            pass
        self.rec(ctx, uid + "/dispose/a-second-dispose-does-nothing", not w.log)

    # -- do_finally -------------------------------------------------------------------------------------------
    def run_do_finally(self, ctx):
        it = self.setup(ctx)
        w = self.w
        uid = f"{DFILE}::do_finally"
        src = Opaque("source", "source")
        action = Opaque("callback", "finally_action", may_raise=False)
        f = it.module_get("reactivex.operators._do", "do_finally")
        obs = it.call(it.call(f, [action], {}), [src], {})
        sub = self.sub_fn(obs)
        w.log.clear()
        D = it.call(sub, [self.observer, self.sched], {})
        subs = self.ev("subscribe")
        ok = len(subs) == 1 and not self.ev("call", action)
        self.rec(ctx, uid + "/subscribe/source-subscribed-once-and-the-action-does-not-run", ok)
        if not ok:
            return
        hs = subs[0][2]
        on_next, on_error, on_completed = (list(hs) + [None] * 3)[:3]
        on_error = subs[0][3].get("on_error", on_error)
        on_completed = subs[0][3].get("on_completed", on_completed)
        # the flag cell, wherever the handlers keep it
        env = on_completed.env if isinstance(on_completed, Closure) else None
        e_flag = env.lookup_env("was_invoked") if env is not None else None
        if e_flag is None:
            raise Unsupported("do_finally: no `was_invoked` cell (drift)")
        from .cells import require_known
        for h in (on_next, on_error, on_completed):
            if isinstance(h, Closure):
                require_known(h, {"was_invoked"}, "do_finally")
        # the cell is a one-element list or a plain closure variable (`nonlocal`)
        as_list = isinstance(e_flag.vars["was_invoked"], ListObj) and not e_flag.vars["was_invoked"].symbolic and len(e_flag.vars["was_invoked"].items) == 1

        def flag_set(v):
            if as_list:
                e_flag.vars["was_invoked"].items[0] = v
            else:
                e_flag.vars["was_invoked"] = v

        def flag_get():
            cur = e_flag.vars["was_invoked"]
            return cur.items[0] if (isinstance(cur, ListObj) and not cur.symbolic and len(cur.items) == 1) else cur
        inner = subs[0][4][1]
        which = ctx.choose(3, "event")  # completed / error / dispose
        ran_before = ctx.choose(2, "the action already ran") == 1
        flag_set(ran_before)
        w.log.clear()
        # the subscriber's side of a terminal notification: it returns / it disposes the subscription from inside the call (what its auto-detaching
        # wrapper does when the source ends after subscribe() returned) and returns / it does that and RAISES (no on_error handler: the default one
        # re-raises).  "Exactly once after termination or disposal" is about all of them: whatever path runs the action, it runs once
        down = ctx.choose(3, "the subscriber returns / disposes inside the terminal / disposes and raises") if which != 2 else 0
        if down:
            def beh(it_):
                it_.call(it_.get_attr(D, "dispose"), [], {})
                if down == 2:
                    raise PyExc(SV(ctx.fresh("down_exc", "val").t, "val", tag="exc"))
            w.down_behaviour = beh
        escaped = False
        try:
            if which == 0:
                it.call(on_completed, [], {})
                term = ("on_completed", None)
            elif which == 1:
                exc = SV(ctx.fresh("err", "val").t, "val", tag="exc")
                it.call(on_error, [exc], {})
                term = ("on_error", exc)
            else:
                it.call(it.get_attr(D, "dispose"), [], {})
                term = None
        except PyExc:
            if down != 2:
                raise
            escaped = True
        finally:
            w.down_behaviour = None
        if down:
            lab = ["on_completed", "on_error"][which]
            calls = self.ev("call", action)
            self.rec(ctx, uid + f"/{lab}/subscriber-{'disposes-and-raises' if down == 2 else 'disposes'}-inside-the-terminal/the-action-runs-exactly-once-in-all",
                     len(calls) == (0 if ran_before else 1),
                     detail=f"the action ran {len(calls)} time(s) (it had {'already' if ran_before else 'not'} run before); the subscriber's exception "
                            f"{'escaped the handler' if escaped else 'did not escape'}")
            self.rec(ctx, uid + f"/{lab}/subscriber-{'disposes-and-raises' if down == 2 else 'disposes'}-inside-the-terminal/marks-the-action-as-run", flag_get() is True)
            return
        calls = self.ev("call", action)
        self.rec(ctx, uid + f"/{['on_completed', 'on_error', 'dispose'][which]}/runs-the-action-iff-it-has-not-run-yet", len(calls) == (0 if ran_before else 1))
        self.rec(ctx, uid + f"/{['on_completed', 'on_error', 'dispose'][which]}/marks-the-action-as-run", flag_get() is True)
        if term is not None:
            ds = self.ev("down")
            okd = len(ds) == 1 and ds[0][1] == term[0] and (term[1] is None or same(ds[0][2][0], term[1]))
            self.rec(ctx, uid + f"/{term[0]}/passes-the-terminal-on-unchanged", okd)
            if calls and ds:
                self.rec(ctx, uid + f"/{term[0]}/the-action-runs-after-the-terminal-was-passed-on", w.log.index(ds[0]) < w.log.index(calls[0]))
        else:
            self.rec(ctx, uid + "/dispose/disposes-the-subscription-once", len(self.ev("dispose", inner)) == 1)

    # -- do_on_dispose / do_on_subscribe -------------------------------------------------------------------
    def run_do_on_dispose(self, ctx):
        it = self.setup(ctx)
        w = self.w
        uid = f"{DFILE}::do_on_dispose"
        src = Opaque("source", "source")
        action = Opaque("callback", "on_dispose", may_raise=False)
        f = it.module_get("reactivex.operators._do", "do_on_dispose")
        obs = it.call(f, [src, action], {})
        sub = self.sub_fn(obs)
        w.log.clear()
        D = it.call(sub, [self.observer, self.sched], {})
        subs = self.ev("subscribe")
        ok = len(subs) == 1 and not self.ev("call", action)
        self.rec(ctx, uid + "/subscribe/source-subscribed-once-and-the-action-does-not-run", ok)
        if not ok:
            return
        inner = subs[0][4][1]
        w.log.clear()
        it.call(it.get_attr(D, "dispose"), [], {})
        self.rec(ctx, uid + "/dispose/runs-the-action-exactly-once", len(self.ev("call", action)) == 1)
        self.rec(ctx, uid + "/dispose/disposes-the-subscription-once", len(self.ev("dispose", inner)) == 1)
        w.log.clear()
        it.call(it.get_attr(D, "dispose"), [], {})
        self.rec(ctx, uid + "/dispose/a-second-dispose-does-nothing", not w.log)

    def run_do_on_subscribe(self, ctx):
        it = self.setup(ctx)
        w = self.w
        uid = f"{DFILE}::do_on_subscribe"
        src = Opaque("source", "source")
        action = Opaque("callback", "on_subscribe", may_raise=False)
        f = it.module_get("reactivex.operators._do", "do_on_subscribe")
        obs = it.call(f, [src, action], {})
        sub = self.sub_fn(obs)
        w.log.clear()
        D = it.call(sub, [self.observer, self.sched], {})
        calls, subs = self.ev("call", action), self.ev("subscribe")
        self.rec(ctx, uid + "/runs-the-action-exactly-once-before-subscribing-the-source",
                 len(calls) == 1 and len(subs) == 1 and w.log.index(calls[0]) < w.log.index(subs[0]))
        self.rec(ctx, uid + "/returns-the-source's-subscription", bool(subs) and D is subs[0][4][1])

    def run(self):
        t0 = time.time()
        try:
            for rel, fn in ((UFILE, "using_"), (FFILE, "finally_action_"), (DFILE, "do_finally"), (DFILE, "do_on_dispose"), (DFILE, "do_on_subscribe")):
                node = self.loader.find(rel, fn)
                self.functions[f"{rel}::{fn}"] = self.loader.sha(rel, fn)
                for q, n in all_functions(node, fn):
                    self.functions[f"{rel}::{q}"] = self.loader.sha(rel, q)
            for f in (self.run_using, self.run_finally_action, self.run_do_finally, self.run_do_on_dispose, self.run_do_on_subscribe):
                for p in explore(f):
                    self.results.extend(p.results)
        except Unsupported as e:
            self.unsupported = str(e)
        except PyExc as e:
            self.unsupported = f"interpreter-level exception: {e.value!r} {getattr(e.value, 'fields', '')}"
        self.seconds = time.time() - t0
        return self


MUTANTS = {
    UFILE: {
        "falsy resource dropped": ("            if resource is not None:\n                disp = resource", "            if resource:\n                disp = resource"),
        "resource not held on the failure path": ("            return CompositeDisposable(d, disp)", "            return d"),
        "resource not held": ("        return CompositeDisposable(\n            source.subscribe(observer, scheduler=scheduler), disp\n        )",
                              "        return source.subscribe(observer, scheduler=scheduler)"),
    },
    FFILE: {
        "action skipped when dispose raises": ("                try:\n                    subscription.dispose()\n                finally:\n                    action()",
                                               "                subscription.dispose()\n                action()"),
        "action at subscription": ("            def dispose():", "            action()\n\n            def dispose():"),
    },
    DFILE: {
        "do_finally runs twice": ("            if not self.was_invoked[0]:\n                finally_action()\n                self.was_invoked[0] = True",
                                  "            finally_action()\n            self.was_invoked[0] = True"),
        "do_finally flag not set by the handler": ("                if not was_invoked[0]:\n                    finally_action()\n                    was_invoked[0] = True\n            except Exception as err:  # pylint: disable=broad-except\n                observer.on_error(err)\n\n        def on_error",
                                                   "                if not was_invoked[0]:\n                    finally_action()\n            except Exception as err:  # pylint: disable=broad-except\n                observer.on_error(err)\n\n        def on_error"),
        "do_on_subscribe after subscribing": ("        on_subscribe()\n        return source.subscribe(\n            observer.on_next,\n            observer.on_error,\n            observer.on_completed,\n            scheduler=scheduler,\n        )",
                                              "        r = source.subscribe(\n            observer.on_next,\n            observer.on_error,\n            observer.on_completed,\n            scheduler=scheduler,\n        )\n        on_subscribe()\n        return r"),
    },
}


def must_fail():
    out = {"mutants": 0, "killed": 0, "survivors": []}
    for rel, ms in MUTANTS.items():
        src = Loader().load_file(rel).src
        for name, (a, b) in ms.items():
            if a not in src:
                continue
            ld = Loader()
            ld.overrides = {rel: src.replace(a, b, 1)}
            h = ResHarness(ld).run()
            out["mutants"] += 1
            if h.unsupported or any(r.verdict == "refuted" for r in h.results):
                out["killed"] += 1
            else:
                out["survivors"].append(f"{rel}: {name}")
    return out


def run_unit(desc):
    import json
    import os
    h = ResHarness().run()
    res = [r.as_dict() for r in h.results]
    rep = {
        "unit": f"{UFILE}::using_+finally",
        "kind": "function / closure contracts for resources and finally-actions",
        "functions": h.functions,
        "results": res,
        "unsupported": h.unsupported,
        "spec_validation": [],
        "bounded": [],
        "replayable": {"runner": "resrun.py", "module": "-", "name": "C40"},
    }
    if desc.get("tier") == "thorough" and not h.unsupported:
        mf = must_fail()
        rep["must_fail"] = dict(mf, unit=rep["unit"])
        if mf["mutants"] and mf["killed"] < mf["mutants"]:
            rep["crash"] = f"vacuity: must-fail mutants survived: {mf['survivors']}"
    if h.unsupported or desc.get("tier") == "thorough":
        from .report import native, VERIF, REPLAY_DIR
        r, err = native([os.path.join(VERIF, "rxvc", "resrun.py"), "replay", "-", "C40",
                         json.dumps({"replay_path": os.path.join(REPLAY_DIR, "C40-standin.py"), "prop": "C40",
                                     "oid": rep["unit"] + "/bounded-standin"})], timeout=200)
        st = r if r is not None else {"found": [], "error": err, "cases": 0}
        rep["bounded"].append({"function": rep["unit"], "bound": "resrun.py grid: resource kinds (plain, falsy, None) x inner timelines x dispose order x raising "
                               "factories; finally_action / do_finally orders; do_action with a callback raising at call k",
                               "cases": st.get("cases", 0), "mismatches": len(st.get("found", [])),
                               "role": "stand-in (out of subset)" if h.unsupported else "cross-check of the contracts against CPython"})
        if h.unsupported:
            rep["standin"] = st
        elif st.get("found") and all(x["verdict"] == "proved" for x in res):
            rep["crash"] = f"cross-check failed: contracts proved but the native run disagrees: {st['found'][0]}"
    return rep
