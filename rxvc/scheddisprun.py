"""Native stand-in / replay for the ScheduledDisposable contract (C25; BOUNDED: 0..3 dispose() calls, the scheduler's queue drained in either
order, on a scheduler that only records).   usage: scheddisprun.py replay - ScheduledDisposable '<json opts>'"""
from __future__ import annotations

import itertools
import json
import os
import sys

VERIF = os.path.dirname(os.path.dirname(os.path.abspath(__file__)))
REPO = os.environ.get("RXVC_REPO", "/repo")
if REPO not in sys.path:
    sys.path.insert(0, REPO)


def run_case(ndispose, order):
    from reactivex.disposable import Disposable, ScheduledDisposable
    from reactivex.scheduler import VirtualTimeScheduler

    pending, disposed = [], []

    class Rec(VirtualTimeScheduler):
        def schedule(self, action, state=None):
            pending.append((action, state))
            return Disposable()
    s = Rec()
    inner = Disposable(lambda: disposed.append(len(pending)))
    d = ScheduledDisposable(s, inner)
    if pending or disposed or d.is_disposed:
        return "construction scheduled / disposed something"
    for _ in range(ndispose):
        d.dispose()
        if disposed:
            return "dispose() disposed the wrapped resource on the calling thread"
    if len(pending) != ndispose:
        return f"{ndispose} dispose() calls scheduled {len(pending)} actions"
    if d.is_disposed:
        return "is_disposed before any scheduled action ran"
    acts = list(pending)
    if order == "reverse":
        acts.reverse()
    for k, (a, st) in enumerate(acts):
        a(s, st)
        if len(disposed) != 1:
            return f"after {k + 1} scheduled action(s) the wrapped resource was disposed {len(disposed)} times"
        if not d.is_disposed:
            return "is_disposed false after a scheduled action ran"
    return None


def main(argv):
    opts = json.loads(argv[3]) if len(argv) > 3 else {}
    n, found = 0, None
    for nd, order in itertools.product(range(4), ("fifo", "reverse")):
        n += 1
        try:
            r = run_case(nd, order)
        except Exception as e:  # noqa: BLE001
            r = f"the case raised {e!r}"
        if r:
            found = {"case": {"dispose_calls": nd, "order": order}, "disagreement": r}
            break
    res = {"cases": n, "found": [found] if found else []}
    if found and "replay_path" in opts:
        os.makedirs(os.path.dirname(opts["replay_path"]), exist_ok=True)
        with open(opts["replay_path"], "w") as f:
            f.write(f'#!/venv/bin/python\n"""Replay of a violation of property {opts.get("prop", "C25")} (ScheduledDisposable).\nobligation: {opts.get("oid", "?")}\n'
                    f'case: {found["case"]}\n{found["disagreement"]}\nExit 1 when it reproduces on the tree under RXVC_REPO (default /repo)."""\n'
                    f'import sys\nsys.path.insert(0, {VERIF!r})\nfrom rxvc import scheddisprun\nr = scheddisprun.run_case({found["case"]["dispose_calls"]}, {found["case"]["order"]!r})\n'
                    f'print(r)\nsys.exit(1 if r else 0)\n')
        res["replay"] = opts["replay_path"]
    print(json.dumps(res))


if __name__ == "__main__":
    main(sys.argv[1:])
