"""Bounded stand-in for the timed operators of a property that are NOT (yet) under a K1-T contract: they are exercised by
timedrun.py only (TestScheduler timelines against a reference written from the property text).  Nothing here is counted as
proved: the unit reports no obligations, only a `bounded` entry - and a violation when the native run finds one."""
from __future__ import annotations

import json
import os

#: property -> operators covered only by the bounded native run
EXTRA = {
    "C15": ["delay"],
    "C16": [],
    "C17": [],
}


def run_unit(desc):
    from .report import native, VERIF, REPLAY_DIR
    from .loader import Loader
    prop = desc["prop"]
    ops = EXTRA.get(prop, [])
    rep = {"unit": f"timed-operators-not-under-contract/{prop}", "kind": "bounded stand-in (native timed run only)", "functions": {},
           "results": [], "unsupported": None, "spec_validation": [], "bounded": []}
    if not ops:
        rep["bounded"].append({"function": "-", "bound": "no operator of this property is left to the bounded run", "cases": 0, "mismatches": 0})
        return rep
    ld = Loader()
    found_any = None
    for op in ops:
        res, err = native([os.path.join(VERIF, "rxvc", "timedrun.py"), "replay", "-", op,
                           json.dumps({"replay_path": os.path.join(REPLAY_DIR, f"{prop}-standin-{op}.py"), "prop": prop,
                                       "oid": f"reactivex/operators/{op}/bounded-standin"})], timeout=200)
        st = res if res is not None else {"found": [], "error": err, "cases": 0}
        rep["bounded"].append({"function": f"reactivex/operators::{op}", "bound": "timedrun.py timelines x parameter grid on a TestScheduler",
                               "cases": st.get("cases", 0), "mismatches": len(st.get("found", [])), "role": "stand-in (no contract yet)"})
        if st.get("found") and found_any is None:
            found_any = st
    _ = ld
    # report.py takes a stand-in verdict only for units that declare themselves out of subset
    rep["unsupported"] = "operators " + ", ".join(ops) + " have no K1-T contract yet: decided by the bounded native run only (never counted as proved)"
    rep["standin"] = found_any or {"found": [], "cases": sum(b["cases"] for b in rep["bounded"])}
    return rep
