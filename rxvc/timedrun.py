"""Native virtual-time runner for the timed operators (replay of K1-T violations; bounded cross-check and stand-in).

Runs under /venv/bin/python on reactivex.testing.TestScheduler (subscription at 200, hot sources whose messages were
scheduled before the subscription, so at equal instants a source notification is processed before a timer set later).
Every operator of the table is run on a grid of timelines (elements at multiples of 10 after 200, completion / error /
open end) and parameters, and its recorded output (time, notification) is compared with a reference written from the
property text:
  delay(d)            every element and the completion d later, in order; an error at once, dropping what is still pending
  delay_subscription  the whole (cold) timeline d later
  timestamp / time_interval   the clock reading / the time since the previous element (or subscription)
  debounce(d)         an element at t is emitted at t + d iff no element arrives in (t, t + d]; completion flushes, error drops
  throttle_first(w)   an element passes iff at least w has passed since the last one that passed
  sample(p)           at every tick 200 + k p the latest element not yet sampled; after the source completed the next tick completes
  take / skip (_until) _with_time     elements arriving up to / after the boundary (a source element AT the boundary arrives first)
  take_last_with_time(d) / skip_last_with_time(d)   at completion: the elements with age < d / with age >= d at their
                      release time (skip_last releases an element as soon as it is d old), by a rule independent of other arrivals
  timeout(d, other)   mirrors the source until d has passed since subscription or the last element, then switches to `other`
BOUNDED.

usage: timedrun.py replay - <operator or 'all'> '<json opts>'
       timedrun.py case '<json case>'
"""
from __future__ import annotations

import itertools
import json
import os
import sys

VERIF = os.path.dirname(os.path.dirname(os.path.abspath(__file__)))
REPO = os.environ.get("RXVC_REPO", "/repo")
if REPO not in sys.path:
    sys.path.insert(0, REPO)

SUB = 200


#: operators that take a scheduler of their own: also run with the scheduler given to the operator and NONE to subscribe()
OPSCHED = {"delay", "delay_subscription", "timestamp", "time_interval", "debounce", "throttle_first", "sample", "take_with_time", "skip_with_time",
           "take_until_with_time", "skip_until_with_time", "take_last_with_time", "skip_last_with_time", "timeout"}


def run_resub(op, tl, par):
    """ONE observable (one application of the operator) over a cold source, subscribed at 200 and again at 600: the second
    subscription must see exactly what the first one saw, 400 later (state is allocated per subscription: C04 / frame condition)"""
    from reactivex.testing import TestScheduler
    s = TestScheduler()
    o = build(s, op, tl, dict(par, cold=True))[0]
    runs = []
    for t0 in (200, 600):
        out = []
        runs.append(out)

        def sub(_s, _st, out=out):
            o.subscribe(lambda v: out.append((int(s.clock), "N", v)), lambda e: out.append((int(s.clock), "E", None)),
                        lambda: out.append((int(s.clock), "C", None)), scheduler=s)
        s.schedule_absolute(t0, sub)
    s.schedule_absolute(990, lambda *_: s.stop())
    s.start()
    first = [e for e in runs[0] if e[0] < 600]
    second = [(t - 400, k, v) for (t, k, v) in runs[1] if t - 400 < 600]
    return first, second


def run_real(op, tl, par):
    """tl: list of (time, kind, value) with kind N/E/C -> list of (time, kind, value)"""
    from reactivex.testing import TestScheduler
    s = TestScheduler()
    o, other = build(s, op, tl, par)
    out = []
    if par.get("opsched"):
        # the scheduler is given to the OPERATOR only: subscribe() gets none (the operator must keep time on its own scheduler throughout)
        box = {}

        def sub(_s, _st):
            box["d"] = o.subscribe(lambda v: out.append((int(s.clock), "N", v)), lambda e: out.append((int(s.clock), "E", None)),
                                   lambda: out.append((int(s.clock), "C", None)))
        s.schedule_absolute(SUB, sub)
        s.schedule_absolute(900, lambda *_: box["d"].dispose())
        s.start()
    else:
        res = s.start(lambda: o, disposed=900)
        for m in res.messages:
            k = m.value.kind
            out.append((int(m.time), k, m.value.value if k == "N" else None))
    if op in ("timeout", "timeout_with_mapper"):
        # "never after the source terminated": the fallback is subscribed at most once, and only by a switch
        out.append((0, "fallback-subscriptions", len(other.subscriptions)))
    return out


def build(s, op, tl, par):
    """-> (the operator applied to the source built from the timeline, the fallback observable if any)"""
    import reactivex as rx
    from reactivex import operators as ops
    from reactivex.testing import ReactiveTest
    other = None
    msgs = []
    for (t, k, v) in tl:
        if k == "N":
            msgs.append(ReactiveTest.on_next(t, v))
        elif k == "E":
            msgs.append(ReactiveTest.on_error(t, ValueError("src")))
        else:
            msgs.append(ReactiveTest.on_completed(t))
    cold = op in ("delay_subscription",) or bool(par.get("cold"))
    if cold:
        src = s.create_cold_observable(*[type(m)(m.time - SUB, m.value) for m in msgs])
    else:
        src = s.create_hot_observable(*msgs)
    d = par.get("d", 0)
    kw = {"scheduler": s} if par.get("opsched") else {}
    if par.get("td") and not par.get("abs"):
        from datetime import timedelta
        d = timedelta(seconds=d)  # a relative time given as a timedelta is the same span
    if op == "delay":
        o = src.pipe(ops.delay(d, **kw))
    elif op == "delay_subscription":
        o = src.pipe(ops.delay_subscription(d, **kw))
    elif op == "timestamp":
        o = src.pipe(ops.timestamp(**kw), ops.map(lambda t: (t.value, int(round(s.to_seconds(t.timestamp))))))
    elif op == "time_interval":
        o = src.pipe(ops.time_interval(**kw), ops.map(lambda t: (t.value, int(round(s.to_seconds(t.interval))))))
    elif op == "debounce":
        o = src.pipe(ops.debounce(d, **kw))
    elif op == "throttle_first":
        o = src.pipe(ops.throttle_first(d, **kw))
    elif op == "sample":
        o = src.pipe(ops.sample(d, **kw))
    elif op == "take_with_time":
        o = src.pipe(ops.take_with_time(d, **kw))
    elif op == "skip_with_time":
        o = src.pipe(ops.skip_with_time(d, **kw))
    elif op == "take_until_with_time":
        o = src.pipe(ops.take_until_with_time(s.to_datetime(float(SUB + d)) if par.get("abs") else d, **kw))
    elif op == "skip_until_with_time":
        o = src.pipe(ops.skip_until_with_time(s.to_datetime(float(SUB + d)) if par.get("abs") else d, **kw))
    elif op == "take_last_with_time":
        o = src.pipe(ops.take_last_with_time(d, **kw))
    elif op == "skip_last_with_time":
        o = src.pipe(ops.skip_last_with_time(d, **kw))
    elif op == "timeout":
        other = s.create_cold_observable(ReactiveTest.on_next(5, "fallback"), ReactiveTest.on_completed(10))
        o = src.pipe(ops.timeout(d, None if par.get("no_other") else other, **kw))
    elif op == "throttle_with_mapper":
        o = src.pipe(ops.throttle_with_mapper(lambda v: rx.timer(dv(d, v), scheduler=s)))
    elif op == "timeout_with_mapper":
        other = s.create_cold_observable(ReactiveTest.on_next(5, "fallback"), ReactiveTest.on_completed(10))
        # every argument may be omitted: no first timeout / no mapper = no due time there; no fallback = an error at the due time
        a1 = None if par.get("no_first") else rx.timer(d, scheduler=s)
        a2 = None if par.get("no_mapper") else (lambda v: rx.timer(dv(d, v), scheduler=s))
        o = src.pipe(ops.timeout_with_mapper(a1, a2, None if par.get("no_other") else other))
    elif op == "delay_with_mapper":
        if par.get("sd") is not None:
            o = src.pipe(ops.delay_with_mapper(rx.timer(par["sd"], scheduler=s), lambda v: rx.timer(dv(d, v), scheduler=s)))
        else:
            o = src.pipe(ops.delay_with_mapper(lambda v: rx.timer(dv(d, v), scheduler=s)))
    else:
        raise SystemExit(f"unknown operator {op}")
    return o, other


def dv(d, v):
    """the per-element duration of the *_with_mapper operators: the mapper's observable fires dv(d, v) after the element"""
    return d + (10 if v is None else 0)


def reference(op, tl, par):
    d = par.get("d", 0)
    if op == "delay_with_mapper" and par.get("sd") is not None:
        # the (hot) source is subscribed when the subscription delay fires: what it sent up to that instant is not seen
        tl = [e for e in tl if e[0] > SUB + par["sd"]]
    els = [(t, v) for (t, k, v) in tl if k == "N"]
    term = next(((t, k) for (t, k, v) in tl if k in ("E", "C")), None)
    out = []
    if op == "delay":
        if term and term[1] == "E":
            out = [(t + d, "N", v) for (t, v) in els if t + d < term[0]] + [(term[0], "E", None)]
        else:
            out = [(t + d, "N", v) for (t, v) in els] + ([(term[0] + d, "C", None)] if term else [])
    elif op == "delay_subscription":
        out = [(t + d, k, v if k == "N" else None) for (t, k, v) in tl]
    elif op == "timestamp":
        out = [(t, "N", (v, t)) for (t, v) in els] + ([(term[0], term[1], None)] if term else [])
    elif op == "time_interval":
        last = SUB
        for (t, v) in els:
            out.append((t, "N", (v, t - last)))
            last = t
        if term:
            out.append((term[0], term[1], None))
    elif op in ("debounce", "throttle_with_mapper"):
        end = term[0] if term else 10 ** 9
        d0 = d
        for i, (t, v) in enumerate(els):
            d = dv(d0, v) if op == "throttle_with_mapper" else d0
            nxt = els[i + 1][0] if i + 1 < len(els) else None
            if nxt is not None and nxt <= t + d:
                continue
            if t + d < end or (term is None):
                out.append((t + d, "N", v))
            elif term[1] == "C":
                out.append((end, "N", v))  # flushed by the completion
        if term:
            out.append((term[0], term[1], None))
        out.sort(key=lambda e: e[0])
    elif op == "throttle_first":
        last = None
        for (t, v) in els:
            if last is None or t - last >= d:
                out.append((t, "N", v))
                last = t
        if term:
            out.append((term[0], term[1], None))
    elif op == "sample":
        pending, ended, k = None, False, 1
        events = sorted([(t, 0, "N", v) for (t, v) in els] + ([(term[0], 0, term[1], None)] if term else []))
        horizon = 900
        i = 0
        while SUB + k * d < horizon:
            tick = SUB + k * d
            while i < len(events) and events[i][0] <= tick:
                _t, _o, kind, v = events[i]
                i += 1
                if kind == "N":
                    pending = (v,)
                elif kind == "C":
                    ended = True
                else:
                    out.append((_t, "E", None))
                    return out
            if pending is not None:
                out.append((tick, "N", pending[0]))
                pending = None
            if ended:
                out.append((tick, "C", None))
                return out
            k += 1
        return out
    elif op in ("take_with_time", "take_until_with_time"):
        b = SUB + d
        for (t, k, v) in tl:
            # a hot source's notification of the boundary instant was scheduled before the timer and comes first; a cold source
            # schedules its notifications when it is subscribed - after the timer was set - so the timer comes first
            if t > b or (par.get("cold") and t == b):
                break
            out.append((t, k, v if k == "N" else None))
            if k != "N":
                return out
        out.append((b, "C", None))
    elif op in ("skip_with_time", "skip_until_with_time"):
        b = SUB + d
        for (t, k, v) in tl:
            if k == "N":
                if t > b or (par.get("cold") and t == b):
                    out.append((t, "N", v))
            else:
                out.append((t, k, None))
    elif op == "take_last_with_time":
        if term and term[1] == "C":
            out = [(term[0], "N", v) for (t, v) in els if term[0] - t < d] + [(term[0], "C", None)]  # strictly younger than d
        elif term:
            out = [(term[0], "E", None)]
    elif op == "skip_last_with_time":
        # an element is released by the first arrival (or the completion) that finds it at least d old
        marks = [t for (t, v) in els] + ([term[0]] if term and term[1] == "C" else [])
        for (t, v) in els:
            rel = next((m for m in marks if m - t >= d and m >= t), None)
            if rel is not None and (term is None or rel <= term[0]):
                out.append((rel, "N", v))
        out.sort(key=lambda e: e[0])
        if term:
            out.append((term[0], term[1], None))
    elif op in ("timeout", "timeout_with_mapper"):
        INF = 10 ** 9
        deadline = INF if par.get("no_first") else SUB + d
        for (t, k, v) in tl:
            if t > deadline:
                break
            out.append((t, k, v if k == "N" else None))
            if k != "N":
                return out + [(0, "fallback-subscriptions", 0)]
            deadline = (INF if par.get("no_mapper") else t + dv(d, v)) if op == "timeout_with_mapper" else t + d
        sw = deadline
        if sw >= INF:
            return out + [(0, "fallback-subscriptions", 0)]
        if par.get("no_other"):
            return out + [(sw, "E", None), (0, "fallback-subscriptions", 0)]
        out += [(sw + 5, "N", "fallback"), (sw + 10, "C", None), (0, "fallback-subscriptions", 1)]
    elif op == "delay_with_mapper":
        els = [(t, v) for (t, k, v) in tl if k == "N"]
        term = next(((t, k) for (t, k, v) in tl if k in ("E", "C")), None)
        em = sorted(((t + dv(d, v), i, v) for i, (t, v) in enumerate(els)), key=lambda e: (e[0], e[1]))
        if term and term[1] == "E":
            out = [(t, "N", v) for (t, _i, v) in em if t < term[0]] + [(term[0], "E", None)]
        else:
            out = [(t, "N", v) for (t, _i, v) in em]
            if term:
                out.append((max([term[0]] + [t for (t, _i, _v) in em]), "C", None))
    return out


def timelines():
    times = [210, 220, 230, 250, 260]
    vals = ["a", None, 0]
    for n in range(0, 4):
        for ts in itertools.combinations(times, n):
            for tk in (None, "C", "E"):
                base = [(t, "N", vals[i % 3]) for i, t in enumerate(ts)]
                if tk is None:
                    yield base
                else:
                    last = ts[-1] if ts else 200
                    for gap in (0, 5, 10, 30):
                        if gap == 0 and not ts:
                            continue  # a hot notification AT the subscription instant is not seen by the subscriber
                        yield base + [(last + gap, tk, None)]


OPS = {
    "delay": [{"d": 10}, {"d": 25}, {"d": 10, "feedback": True}], "delay_subscription": [{"d": 10}, {"d": 30}], "timestamp": [{}], "time_interval": [{}],
    "debounce": [{"d": 10}, {"d": 20}, {"d": 15}, {"d": 300}], "throttle_first": [{"d": 10}, {"d": 20}, {"d": 25}, {"d": 300}], "sample": [{"d": 20}, {"d": 15}],
    "take_with_time": [{"d": 20}, {"d": 25}, {"d": 0}, {"d": 20, "cold": True}], "skip_with_time": [{"d": 20}, {"d": 25}, {"d": 0}, {"d": 20, "cold": True}],
    "take_until_with_time": [{"d": 20, "abs": False}, {"d": 20, "abs": True}, {"d": 35, "abs": True}, {"d": 20, "abs": False, "cold": True}, {"d": 20, "abs": True, "cold": True}],
    "skip_until_with_time": [{"d": 20, "abs": False}, {"d": 20, "abs": True}, {"d": 35, "abs": True}, {"d": 20, "abs": False, "cold": True}, {"d": 20, "abs": True, "cold": True}],
    "take_last_with_time": [{"d": 10}, {"d": 20}, {"d": 30}, {"d": 300}], "skip_last_with_time": [{"d": 10}, {"d": 20}, {"d": 30}, {"d": 300}],
    "timeout": [{"d": 15}, {"d": 25}, {"d": 15, "no_other": True}],
    "throttle_with_mapper": [{"d": 10}, {"d": 20}, {"d": 15}], "timeout_with_mapper": [{"d": 15}, {"d": 25}, {"d": 15, "no_mapper": True}, {"d": 15, "no_first": True}, {"d": 25, "no_other": True},
                                                                                        {"d": 15, "no_first": True, "no_mapper": True, "no_other": True}],
    "delay_with_mapper": [{"d": 10}, {"d": 25}, {"d": 10, "sd": 15}, {"d": 25, "sd": 20}, {"d": 10, "sd": 0}],
}
FILES = {"delay": "_delay.py", "delay_subscription": "_delaysubscription.py", "timestamp": "_timestamp.py", "time_interval": "_timeinterval.py",
         "debounce": "_debounce.py", "throttle_first": "_throttlefirst.py", "sample": "_sample.py", "take_with_time": "_takewithtime.py",
         "skip_with_time": "_skipwithtime.py", "take_until_with_time": "_takeuntilwithtime.py", "skip_until_with_time": "_skipuntilwithtime.py",
         "take_last_with_time": "_takelastwithtime.py", "skip_last_with_time": "_skiplastwithtime.py", "timeout": "_timeout.py",
         "throttle_with_mapper": "_debounce.py::throttle_with_mapper_", "timeout_with_mapper": "_timeoutwithmapper.py", "delay_with_mapper": "_delaywithmapper.py"}


def run_feedback(op, par):
    """re-entrancy: the consumer reacts to the FIRST delivered element by failing the source (a Subject) from inside on_next, while
    a second element due in the same instant is still pending: delay drops it and forwards the error at once"""
    import reactivex.operators as ops
    from reactivex.subject import Subject
    from reactivex.testing import TestScheduler
    s = TestScheduler()
    subj = Subject()
    out = []
    d = par["d"]

    def on_next(v):
        out.append((int(s.clock), "N", v))
        if len(out) == 1:
            subj.on_error(ValueError("feedback"))
    subj.pipe(ops.delay(d)).subscribe(on_next, lambda e: out.append((int(s.clock), "E", None)), lambda: out.append((int(s.clock), "C", None)), scheduler=s)
    s.schedule_absolute(210, lambda *_: (subj.on_next("a"), subj.on_next("b")))
    s.schedule_absolute(990, lambda *_: s.stop())
    s.start()
    return out, [(210 + d, "N", "a"), (210 + d, "E", None)]


def check(op, tl, par):
    if par.get("feedback"):
        if tl:
            return None  # one scenario per parameter set (run with the empty timeline)
        try:
            got, want = run_feedback(op, par)
        except Exception as e:  # noqa: BLE001
            return {"what": f"escaped: {type(e).__name__}: {e}"}
        return None if got == want else {"what": "re-entrant error while the drain delivers a batch due in one instant", "got": got, "expected": want}
    try:
        got = run_real(op, tl, par)
    except Exception as e:  # noqa: BLE001
        return {"what": f"escaped: {type(e).__name__}: {e}"}
    want = reference(op, tl, par)
    if got != want:
        return {"what": "output differs from the reference", "got": got, "expected": want}
    return None


REPLAY_TEMPLATE = '''#!/venv/bin/python
"""Replay of a violation of property {prop} (timed operator {op}).
obligation: {oid}
case: {case}
{what}
Exit 1 when it reproduces on the tree under RXVC_REPO (default /repo)."""
import subprocess, sys
r = subprocess.run(["/venv/bin/python", "{verif}/rxvc/timedrun.py", "case", {case!r}])
sys.exit(r.returncode)
'''


def check_resub(op, tl, par):
    try:
        first, second = run_resub(op, tl, par)
    except Exception as e:  # noqa: BLE001
        return {"what": f"escaped: {type(e).__name__}: {e}"}
    if first != second:
        return {"what": "the second subscription of the same observable differs from the first (times shifted back by 400)", "got": second, "expected": first}
    return None


def main(argv):
    if argv[0] == "case":
        c = json.loads(argv[1])
        fn = check_resub if c.get("resub") else check
        r = fn(c["op"], [tuple(e) for e in c["timeline"]], c["par"])
        print(json.dumps({"violation": r}, default=repr))
        sys.exit(1 if r else 0)
    target = argv[2]
    opts = json.loads(argv[3]) if len(argv) > 3 else {}
    oid = opts.get("oid", "")
    names = list(OPS)
    mine = [target] if target in names else [n for n in names if FILES[n] in oid or FILES[n] in target]
    order = mine if (target != "all" and mine) else names
    skip = set(opts.get("skip", []))
    n, found = 0, None
    resub = argv[0] == "resub"
    for op in order:
        if op in skip:
            continue
        for par in OPS[op]:
            if resub and (par.get("abs") or par.get("sd") is not None or op == "timestamp" or par.get("feedback")):
                continue  # absolute instants / clock readings / hot-only variants do not shift with the subscription
            variants = [par]
            if not resub and not par.get("feedback") and op in OPSCHED:
                variants.append(dict(par, opsched=True))
                if not par.get("abs"):
                    variants.append(dict(par, td=True))
            for pv in variants:
                for tl in timelines():
                    n += 1
                    r = check_resub(op, tl, pv) if resub else check(op, tl, pv)
                    if r:
                        found = {"case": {"op": op, "par": pv, "timeline": [list(e) for e in tl]}, "disagreement": r}
                        if resub:
                            found["case"]["resub"] = True
                        break
                if found:
                    break
            if found:
                break
        if found:
            break
    res = {"cases": n, "found": [found] if found else []}
    if found and "replay_path" in opts:
        os.makedirs(os.path.dirname(opts["replay_path"]), exist_ok=True)
        with open(opts["replay_path"], "w") as f:
            f.write(REPLAY_TEMPLATE.format(prop=opts.get("prop", "C17"), oid=oid, verif=VERIF, op=found["case"]["op"],
                                           case=json.dumps(found["case"]), what=json.dumps(found["disagreement"], default=repr)[:700]))
        res["replay"] = opts["replay_path"]
    print(json.dumps(res, default=repr))


if __name__ == "__main__":
    main(sys.argv[1:])
