"""K6 forwarding contracts (C39): `source.m(args)` is `source.pipe(ops.m(args))`.

For every public method m of a mixin class and every call shape (number of positional arguments x
set of keywords) accepted by BOTH m and ops.m, the real method body is executed with symbolic
argument values; the `ops.*` wrappers it calls are not entered but recorded as terms with their
arguments bound through the real `ops.*` signature (defaults included).  Obligation: the
method's result is exactly pipe(self, ops.m(<the same call shape bound through ops.m>)), each
parameter value proved equal under the path condition.  Finite set of shapes, symbolic values:
all arguments.
"""
from __future__ import annotations

import ast
import itertools
import time

import z3

from . import natives, smt
from .interp import NOTSET, Env, Interp, World, explore
from .loader import Loader
from .refine import Result
from .values import (
    SV,
    BoundMethod,
    ClassRef,
    Closure,
    DictObj,
    Obj,
    Opaque,
    PathEnd,
    PyExc,
    Unsupported,
    ValSV,
)

OPS_MODULE = "reactivex.operators"


class OpTerm:
    def __init__(self, name, bound):
        self.name = name
        self.bound = bound  # param -> value

    def __repr__(self):
        return f"ops.{self.name}({', '.join(f'{k}={v!r}' for k, v in self.bound.items())})"


class FwdWorld(World):
    def __init__(self, h):
        super().__init__()
        self.h = h

    def mk_source(self, chain=()):
        return Opaque("source", "self", chain=tuple(chain))

    def getattr(self, it, o, name):
        if o.kind == "source":
            if name == "pipe":
                return super().getattr(it, o, name)
            obs = it.module_get("reactivex.observable.observable", "Observable")
            m = it.class_lookup(obs, name)
            if isinstance(m, Closure):
                return BoundMethod(o, m)
            return super().getattr(it, o, name)
        return super().getattr(it, o, name)

    def isinstance(self, it, o, cls):
        if o.kind == "source":
            return getattr(cls, "name", "") in ("Observable", "ObservableBase")
        return super().isinstance(it, o, cls)

    def call(self, it, o, method, args, kwargs):
        if o.kind == "source" and method == "pipe":
            chain = list(o.attrs.get("chain", ()))
            for a in args:
                chain.extend(self.flatten(a))
            return self.mk_source(chain)
        if o.kind == "callback":
            return super().call(it, o, method, args, kwargs)
        raise Unsupported(f"call {o}.{method}")

    def flatten(self, a):
        if isinstance(a, OpTerm):
            if a.name == "<compose>":
                out = []
                for x in a.bound["operators"]:
                    out.extend(self.flatten(x))
                return out
            return [a]
        raise Unsupported(f"pipe argument {a!r} is not an operator term")


def shapes_of(fn_node, skip_self=True):
    """all call shapes (n_positional, frozenset(keywords)) a def accepts, star-args sampled with 0..2 extras"""
    a = fn_node.args
    pos = [p.arg for p in a.posonlyargs + a.args]
    if skip_self:
        pos = pos[1:]
    n_posonly = len(a.posonlyargs) - (1 if skip_self and a.posonlyargs else 0)
    ndef = len(a.defaults)
    required = pos[: len(pos) - ndef]
    kwonly = [p.arg for p in a.kwonlyargs]
    kwonly_req = [p.arg for p, d in zip(a.kwonlyargs, a.kw_defaults) if d is None]
    out = []
    max_pos = len(pos) + (2 if a.vararg else 0)
    for k in range(0, max_pos + 1):
        covered = pos[:k]
        rest = [p for p in pos[k:]]
        rest_required = [p for p in rest if p in required]
        rest_optional = [p for p in rest if p not in required]
        opt_pool = rest_optional + [p for p in kwonly if p not in kwonly_req]
        if len(opt_pool) > 5:
            opt_pool = opt_pool[:5]
        for r in range(len(opt_pool) + 1):
            for sub in itertools.combinations(opt_pool, r):
                kws = frozenset(rest_required) | frozenset(kwonly_req) | frozenset(sub)
                if any(pos.index(p) < n_posonly for p in kws if p in pos):
                    continue
                out.append((k, kws))
    return out


class NotPiped(Exception):
    pass


class ForwardHarness:
    def __init__(self, file, cls, loader=None):
        self.file = file
        self.cls = cls
        self.loader = loader or Loader()
        self.results = []
        self.notes = []
        self.functions = {}
        self.unsupported = None
        self.alias = {}

    def record(self, ctx, oid, goal, detail=""):
        t0 = time.time()
        if isinstance(goal, bool):
            goal = z3.BoolVal(goal)
        v, m, b = smt.prove(ctx.pc, goal)
        ctx.results.append(Result(oid, v, b, smt.model_to_dict(m), list(ctx.branch_log), detail, time.time() - t0, "forward"))
        return v == "proved"

    def fail(self, ctx, oid, detail):
        v, m, b = smt.check_sat(ctx.pc)
        if v == "unsat":
            raise PathEnd()
        ctx.results.append(Result(oid, "refuted" if v == "sat" else "unknown", b, smt.model_to_dict(m),
                                  list(ctx.branch_log), detail, 0.0, "forward"))

    def hook(self, it, f, args, kwargs):
        if isinstance(f, OpTerm):
            # applying an operator term to an observable == piping it
            if len(args) == 1 and isinstance(args[0], Opaque) and args[0].kind == "source" and not kwargs:
                return it.world.call(it, args[0], "pipe", [f], {})
            if len(args) == 1 and isinstance(args[0], Obj) and not kwargs:
                # the operator is applied to an observable the method built itself (from_iterable((self, ...)), a merge of its arguments, ...):
                # whatever that pipeline does, it is not `self.pipe(ops.<name>(...))`
                raise NotPiped(f"ops.{f.name}(...) is applied to {args[0]!r}, an observable the method built itself, not to the receiver")
            raise Unsupported(f"operator term applied to {args!r}")
        if isinstance(f, Closure) and f.module is not None:
            if f.module.name == OPS_MODULE and isinstance(f.node, ast.FunctionDef) and "." not in f.qualname:
                env = Env(None, f.module, f)
                it.bind_args(f, args, kwargs, env)
                return OpTerm(f.node.name, dict(env.vars))
            if f.module.name == "reactivex.pipe" and f.qualname == "compose":
                return OpTerm("<compose>", {"operators": list(args)})
        return NOTSET

    def make_args(self, it, ctx, fn_node, shape):
        k, kws = shape
        a = fn_node.args
        pos = [p.arg for p in a.posonlyargs + a.args][1:]
        args = []
        for i in range(k):
            name = pos[i] if i < len(pos) else f"star{i - len(pos)}"
            args.append(ctx.fresh("a_" + name, "val"))
        kwargs = {n: ctx.fresh("a_" + n, "val") for n in sorted(kws)}
        return args, kwargs

    def same_value(self, it, ctx, a, b):
        """term saying two bound parameter values are the same value"""
        if isinstance(a, tuple) and isinstance(b, tuple):
            if len(a) != len(b):
                return False
            r = True
            for x, y in zip(a, b):
                r = natives.mk_and(r, self.same_value(it, ctx, x, y))
            return r
        if isinstance(a, DictObj) and isinstance(b, DictObj):
            if set(a.d) != set(b.d):
                return False
            r = True
            for k in a.d:
                r = natives.mk_and(r, self.same_value(it, ctx, a.d[k], b.d[k]))
            return r
        if isinstance(a, OpTerm) or isinstance(b, OpTerm):
            return isinstance(a, OpTerm) and isinstance(b, OpTerm) and self.same_opterm(it, ctx, a, b) is True
        if isinstance(a, Closure) or isinstance(b, Closure):
            return a is b
        if isinstance(a, float) or isinstance(b, float):
            return a == b
        try:
            return it.to_val(a) == it.to_val(b)
        except Unsupported:
            return a is b

    def same_opterm(self, it, ctx, a, b):
        if a.name != b.name or set(a.bound) != set(b.bound):
            return False
        r = True
        for p in a.bound:
            r = natives.mk_and(r, self.same_value(it, ctx, a.bound[p], b.bound[p]))
        return r

    def run_shape(self, ctx, mname, shape):
        w = FwdWorld(self)
        it = Interp(self.loader, ctx, w)
        it.call_hook = self.hook
        modname = self.file[:-3].replace("/", ".")
        cls = it.module_get(modname, self.cls)
        m = cls.attrs[mname]
        opsf = it.module_get(OPS_MODULE, mname)
        args, kwargs = self.make_args(it, ctx, m.node, shape)
        oid = f"{self.file}::{self.cls}.{mname}/shape[{shape[0]}+{','.join(sorted(shape[1]))}]"
        # expected: ops.m bound with the same shape
        try:
            env = Env(None, opsf.module, opsf)
            it.bind_args(opsf, list(args), dict(kwargs), env)
            expected = OpTerm(self.alias.get(mname, mname), dict(env.vars))
        except PyExc:
            ctx.notes.append(f"{oid}: shape not accepted by ops.{mname} (valid on one side only)")
            return
        src = w.mk_source()
        try:
            res = it.call(BoundMethod(src, m), args, kwargs)
        except NotPiped as e:
            self.fail(ctx, oid + "/is-pipe", f"result is not self.pipe(...): {e}")
            return
        except PyExc as e:
            self.fail(ctx, oid + "/no-exception", f"fluent method raised {e.value!r} {getattr(e.value, 'fields', '')} where ops.{mname} accepts the call")
            return
        except Unsupported as e:
            if str(e).startswith("iterate SV<") and any(isinstance(a, SV) and repr(a) in str(e) for a in list(args) + list(kwargs.values())):
                # same contract: the piped operator takes its iterable AS IT IS and asks it for an iterator per subscription; a method that
                # iterates it (iter(second), list(second), a loop) while the pipeline is built hands on something else - a one-shot iterator
                self.fail(ctx, oid + "/hands-its-arguments-on-untouched", f"the fluent method itself iterates one of its arguments ({str(e)[8:]}) while the "
                          f"pipeline is being built; ops.{mname}(...) only stores it (and iterates it anew for every subscription)")
                return
            if str(e).startswith("call of SV<") and any(isinstance(a, SV) and repr(a) in str(e) for a in list(args) + list(kwargs.values())):
                # the forwarding contract: arguments are handed on to ops.<name>(...) as they are - the piped form never calls a mapper /
                # factory when the pipeline is BUILT (only per subscription / per element), so a method that does is a different operator
                self.fail(ctx, oid + "/hands-its-arguments-on-uncalled", f"the fluent method itself calls one of its arguments ({str(e)[8:]}) while "
                          f"the pipeline is being built; ops.{mname}(...) only stores it")
                return
            raise
        if not (isinstance(res, Opaque) and res.kind == "source"):
            self.fail(ctx, oid + "/is-pipe", f"result is not self.pipe(...): {res!r}")
            return
        chain = list(res.attrs.get("chain", ()))
        if len(chain) != 1:
            self.fail(ctx, oid + "/single-operator", f"result pipes {len(chain)} operators {chain!r}, expected exactly ops.{mname}(...)")
            return
        got = chain[0]
        if got.name != expected.name:
            self.fail(ctx, oid + "/same-operator", f"pipes ops.{got.name}, expected ops.{expected.name}")
            return
        same = self.same_opterm(it, ctx, got, expected)
        self.record(ctx, oid + "/same-arguments", same, detail=f"fluent -> {got!r}; piped -> {expected!r}"[:400])

    def run(self):
        t0 = time.time()
        try:
            m = self.loader.load_file(self.file)
            clsnode = self.loader.find(self.file, self.cls)
            opsmod = self.loader.load(OPS_MODULE)
            for st in clsnode.body:
                if not isinstance(st, ast.FunctionDef) or st.name.startswith("_"):
                    continue
                if any(isinstance(d, ast.Name) and d.id == "overload" for d in st.decorator_list):
                    continue
                if any(isinstance(d, ast.Name) and d.id in ("property", "staticmethod", "classmethod") for d in st.decorator_list):
                    continue
                self.functions[f"{self.file}::{self.cls}.{st.name}"] = self.loader.sha(self.file, f"{self.cls}.{st.name}")
                b = opsmod.bindings().get(st.name)
                self.alias[st.name] = st.name
                if isinstance(b, ast.Assign) and isinstance(b.value, ast.Name) and isinstance(opsmod.bindings().get(b.value.id), ast.FunctionDef):
                    self.alias[st.name] = b.value.id  # ops.<name> is an alias of another ops function
                elif not isinstance(b, ast.FunctionDef):
                    self.notes.append(f"{self.cls}.{st.name}: no function ops.{st.name} (method has no piped counterpart of the same name)")
                    continue
                for shape in shapes_of(st):
                    try:
                        paths = explore(lambda ctx, _n=st.name, _s=shape: self.run_shape(ctx, _n, _s), max_paths=200)
                    except Unsupported as e:
                        oid_ = f"{self.file}::{self.cls}.{st.name}/shape[{shape[0]}+{','.join(sorted(shape[1]))}]"
                        # the method does something the interpreter does not follow (it calls a library function on its arguments, ...): what can
                        # still be read off its text is WHICH operators it pipes - if ops.<its own name> is not among them, it is not that operator
                        piped = sorted({n.func.attr for n in ast.walk(st) if isinstance(n, ast.Call) and isinstance(n.func, ast.Attribute)
                                        and isinstance(n.func.value, ast.Name) and n.func.value.id in ("ops", "operators", "_ops")})
                        want = {st.name, self.alias.get(st.name, st.name)}
                        if piped and not (set(piped) & want):
                            self.results.append(Result(oid_ + "/same-operator", "refuted", "forwarding (AST)", {}, [],
                                                       f"the method pipes ops.{', ops.'.join(piped)} and never ops.{st.name} (and what it does to its arguments "
                                                       f"first is outside the interpreter: {e})", 0.0, "forward"))
                            continue
                        self.results.append(Result(oid_, "unsupported", "", {}, [], str(e), 0.0, "forward"))
                        continue
                    for p in paths:
                        self.results.extend(p.results)
                        self.notes.extend(p.notes)
        except Unsupported as e:
            self.unsupported = str(e)
        self.seconds = time.time() - t0
        return self


def run_unit(desc):
    h = ForwardHarness(desc["file"], desc["cls"]).run()
    res = []
    for r in h.results:
        d = r.as_dict()
        if d["verdict"] == "unsupported":
            d["verdict"] = "unknown"
        res.append(d)
    return {
        "unit": f"{desc['file']}::{desc['cls']}",
        "kind": "K6 forwarding",
        "functions": h.functions,
        "results": res,
        "unsupported": h.unsupported,
        "notes": sorted(set(h.notes))[:60],
        "spec_validation": [],
        "bounded": [],
        "replayable": {"runner": "fwdrun.py", "module": desc["file"], "name": desc["cls"]},
    }
