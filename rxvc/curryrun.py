"""Native stand-in / replay for the curry_flip contract (bounded: 0..3 positional arguments, with / without keyword arguments, a raising
function, two interleaved applications).   usage: curryrun.py replay - curry_flip '<json opts>'"""
from __future__ import annotations

import itertools
import json
import os
import sys

VERIF = os.path.dirname(os.path.dirname(os.path.abspath(__file__)))
REPO = os.environ.get("RXVC_REPO", "/repo")
if REPO not in sys.path:
    sys.path.insert(0, REPO)


def run_case(npos, kw, raises):
    from reactivex.internal.curry import curry_flip
    log = []

    class Boom(Exception):
        pass

    def fun(*a, **k):
        log.append((a, dict(k)))
        if raises:
            raise Boom()
        return ("r", len(log))
    cf = curry_flip(fun)
    if log:
        return "decorating called the function"
    args = tuple(f"a{i}" for i in range(npos))
    kwargs = {"key": "k"} if kw else {}
    w1 = cf(*args, **kwargs)
    w2 = cf("other")
    if log:
        return "binding the arguments called the function"
    try:
        r = w1("x")
        if raises:
            return "the function's exception did not propagate"
        if r != ("r", 1):
            return f"returned {r!r}"
    except Boom:
        if not raises:
            return "raised"
    if log != [(("x",) + args, kwargs)]:
        return f"called with {log!r}, expected x, then {args!r}, {kwargs!r}"
    del log[:]
    raises = False
    w2("y")
    w1("y")
    if log != [(("y", "other"), {}), (("y",) + args, kwargs)]:
        return f"applications are not independent: {log!r}"
    return None


def main(argv):
    opts = json.loads(argv[3]) if len(argv) > 3 else {}
    n, found = 0, None
    for npos, kw, raises in itertools.product(range(4), (False, True), (False, True)):
        n += 1
        try:
            r = run_case(npos, kw, raises)
        except Exception as e:  # noqa: BLE001
            r = f"the case raised {e!r}"
        if r:
            found = {"case": {"positional": npos, "keyword": kw, "raises": raises}, "disagreement": r}
            break
    res = {"cases": n, "found": [found] if found else []}
    if found and "replay_path" in opts:
        os.makedirs(os.path.dirname(opts["replay_path"]), exist_ok=True)
        with open(opts["replay_path"], "w") as f:
            f.write(f'#!/venv/bin/python\n"""Replay of a violation of property {opts.get("prop", "C44")} (curry_flip).\nobligation: {opts.get("oid", "?")}\n'
                    f'case: {found["case"]}\n{found["disagreement"]}\nExit 1 when it reproduces on the tree under RXVC_REPO (default /repo)."""\n'
                    f'import sys\nsys.path.insert(0, {VERIF!r})\nfrom rxvc import curryrun\nr = curryrun.run_case({found["case"]["positional"]}, {found["case"]["keyword"]}, {found["case"]["raises"]})\n'
                    f'print(r)\nsys.exit(1 if r else 0)\n')
        res["replay"] = opts["replay_path"]
    print(json.dumps(res))


if __name__ == "__main__":
    main(sys.argv[1:])
