"""C28 / C29: function contracts with loop invariants for the virtual-time schedulers.

The REAL methods of VirtualTimeScheduler (start, advance_to, advance_by, sleep, stop, schedule*,
inherited by TestScheduler and HistoricalScheduler), ScheduledItem and PriorityQueue are executed
symbolically.  The run loops of `start` / `advance_to` are cut at a loop invariant: from an
ARBITRARY scheduler state satisfying it (clock, enabled flag, any queue contents, any spinning
count) one iteration is executed and must satisfy the per-iteration clauses; so they hold for
every iteration of every run, however many actions are queued and whatever they schedule or cancel.

Queue view (PriorityQueue contract, proved below against the assumed heapq contract): a sequence
sorted by (duetime, insertion count); `peek`/`dequeue` give its head, `enqueue` stamps the next
count, nothing else changes an entry's position.  Time is integer ticks (A-time: datetime/timedelta
arithmetic is exact; float<->datetime conversion is C36's business); numeric and datetime clocks
are the two values of `isinstance(self._clock, datetime)`.

Per-iteration clauses (C28): the invoked item is the head of the queue view; it is invoked iff it is
not cancelled; it is invoked outside the lock; clock' = due if due > clock else >= clock (never
backwards); exactly that one entry left the queue and nothing was re-stamped; advance_to additionally:
only items with due <= target, clock <= target throughout and == target at the end, and a head that
is not yet due leaves the queue untouched; sleep moves the clock and runs nothing.
C29: every iteration that does not leave the loop removes one entry before calling out (so a finite
schedule drains), no path raises or acquires the non-reentrant lock twice, and start()/advance_to
end with the scheduler disabled so it can be started again.
"""
from __future__ import annotations

import ast
import time

import z3

from . import natives, smt
from .interp import NOTSET, Env, Interp, World, explore, _Break, _Continue
from .loader import Loader, all_functions
from .refine import Result
from .values import (
    SV,
    BoolSV,
    BoundMethod,
    Closure,
    IntSV,
    ListObj,
    Native,
    NativeClass,
    Obj,
    Opaque,
    PathEnd,
    PyExc,
    Unsupported,
)

VFILE = "reactivex/scheduler/virtualtimescheduler.py"
QFILE = "reactivex/internal/priorityqueue.py"
IFILE = "reactivex/scheduler/scheduleditem.py"


class Deadlock(Exception):
    pass


class VtsWorld(World):
    def __init__(self, h):
        super().__init__()
        self.h = h
        self.depth = {}
        self.log = []

    def enter(self, it, o):
        if o.kind == "lock":
            d = self.depth.get(o.name, 0)
            if d > 0 and not o.attrs.get("reentrant", True):
                raise Deadlock(o.name)
            self.depth[o.name] = d + 1
            return o
        return super().enter(it, o)

    def exit(self, it, o):
        if o.kind == "lock":
            self.depth[o.name] -= 1
            return
        return super().exit(it, o)

    def truthy(self, it, o):
        if o.kind == "pq":
            return z3.Length(o.attrs["view"]) > 0
        return True

    def call(self, it, o, method, args, kwargs):
        h = self.h
        if o.kind == "pq":
            return h.pq_call(it, o, method, args)
        if o.kind == "callback":
            self.log.append(("action", o.name, h.clock_term(it), dict(self.depth)))
            # a user action may schedule and cancel: the queue view is arbitrary afterwards; it may also sleep(): the clock may have
            # moved forward (never backwards: sleep's own contract)
            h.havoc_queue(it, "after-action")
            if getattr(h, "actions_may_sleep", False) and isinstance(h.obj, Obj):
                c0 = h.clock_term(it)
                h.obj.fields["_clock"] = it.ctx.fresh("clock_after_action", "int")
                it.ctx.assume(h.clock_term(it) >= c0)
            return None
        if o.kind == "logger":
            return None
        if o.kind == "lock":
            return None
        return super().call(it, o, method, args, kwargs)

    def current_thread(self, it):
        return Opaque("thread", "T")


class VtsHarness:
    def __init__(self, loader=None):
        self.loader = loader or Loader()
        self.results = []
        self.unsupported = None
        self.functions = {}

    def rec(self, ctx, oid, goal, detail=""):
        t0 = time.time()
        if isinstance(goal, bool):
            goal = z3.BoolVal(goal)
        v, m, b = smt.prove(ctx.pc, goal)
        ctx.results.append(Result(oid, v, b, smt.model_to_dict(m), list(ctx.branch_log), detail, time.time() - t0, "post"))

    def fail(self, ctx, oid, detail):
        v, m, b = smt.check_sat(ctx.pc)
        if v == "unsat":
            raise PathEnd()
        ctx.results.append(Result(oid, "refuted" if v == "sat" else "unknown", b, smt.model_to_dict(m), list(ctx.branch_log), detail, 0.0, "post"))

    # -- models --------------------------------------------------------------------------------
    def new_item(self, it, tag):
        """an arbitrary queued ScheduledItem"""
        ctx = it.ctx
        cls = it.module_get("reactivex.scheduler.scheduleditem", "ScheduledItem")
        sad = it.module_get("reactivex.disposable.singleassignmentdisposable", "SingleAssignmentDisposable")
        o = Obj(cls)
        d = Obj(sad)
        d.fields.update({"is_disposed": ctx.fresh(f"{tag}_cancelled", "bool"), "current": None,
                         "lock": Opaque("lock", f"{tag}.sad.lock", reentrant=True)})
        o.fields.update({"scheduler": self.obj, "state": ctx.fresh(f"{tag}_state", "val"), "action": Opaque("callback", f"action_{tag}"),
                         "duetime": ctx.fresh(f"{tag}_due", "int"), "disposable": d})
        return o

    def havoc_queue(self, it, tag):
        q = self.q
        q.attrs["view"] = it.ctx.fresh(f"view_{tag}", "seq").t
        q.attrs["head"] = None
        q.attrs["count"] = it.ctx.fresh(f"count_{tag}", "int")
        q.attrs["version"] = q.attrs.get("version", 0) + 1

    def head(self, it):
        q = self.q
        if q.attrs.get("head") is None:
            item = self.new_item(it, f"head{q.attrs.get('version', 0)}")
            t = z3.Const(f"entry_{q.attrs.get('version', 0)}", smt.Val)
            rest = it.ctx.fresh("queue_rest", "seq").t
            it.ctx.assume(q.attrs["view"] == z3.Concat(z3.Unit(t), rest))
            q.attrs["head"] = (item, t, rest)
        return q.attrs["head"]

    def pq_call(self, it, q, method, args):
        w = self.w
        if method == "__len__":
            return IntSV(z3.Length(q.attrs["view"]))
        if method in ("peek", "dequeue"):
            if not it.ctx.branch(z3.Length(q.attrs["view"]) > 0, "queue non-empty"):
                raise PyExc(it.make_exc("IndexError", "empty queue"))
            item, t, rest = self.head(it)
            w.log.append((method, item))
            if method == "dequeue":
                q.attrs["view"] = rest
                q.attrs["head"] = None
                q.attrs["version"] = q.attrs.get("version", 0) + 1
            return item
        if method == "enqueue":
            item = args[0]
            w.log.append(("enqueue", item))
            f = z3.Function("pq_insert", smt.SeqVal, smt.Val, z3.IntSort(), smt.SeqVal)
            q.attrs["view"] = f(q.attrs["view"], it.to_val(item), it.to_int(q.attrs["count"]))
            q.attrs["count"] = IntSV(it.to_int(q.attrs["count"]) + 1)
            q.attrs["head"] = None
            q.attrs["version"] = q.attrs.get("version", 0) + 1
            return None
        raise Unsupported(f"PriorityQueue.{method}")

    def clock_term(self, it):
        return it.to_int(self.obj.fields["_clock"])

    def hook(self, it, f, args, kwargs):
        fn = f.func if isinstance(f, BoundMethod) else f
        if isinstance(fn, Closure) and fn.qualname in ("Scheduler.to_datetime", "Scheduler.to_seconds", "Scheduler.to_timedelta"):
            a = list(args)
            if isinstance(f, BoundMethod) and len(a) == 0:
                raise Unsupported("time conversion without argument")
            v = a[-1] if a else kwargs.get("value")
            if isinstance(v, float) and v == int(v):
                v = int(v)
            # A-time: exact conversions between representations of the same instant / span - WHICH representation comes out is kept as a tag
            rep = {"Scheduler.to_datetime": "datetime", "Scheduler.to_seconds": "num", "Scheduler.to_timedelta": "span"}[fn.qualname]
            try:
                return SV(it.to_int(v), "int", tag=rep)
            except Unsupported:
                return v
        return NOTSET

    def on_attr_write(self, it, obj, name, old, new):
        """the clock keeps its representation: a tick clock stays a number, a datetime clock a datetime (what is known about the value that is
        stored comes from the conversion that produced it: to_seconds / to_datetime, and instant +- span)"""
        obj.fields[name] = new
        if obj is self.obj and name == "_clock":
            tg = getattr(new, "tag", None)
            if (tg == "datetime" and not self.is_datetime) or (tg == "num" and self.is_datetime):
                self.clock_rep_breaks.append(f"a {'number of seconds' if tg == 'num' else 'datetime'} is stored into the "
                                             f"{'datetime' if self.is_datetime else 'tick (numeric)'} clock")

    # -- environment -------------------------------------------------------------------------------
    def setup(self, ctx):
        w = self.w = VtsWorld(self)
        it = Interp(self.loader, ctx, w)
        it.call_hook = self.hook
        it.attr_write_hook = self.on_attr_write
        self.clock_rep_breaks = []
        self.actions_may_sleep = True
        self.clock_at_loop_exit = None
        self.loop_entered = False
        self.is_datetime = ctx.choose(2, "datetime_clock") == 0
        base_isinstance = it.externals["builtins.isinstance"]

        def my_isinstance(it_, a, k):
            cls = a[1]
            if getattr(cls, "name", None) == "datetime" and isinstance(cls, NativeClass):
                return self.is_datetime
            if getattr(cls, "name", None) == "timedelta" and isinstance(cls, NativeClass):
                return False
            return base_isinstance.fn(it_, a, k)
        it.externals["builtins.isinstance"] = Native("isinstance", my_isinstance)
        obj = it.externals["builtins.object"]
        it.externals["datetime.datetime"] = NativeClass("datetime", [obj], None)
        it.externals["datetime.timedelta"] = Native("timedelta", lambda it_, a, k: 1)
        cls = it.module_get("reactivex.scheduler.virtualtimescheduler", "VirtualTimeScheduler")
        self.cls = cls
        o = self.obj = Obj(cls)
        self.q = Opaque("pq", "queue")
        self.havoc_queue(it, "0")
        o.fields.update({"_clock": ctx.fresh("clock", "int"), "_is_enabled": ctx.fresh("enabled", "bool"),
                         "_lock": Opaque("lock", "vts._lock", reentrant=False), "_queue": self.q})
        it.loop_contracts = {("VirtualTimeScheduler.start", 0): {"name": "start"},
                             ("VirtualTimeScheduler.advance_to", 0): {"name": "advance_to"}}
        it.on_loop = self.on_loop
        self.loop_info = None
        return it

    def on_loop(self, it, st, env, key, lc, iterable=None):
        """cut the run loop at its invariant: arbitrary state, one iteration"""
        ctx = it.ctx
        w = self.w
        name = lc["name"]
        uid = f"{VFILE}::VirtualTimeScheduler.{name}"
        self.loop_entered = True
        # the invariant holds on entry: lock free
        self.rec(ctx, uid + "/loop/entry/lock-free", all(d == 0 for d in w.depth.values()))
        entry_clock = self.clock_term(it)
        # arbitrary iteration
        self.havoc_queue(it, "loop")
        self.obj.fields["_clock"] = ctx.fresh("clock_i", "int")
        self.obj.fields["_is_enabled"] = ctx.fresh("enabled_i", "bool")
        ctx.assume(self.clock_term(it) >= entry_clock)
        e = env.lookup_env("spinning")
        if e is not None:
            sp = ctx.fresh("spinning_i", "int")
            ctx.assume(sp.t >= 0)
            e.vars["spinning"] = sp
        target = None
        if name == "advance_to":
            target = it.to_int(it.lookup(env, "dt"))
            # (no invariant "clock <= target": an action may have slept past the target - the LOOP never moves the clock past it)
        clock0 = self.clock_term(it)
        view0 = self.q.attrs["view"]
        count0 = it.to_int(self.q.attrs["count"])
        w.log.clear()
        self.loop_info = {"name": name, "target": target}

        def exit_is_legitimate(how):
            """the loop may only be left when disabled, drained, or (advance_to) the head is later than the target"""
            en = it.truth_term(self.obj.fields["_is_enabled"])
            en = z3.BoolVal(en) if isinstance(en, bool) else en
            if ctx.branch(z3.And(en, z3.Length(self.q.attrs["view"]) > 0), "enabled and items pending at loop exit"):
                if name == "start":
                    self.fail(ctx, uid + f"/loop/exit-{how}/only-when-disabled-or-drained",
                              "leaves the run loop while enabled with items still queued: due actions are left un-run")
                else:
                    item, _, _ = self.head(it)
                    self.rec(ctx, uid + f"/loop/exit-{how}/only-when-head-is-later-than-target",
                             it.to_int(item.fields["duetime"]) > target,
                             detail="leaves the loop although the head of the queue is due at or before the target")
            else:
                self.rec(ctx, uid + f"/loop/exit-{how}/disabled-or-drained", True)

        if not it.truth(it.eval(st.test, env), "run-loop condition"):
            exit_is_legitimate("by-condition")
            self.clock_at_loop_exit = self.clock_term(it)
            it.exec_block(st.orelse, env)
            return
        try:
            it.exec_block(st.body, env)
        except _Break:
            exit_is_legitimate("by-break")
            # leaves the loop: nothing was invoked, the queue is untouched
            self.rec(ctx, uid + "/loop/exit/nothing-invoked", not any(ev[0] == "action" for ev in w.log))
            self.rec(ctx, uid + "/loop/exit/queue-untouched",
                     z3.And(self.q.attrs["view"] == view0, it.to_int(self.q.attrs["count"]) == count0),
                     detail="an item that is not yet due must stay where it is (same insertion stamp)")
            self.rec(ctx, uid + "/loop/exit/clock-unchanged", self.clock_term(it) == clock0)
            if name == "advance_to":
                item_peeked = [ev[1] for ev in w.log if ev[0] == "peek"]
                en = it.truth_term(self.obj.fields["_is_enabled"])
                en = z3.BoolVal(en) if isinstance(en, bool) else en
                if item_peeked:
                    self.rec(ctx, uid + "/loop/exit/only-when-head-is-later-than-target",
                             it.to_int(item_peeked[0].fields["duetime"]) > target)
            self.clock_at_loop_exit = self.clock_term(it)
            return
        except _Continue:
            pass
        # one full iteration
        deq = [ev[1] for ev in w.log if ev[0] == "dequeue"]
        enq = [ev for ev in w.log if ev[0] == "enqueue"]
        acts = [ev for ev in w.log if ev[0] == "action"]
        ok_shape = len(deq) == 1 and not enq
        self.rec(ctx, uid + "/iteration/removes-exactly-the-head", ok_shape,
                 detail=f"dequeues={len(deq)} enqueues={len(enq)} (C29: every non-exiting iteration consumes one entry; C28: no re-stamping)")
        if not ok_shape:
            raise PathEnd()
        item = deq[0]
        due = it.to_int(item.fields["duetime"])
        cancelled = it.truth_term(item.fields["disposable"].fields["is_disposed"])
        cancelled = z3.BoolVal(cancelled) if isinstance(cancelled, bool) else cancelled
        if acts:
            name_a, clock_at, depth_at = acts[0][1], acts[0][2], acts[0][3]
            self.rec(ctx, uid + "/iteration/invokes-only-the-head", len(acts) == 1 and name_a == item.fields["action"].name)
            self.rec(ctx, uid + "/iteration/never-invokes-a-cancelled-item", z3.Not(cancelled))
            self.rec(ctx, uid + "/iteration/invokes-outside-the-lock", all(d == 0 for d in depth_at.values()))
            self.rec(ctx, uid + "/iteration/clock-is-due-time-if-later", z3.Implies(due > clock0, clock_at == due))
            self.rec(ctx, uid + "/iteration/clock-never-backwards", clock_at >= clock0)
            if name == "advance_to":
                self.rec(ctx, uid + "/iteration/only-items-due-by-target", due <= target)
                self.rec(ctx, uid + "/iteration/the-loop-moves-the-clock-only-to-a-due-time-within-the-target", z3.Or(clock_at == clock0, z3.And(clock_at == due, due <= target)))
        else:
            self.rec(ctx, uid + "/iteration/skips-only-cancelled-items", cancelled)
            self.rec(ctx, uid + "/iteration/clock-never-backwards", self.clock_term(it) >= clock0)
            if name == "advance_to":
                self.rec(ctx, uid + "/iteration/the-loop-moves-the-clock-only-to-a-due-time-within-the-target",
                         z3.Or(self.clock_term(it) == clock0, z3.And(self.clock_term(it) == due, due <= target)))
        self.rec(ctx, uid + "/iteration/lock-free-at-loop-head", all(d == 0 for d in w.depth.values()))
        self.rec(ctx, uid + "/iteration/the-clock-keeps-its-representation", not self.clock_rep_breaks, detail="; ".join(self.clock_rep_breaks[:3]))
        raise PathEnd()

    # -- scenarios ---------------------------------------------------------------------------------
    def run_method(self, ctx, mname):
        it = self.setup(ctx)
        o = self.obj
        uid = f"{VFILE}::VirtualTimeScheduler.{mname}"
        clock0 = self.clock_term(it)
        view0 = self.q.attrs["view"]
        enabled0 = it.truth_term(o.fields["_is_enabled"])
        args = []
        if mname in ("advance_to", "advance_by", "sleep"):
            args = [ctx.fresh("t", "int")]
        if mname in ("schedule", "schedule_relative", "schedule_absolute"):
            act = Opaque("callback", "new_action")
            args = ([ctx.fresh("due", "int")] if mname != "schedule" else []) + [act]
        m = it.class_lookup(self.cls, mname)
        raised = None
        res = None
        try:
            res = it.call(BoundMethod(o, m), args, {})
        except Deadlock as d:
            self.fail(ctx, uid + "/no-self-deadlock", f"acquires the non-reentrant {d} while holding it: the call never returns")
            return
        except PyExc as e:
            raised = e.value
        w = self.w
        acts = [ev for ev in w.log if ev[0] == "action"]
        clock1 = self.clock_term(it)
        rname = raised.cls.name if isinstance(raised, Obj) else None
        self.rec(ctx, uid + "/the-clock-keeps-its-representation", not self.clock_rep_breaks, detail="; ".join(self.clock_rep_breaks[:3]))
        if mname in ("start",):
            self.rec(ctx, uid + "/returns-normally", raised is None, detail=f"raised {rname}")
        if mname in ("start", "advance_to", "advance_by"):
            if raised is None and not (isinstance(enabled0, bool) and enabled0):
                # either it was already running (nothing to do) or it ends disabled, on EVERY way out (also the ones that
                # return before the run loop): a drained or idle scheduler can be started again
                en1 = it.truth_term(o.fields["_is_enabled"])
                en1 = z3.BoolVal(en1) if isinstance(en1, bool) else en1
                e0 = z3.BoolVal(enabled0) if isinstance(enabled0, bool) else enabled0
                self.rec(ctx, uid + "/ends-disabled-unless-already-running", z3.Or(e0, z3.Not(en1)))
        if mname in ("start", "advance_to", "advance_by") and raised is None:
            # re-entrancy: an action may call start / advance_to / advance_by on the scheduler that is running it; the run in progress goes on
            # as if the call had not been made - still enabled, clock and queue untouched, nothing run by the nested call
            en1 = it.truth_term(o.fields["_is_enabled"])
            en1 = z3.BoolVal(en1) if isinstance(en1, bool) else en1
            e0 = z3.BoolVal(enabled0) if isinstance(enabled0, bool) else enabled0
            self.rec(ctx, uid + "/a-call-made-while-a-run-is-in-progress-changes-nothing",
                     z3.Implies(e0, z3.And(en1, clock1 == clock0, z3.BoolVal(not acts), self.q.attrs["view"] == view0)),
                     detail="the nested call returned with the running flag cleared / the clock moved / an action run / the queue changed: the run in progress ends early or skips work")
        if mname == "advance_to":
            t = it.to_int(args[0])
            if raised is not None:
                self.rec(ctx, uid + "/raises-only-when-target-in-the-past", clock0 > t, detail=f"raised {rname}")
            else:
                self.rec(ctx, uid + "/never-accepts-a-past-target", clock0 <= t)
                e0 = z3.BoolVal(enabled0) if isinstance(enabled0, bool) else enabled0
                ce = getattr(self, "clock_at_loop_exit", None)
                if ce is not None:
                    # it ran its loop: the clock ends at the target - or where an action left it, if that is later (never backwards)
                    self.rec(ctx, uid + "/clock-ends-at-target-or-where-an-action-left-it-if-later", clock1 == z3.If(ce > t, ce, t),
                             detail="after the run loop the clock is the target, unless an action moved it past the target (sleep): then it stays there")
                    self.rec(ctx, uid + "/clock-never-backwards", z3.And(clock1 >= clock0, clock1 >= ce))
                elif getattr(self, "loop_entered", False):
                    # it returned from INSIDE the run loop (neither the loop condition nor a break): the epilogue - scheduler disabled, clock at
                    # the target unless an action left it later - must hold all the same
                    en1_ = it.truth_term(o.fields["_is_enabled"])
                    en1_ = z3.BoolVal(en1_) if isinstance(en1_, bool) else en1_
                    self.rec(ctx, uid + "/a-return-from-inside-the-run-loop-leaves-what-the-epilogue-leaves (disabled, clock at the target or later)",
                             z3.And(z3.Not(en1_), clock1 >= t, clock1 >= clock0),
                             detail="advance_to returned from inside its loop without the epilogue: the clock is short of the target / the scheduler still enabled")
                else:
                    # returned before the run loop: only because a run is already in progress (the property: advance_to runs exactly the actions
                    # due at or before the target - also when the target IS the current clock)
                    self.rec(ctx, uid + "/returns-without-running-only-when-a-run-is-already-in-progress", e0,
                             detail="advance_to(t) returned at once with the scheduler idle: actions due at or before t (t == clock) stay un-run")
                    self.rec(ctx, uid + "/clock-never-backwards", clock1 >= clock0)
        if mname == "sleep":
            t = it.to_int(args[0])
            self.rec(ctx, uid + "/runs-nothing", not acts)
            self.rec(ctx, uid + "/queue-untouched", self.q.attrs["view"] == view0)
            if raised is None:
                self.rec(ctx, uid + "/clock-moves-by-the-given-time", z3.And(clock1 == clock0 + t, t >= 0))
            else:
                self.rec(ctx, uid + "/raises-only-for-negative-time", t < 0)
        if mname == "stop":
            self.rec(ctx, uid + "/disables", z3.Not(it.truth_term(o.fields["_is_enabled"])) if not isinstance(it.truth_term(o.fields["_is_enabled"]), bool) else not it.truth_term(o.fields["_is_enabled"]))
        if mname in ("schedule", "schedule_relative", "schedule_absolute"):
            enq = [ev[1] for ev in w.log if ev[0] == "enqueue"]
            ok = raised is None and len(enq) == 1 and not acts
            self.rec(ctx, uid + "/enqueues-exactly-one-item-and-runs-nothing", ok)
            if ok:
                item = enq[0]
                due = it.to_int(item.fields["duetime"])
                if mname == "schedule":
                    want = clock0
                elif mname == "schedule_relative":
                    want = clock0 + it.to_int(args[0])
                else:
                    want = it.to_int(args[0])
                self.rec(ctx, uid + "/due-time", due == want)
                self.rec(ctx, uid + "/action-and-scheduler", item.fields["action"] is args[-1] and item.fields["scheduler"] is o)
                self.rec(ctx, uid + "/returns-the-item's-cancellation-handle", res is item.fields["disposable"])
            self.rec(ctx, uid + "/clock-untouched", clock1 == clock0)

    def run_item(self, ctx):
        """ScheduledItem: ordering is by due time; cancel/is_cancelled/invoke go through its disposable"""
        self.w = VtsWorld(self)
        it = Interp(self.loader, ctx, self.w)
        self.obj = Opaque("scheduler", "sched")
        a, b = self.new_item(it, "a"), self.new_item(it, "b")
        da, db = it.to_int(a.fields["duetime"]), it.to_int(b.fields["duetime"])
        ca, cb = ctx.fresh("count_a", "int"), ctx.fresh("count_b", "int")
        ctx.assume(ca.t != cb.t)
        uid = f"{IFILE}::ScheduledItem"
        import ast as _ast

        lt = natives.compare(it, _ast.Lt(), (a, ca), (b, cb))
        t = it.truth_term(lt)
        t = z3.BoolVal(t) if isinstance(t, bool) else t
        self.rec(ctx, uid + "/heap-entry-order-is-(duetime,count)-lexicographic",
                 t == z3.Or(da < db, z3.And(da == db, ca.t < cb.t)),
                 detail="(item, count) tuples compare through ScheduledItem.__eq__/__lt__ exactly as (duetime, count)")
        # cancel -> is_cancelled
        it.call(it.get_attr(a, "cancel"), [], {})
        self.rec(ctx, uid + "/cancel-makes-is_cancelled-true", it.truth_term(it.call(it.get_attr(a, "is_cancelled"), [], {})))

    def run_pq(self, ctx, scenario):
        """PriorityQueue against the assumed heapq contract (heappush adds an entry, heappop removes a <-minimum)"""
        w = self.w = VtsWorld(self)
        it = Interp(self.loader, ctx, w)
        pushes, pops = [], []

        def heappush(it_, a, k):
            pushes.append(a[1])
            a[0].items.append(a[1]) if not a[0].symbolic else None
            return None

        def heappop(it_, a, k):
            if not a[0].items:
                raise PyExc(it.make_exc("IndexError", "pop from empty heap"))
            pops.append(1)
            return a[0].items.pop(0)  # the heap contract hands back a minimum; which one is the order obligation above
        it.externals["heapq.heappush"] = Native("heappush", heappush)
        it.externals["heapq.heappop"] = Native("heappop", heappop)
        cls = it.module_get("reactivex.internal.priorityqueue", "PriorityQueue")
        q = it.call(cls, [], {})
        uid = f"{QFILE}::PriorityQueue"
        x, y = Opaque("item", "x"), Opaque("item", "y")
        if scenario == "stamps":
            it.call(it.get_attr(q, "enqueue"), [x], {})
            it.call(it.get_attr(q, "enqueue"), [y], {})
            ok = len(pushes) == 2 and pushes[0][0] is x and pushes[1][0] is y
            self.rec(ctx, uid + "/enqueue-pushes-(item,count)", ok)
            if ok:
                c0, c1 = it.to_int(pushes[0][1]), it.to_int(pushes[1][1])
                self.rec(ctx, uid + "/insertion-counts-strictly-increase", c0 < c1)
            self.rec(ctx, uid + "/len", it.to_int(it.call(it.get_attr(q, "__len__"), [], {})) == 2)
            r = it.call(it.get_attr(q, "peek"), [], {})
            self.rec(ctx, uid + "/peek-is-heap-root-and-does-not-pop", r is x and not pops)
        elif scenario == "clear":
            it.call(it.get_attr(q, "enqueue"), [x], {})
            it.call(it.get_attr(q, "enqueue"), [y], {})
            it.call(it.get_attr(q, "clear"), [], {})
            self.rec(ctx, uid + "/clear-leaves-the-queue-empty", it.to_int(it.call(it.get_attr(q, "__len__"), [], {})) == 0 and not pops)
            n0 = len(pushes)
            it.call(it.get_attr(q, "enqueue"), [y], {})
            r = it.call(it.get_attr(q, "peek"), [], {})
            self.rec(ctx, uid + "/after-clear-the-queue-holds-only-what-is-enqueued-afterwards", len(pushes) == n0 + 1 and r is y
                     and it.to_int(it.call(it.get_attr(q, "__len__"), [], {})) == 1)
        elif scenario == "remove":
            it.call(it.get_attr(q, "enqueue"), [x], {})
            it.call(it.get_attr(q, "enqueue"), [y], {})
            heapified = []
            it.externals["heapq.heapify"] = Native("heapify", lambda it_, a, k: heapified.append(a[0]) and None)
            which = ctx.choose(3, "remove the first / the second / an item that is not queued")
            target = [x, y, Opaque("item", "z")][which]
            r = it.call(it.get_attr(q, "remove"), [target], {})
            left = [e[0] if isinstance(e, tuple) else it.subscript(e, 0) for e in it.get_attr(q, "items").items]
            want = [[y], [x], [x, y]][which]
            self.rec(ctx, uid + "/remove-takes-out-exactly-that-item-and-says-whether-it-was-there", r is (which != 2) and len(left) == len(want)
                     and all(a is b for a, b in zip(left, want)), detail=f"returned {r!r}, left {left!r}")
            self.rec(ctx, uid + "/remove-restores-the-heap-order-when-it-took-something-out", (len(heapified) >= 1) if which != 2 else True)
        else:
            it.call(it.get_attr(q, "enqueue"), [x], {})
            r = it.call(it.get_attr(q, "dequeue"), [], {})
            self.rec(ctx, uid + "/dequeue-pops-the-root-item", r is x and len(pops) == 1)
            # the reset on empty is safe: nothing older remains
            it.call(it.get_attr(q, "enqueue"), [y], {})
            self.rec(ctx, uid + "/count-reset-only-when-empty", len(pushes) == 2)

    def run(self):
        t0 = time.time()
        try:
            for f, c in ((VFILE, "VirtualTimeScheduler"), (QFILE, "PriorityQueue"), (IFILE, "ScheduledItem")):
                node = self.loader.find(f, c)
                for q, n in all_functions(node, c):
                    self.functions[f"{f}::{q}"] = self.loader.sha(f, q)
            for m in (() if getattr(self, "queue_only", False) else
                      ("start", "advance_to", "advance_by", "sleep", "stop", "schedule", "schedule_relative", "schedule_absolute")):
                for p in explore(lambda ctx, _m=m: self.run_method(ctx, _m)):
                    self.results.extend(p.results)
            for p in explore(self.run_item):
                self.results.extend(p.results)
            for sc in ("stamps", "dequeue", "clear", "remove"):
                for p in explore(lambda ctx, _s=sc: self.run_pq(ctx, _s)):
                    self.results.extend(p.results)
        except Unsupported as e:
            self.unsupported = str(e)
        except PyExc as e:
            self.unsupported = f"interpreter-level exception: {e.value!r} {getattr(e.value, 'fields', '')}"
        self.seconds = time.time() - t0
        return self


def run_unit(desc):
    if desc.get("mode") == "queue":
        # the queue contracts alone (callee contracts of the trampoline and of the event-loop schedulers): PriorityQueue hands
        # back entries in (due time, insertion count) order, ScheduledItem compares by due time and cancels through its disposable
        h = VtsHarness()
        h.queue_only = True
        h.run()
        fn = {k: v for k, v in h.functions.items() if VFILE not in k}
        return {"unit": f"{QFILE}::PriorityQueue+ScheduledItem", "kind": "function contracts of the scheduler queue (against the assumed heapq contract)",
                "functions": fn, "results": [r.as_dict() for r in h.results], "unsupported": h.unsupported, "spec_validation": [], "bounded": []}
    h = VtsHarness().run()
    prop = desc["prop"]
    res = [r.as_dict() for r in h.results]
    # (C29 - "return after running every due action" - rests on the same clauses as C28: an advance_to that moves the clock by itself, or
    # returns early, leaves due actions un-run; all obligations are reported under both properties)
    rep = {
        "unit": f"{VFILE}::VirtualTimeScheduler",
        "kind": "function contracts with loop invariants (virtual-time run loops)",
        "functions": h.functions,
        "results": res,
        "unsupported": h.unsupported,
        "spec_validation": [],
        "bounded": [],
        "replayable": {"runner": "vtsrun.py", "module": "-", "name": prop},
    }
    if h.unsupported or desc.get("tier") == "thorough":
        # out of subset (a run loop of another shape): the native schedules against the reference model of virtual time decide, BOUNDED;
        # thorough tier: the same run as a cross-check of the contracts against CPython
        import json
        import os
        from .report import native, VERIF, REPLAY_DIR
        r, err = native([os.path.join(VERIF, "rxvc", "vtsrun.py"), "replay", "-", prop if prop in ("C28", "C29") else "C28",
                         json.dumps({"replay_path": os.path.join(REPLAY_DIR, f"{prop}-standin-virtualtime.py"), "prop": prop,
                                     "oid": rep["unit"] + "/bounded-standin"})], timeout=900)
        st = r if r is not None else {"found": [], "error": err, "cases": 0}
        if h.unsupported:
            rep["standin"] = st
        rep["bounded"].append({"function": rep["unit"], "bound": "vtsrun.py: <= 3 actions with due times in {1,2,3} (+150 same-instant actions, self-rescheduling, one "
                               "cancellation), advance_to / advance_by / sleep / start sequences incl. restart, numeric / test / datetime clocks, against a "
                               "reference model of virtual time, under a hang watchdog", "cases": st.get("cases", 0), "mismatches": len(st.get("found", [])),
                               "role": "stand-in (out of subset)" if h.unsupported else "cross-check against CPython"})
        if not h.unsupported and st.get("found") and all(x["verdict"] == "proved" for x in res):
            rep["crash"] = f"cross-check failed: contracts proved but the native run found {json.dumps(st['found'][0], default=repr)[:500]}"
    return rep
