"""C31 / C34: monitor contracts for EventLoopScheduler (and, through it, NewThreadScheduler / ThreadPoolScheduler),
function contracts for TimeoutScheduler and ImmediateScheduler - discharged on the real code.

EventLoopScheduler is a monitor: its condition's lock protects `_queue` (a priority queue, used through its contract:
peek / dequeue give the entry with the least due time, earlier insertion first among equals - C28's PriorityQueue),
`_ready_list`, `_thread` and the write of `_is_disposed`.  Time is integer ticks (A-time); `now` is an opaque monotone
reading.  Every method is executed as one thread against an ARBITRARY environment: whenever the lock is not held the
other threads may have scheduled, cancelled or disposed (containers re-read, `_is_disposed` may have become true,
`is_cancelled()` of any item may have become true).  Ghost: the RUNNER TOKEN - it exists iff `_thread` is set; it is
minted by the critical section of `_ensure_thread` that finds the slot empty and is given up only by the critical
section of `run` that clears the slot and returns.

  schedule_absolute   disposed: DisposedException, nothing queued, no thread.  Otherwise exactly one ScheduledItem
                      (self, state, action, to_datetime(duetime)); in ONE critical section: appended to the ready list
                      iff due <= now, else enqueued; notify; a thread is started - `thread_factory(self.run)` - iff the slot
                      is empty, and stored in the slot; returns Disposable(item.cancel).
  schedule / schedule_relative   schedule_absolute at `now` / at `now + max(0, duetime)`.
  run, one arbitrary round of the outer loop (cut at its invariant: lock free, local batch empty):
      gather (one critical section): returns at once, invoking nothing, when disposed; an entry leaves `_queue` only by
      dequeue() and only when its due time <= the clock reading of THIS section (never early); ready-list entries are taken
      from the head in submission order;
      execute (lock free): an item is invoked only right after its is_cancelled() answered False, outside the lock,
      items one after the other in batch order;
      idle (one critical section, decision and wait atomic): ready list non-empty -> next round without waiting; queue
      non-empty -> waits at most until the head is due; else exit_if_empty -> clears the slot and returns in that very
      section; else waits for a notification.
  dispose             one critical section: sets the flag, notifies.
  all accesses of the shared fields are under the lock (the flag is also READ without it, by schedule_absolute: benign,
  it only ever goes from False to True).
  NewThreadScheduler.schedule*    a fresh EventLoopScheduler(thread_factory, exit_if_empty=True) and its same-named method;
                                  schedule_absolute = schedule_relative(to_datetime(due) - now).
  TimeoutScheduler.schedule*      exactly one daemon Timer(seconds, f) started (seconds = 0 for schedule / a non-positive
                                  delay), f invokes the action once with (scheduler, state) and keeps its disposable; the
                                  returned disposable cancels that timer.  Timer contract (assumed): f is not called before
                                  `seconds` have passed, and not at all once cancel() returned before that.
  ImmediateScheduler              schedule invokes the action synchronously; schedule_relative raises WouldBlockException
                                  iff the delay is positive, before invoking anything; schedule_absolute = relative(due - now).
"""
from __future__ import annotations

import time

import z3

from . import smt
from .interp import NOTSET, Interp, World, explore, _Break, _Continue
from .loader import Loader, all_functions
from .refine import Result
from .values import SV, BoolSV, BoundMethod, Closure, IntSV, Native, Obj, Opaque, PathEnd, PyExc, Unsupported

EFILE = "reactivex/scheduler/eventloopscheduler.py"
NFILE = "reactivex/scheduler/newthreadscheduler.py"
TFILE = "reactivex/scheduler/timeoutscheduler.py"
IFILE = "reactivex/scheduler/immediatescheduler.py"


class EWorld(World):
    def __init__(self, h):
        super().__init__()
        self.h = h
        self.log = []
        self.depth = 0
        self.clock = None
        self.n = 0
        self.cache = {}   # container name -> {"truth": term, "head": item}

    # -- the clock ----------------------------------------------------------------------------------------
    def now(self, it):
        t = it.ctx.fresh("now", "int")
        if self.clock is not None:
            it.ctx.assume(t.t >= self.clock)
        self.clock = t.t
        self.log.append(("now", t.t, self.depth))
        return t

    # -- the monitor --------------------------------------------------------------------------------------
    def enter(self, it, o):
        if o.kind == "cond":
            if self.depth == 0:
                before = self.h.fields_snapshot()
                self.h.interfere(it)
                self.log.append(("acquire", self.h.fields_snapshot(), before))
            self.depth += 1
            return o
        return super().enter(it, o)

    def exit(self, it, o):
        if o.kind == "cond":
            self.depth -= 1
            if self.depth == 0:
                self.log.append(("release", self.h.fields_snapshot()))
            return
        return super().exit(it, o)

    # -- containers ------------------------------------------------------------------------------------------
    def fresh_item(self, it, tag):
        self.n += 1
        d = it.ctx.fresh(f"due_{tag}", "int")
        return Opaque("si", f"{tag}#{self.n}", duetime=d)

    def head(self, it, c):
        e = self.cache.setdefault(c.name, {})
        if "head" not in e:
            e["head"] = self.fresh_item(it, c.name)
        return e["head"]

    def truthy(self, it, o):
        if o.kind in ("pq", "deque"):
            e = self.cache.setdefault(o.name, {})
            if "truth" not in e:
                e["truth"] = it.ctx.fresh(f"{o.name}_nonempty", "bool").t
            self.log.append(("truth", o.name, e["truth"], self.depth))
            return it.ctx.branch(e["truth"], f"{o.name} non-empty")
        if o.kind == "thread":
            return True
        return True

    def iterate(self, it, v):
        raise Unsupported(f"iteration over {getattr(v, 'kind', type(v).__name__)} {getattr(v, 'name', '')}: the run loop is expected to take entries one by one")

    def invalidate(self, name=None):
        if name is None:
            self.cache.clear()
        else:
            self.cache.pop(name, None)

    def getitem(self, it, o, idx):
        if o.kind == "deque" and idx == 0:
            return self.head(it, o)
        raise Unsupported(f"index {idx!r} on {o.kind}")

    def getattr(self, it, o, name):
        if o.kind == "si" and name == "duetime":
            return o.attrs["duetime"]
        return super().getattr(it, o, name)

    def call(self, it, o, method, args, kwargs):
        ctx = it.ctx
        if o.kind == "pq":
            if method == "peek":
                item = self.head(it, o)
                self.log.append(("peek", item, self.depth))
                return item
            if method == "dequeue":
                item = self.head(it, o)
                self.log.append(("dequeue", item, self.depth))
                self.invalidate(o.name)
                return item
            if method == "enqueue":
                self.log.append(("enqueue", args[0], self.depth))
                self.invalidate(o.name)
                return None
            if method == "__len__":
                raise Unsupported("len(queue)")
        if o.kind == "deque":
            if method == "popleft":
                item = self.head(it, o)
                self.log.append(("popleft", o.name, item, self.depth))
                self.invalidate(o.name)
                return item
            if method == "append":
                self.log.append(("append", o.name, args[0], self.depth))
                self.invalidate(o.name)
                return None
            if method == "__getitem__":
                return self.getitem(it, o, args[0])
        if o.kind == "si":
            if method == "is_cancelled":
                t = ctx.fresh("cancelled", "bool").t
                self.log.append(("is_cancelled", o, t, self.depth))
                return BoolSV(t)
            if method == "invoke":
                self.log.append(("invoke", o, self.depth))
                return None
        if o.kind == "cond":
            if method == "wait":
                self.log.append(("wait", args[0] if args else None, self.depth))
                # the lock is released while waiting: the others run
                self.invalidate()
                self.h.interfere(it, waiting=True)
                # Condition.wait: True when notified, False when a timed wait ran out - either can happen
                if args and ctx.choose(2, "the wait timed out") == 1:
                    return False
                return True
            if method in ("notify", "notify_all"):
                self.log.append(("notify", self.depth))
                return None
        if o.kind == "callback" and o.name == "thread_factory":
            self.n += 1
            t = Opaque("thread", f"thread#{self.n}", target=args[0] if args else None)
            self.log.append(("thread_new", t, self.depth))
            return t
        if o.kind == "thread":
            self.log.append(("thread." + method, o, self.depth))
            return None
        if o.kind == "callback":
            v = ctx.fresh("ret", "val")
            self.log.append(("action", o, list(args), dict(kwargs), self.depth))
            return Opaque("disposable", "returned-by-action") if o.name == "action" else v
        if o.kind == "timer":
            self.log.append(("timer." + method, o, self.depth))
            return None
        if o.kind == "disposable":
            self.log.append(("dispose", o, self.depth))
            return None
        if o.kind in ("lock", "logger"):
            return None
        return super().call(it, o, method, args, kwargs)

    def setattr(self, it, o, name, value):
        if o.kind == "timer":
            self.log.append(("timer.set", o, name, value))
            o.attrs[name] = value
            return
        return super().setattr(it, o, name, value)


class EvHarness:
    def __init__(self, loader=None):
        self.loader = loader or Loader()
        self.results = []
        self.unsupported = None
        self.functions = {}
        self.mode = None

    def rec(self, ctx, oid, goal, detail=""):
        t0 = time.time()
        if isinstance(goal, bool):
            goal = z3.BoolVal(goal)
        v, m, b = smt.prove(ctx.pc, goal)
        ctx.results.append(Result(oid, v, b, smt.model_to_dict(m), list(ctx.branch_log), detail, time.time() - t0, "post"))

    # -- environment ------------------------------------------------------------------------------------------
    def hook(self, it, f, args, kwargs):
        fn = f.func if isinstance(f, BoundMethod) else f
        q = getattr(fn, "qualname", None) if isinstance(fn, Closure) else None
        if q in ("Scheduler.to_seconds", "Scheduler.to_timedelta", "Scheduler.to_datetime"):
            return args[-1] if args else kwargs.get("value")
        if q == "Scheduler.now" or (q or "").endswith(".now"):
            return self.w.now(it)
        if q == "Scheduler.invoke_action":
            a = ([f.self_val] + list(args)) if isinstance(f, BoundMethod) else list(args)
            self.w.log.append(("invoke_action", a, dict(kwargs), self.w.depth))
            return Opaque("disposable", "returned-by-action")
        return NOTSET

    def setup(self, ctx, clsmod="reactivex.scheduler.eventloopscheduler", clsname="EventLoopScheduler"):
        w = self.w = EWorld(self)
        it = self.it = Interp(self.loader, ctx, w)
        it.call_hook = self.hook
        it.externals["collections.deque"] = Native("deque", lambda it_, a, k: Opaque("deque", "ready"))
        it.externals["datetime.timedelta"] = Native("timedelta", lambda it_, a, k: 0 if (a == [0] or (not a and not k)) else (_ for _ in ()).throw(Unsupported("timedelta(...)")))
        cls = it.module_get(clsmod, clsname)
        o = self.obj = Obj(cls)
        if clsname == "EventLoopScheduler":
            o.fields.update({"_is_disposed": ctx.fresh("disposed0", "bool"), "_thread_factory": Opaque("callback", "thread_factory"),
                             "_thread": None, "_condition": Opaque("cond", "cond"), "_queue": Opaque("pq", "queue"),
                             "_ready_list": Opaque("deque", "ready_list"), "_exit_if_empty": ctx.fresh("exit_if_empty", "bool")})
        return it, o

    def fields_snapshot(self):
        o = self.obj
        return {"_is_disposed": o.fields.get("_is_disposed"), "_thread": o.fields.get("_thread")}

    def interfere(self, it, waiting=False):
        """the lock is free: the other threads may have run any of their critical sections"""
        ctx = it.ctx
        o = self.obj
        self.w.invalidate("queue")
        self.w.invalidate("ready_list")
        d0 = it.truth_term(o.fields["_is_disposed"])
        d0 = z3.BoolVal(d0) if isinstance(d0, bool) else d0
        d1 = ctx.fresh("disposed", "bool")
        ctx.assume(z3.Implies(d0, d1.t))  # the flag only ever goes up
        o.fields["_is_disposed"] = d1
        if self.mode == "client":
            # a scheduling thread does not own the runner slot: the runner may have come or gone
            o.fields["_thread"] = Opaque("thread", "some-runner") if ctx.choose(2, "a runner thread exists") == 1 else None

    @staticmethod
    def same_fields(a, b):
        out = []
        for k in a:
            x, y = a[k], b[k]
            if isinstance(x, SV) and isinstance(y, SV):
                out.append(x.t == y.t)
            else:
                out.append(x is y or (isinstance(x, bool) and isinstance(y, bool) and x == y))
        return z3.And(*[z3.BoolVal(t) if isinstance(t, bool) else t for t in out]) if out else True

    def writes_under_lock(self, ctx, uid, first, last):
        """the shared fields change only inside critical sections"""
        log = self.w.log
        prev = first
        ok = []
        for ev in log:
            if ev[0] == "acquire":
                ok.append(self.same_fields(prev, ev[2]))  # as this thread left them (before the others' interference)
            elif ev[0] == "release":
                prev = ev[1]
        ok.append(self.same_fields(prev, last))
        self.rec(ctx, uid + "/shared-fields-written-only-under-the-lock", z3.And(*ok) if ok else True)
        cont = [ev for ev in log if ev[0] in ("truth", "peek", "dequeue", "popleft", "append", "enqueue") and (ev[1] != "ready" if ev[0] in ("truth", "popleft", "append") else True)]
        bad = [ev for ev in cont if ev[-1] == 0]
        self.rec(ctx, uid + "/queue-and-ready-list-touched-only-under-the-lock", not bad, detail=f"{[e[0] for e in bad]}")

    # -- schedule_absolute ---------------------------------------------------------------------------------------
    def run_schedule_absolute(self, ctx):
        it, o = self.setup(ctx)
        self.mode = "client"
        uid = f"{EFILE}::EventLoopScheduler.schedule_absolute"
        action, st0 = Opaque("callback", "action"), ctx.fresh("state", "val")
        due = ctx.fresh("due", "int")
        first = self.fields_snapshot()
        disposed_at_entry = it.truth_term(o.fields["_is_disposed"])
        raised = res = None
        try:
            res = it.call(it.get_attr(o, "schedule_absolute"), [due, action, st0], {})
        except PyExc as e:
            raised = e.value
        log = self.w.log
        queued = [ev for ev in log if ev[0] in ("append", "enqueue")]
        started = [ev for ev in log if ev[0] == "thread.start"]
        if raised is not None:
            self.rec(ctx, uid + "/raises-only-DisposedException-and-only-when-disposed",
                     z3.And(z3.BoolVal(isinstance(raised, Obj) and raised.cls.name == "DisposedException"),
                            disposed_at_entry if not isinstance(disposed_at_entry, bool) else z3.BoolVal(disposed_at_entry)))
            self.rec(ctx, uid + "/disposed/nothing-queued-no-thread", not queued and not started)
            return
        self.rec(ctx, uid + "/not-disposed-at-entry", z3.Not(disposed_at_entry) if not isinstance(disposed_at_entry, bool) else (not disposed_at_entry),
                 detail="returns normally although the scheduler was already disposed when the call began")
        ok = len(queued) == 1
        self.rec(ctx, uid + "/queues-exactly-one-item", ok, detail=f"{[e[0] for e in queued]}")
        if not ok:
            return
        ev = queued[0]
        item = ev[-2]
        good = isinstance(item, Obj) and item.cls.name == "ScheduledItem"
        self.rec(ctx, uid + "/the-item-carries-scheduler-state-action-and-due-time", good and item.fields.get("scheduler") is o
                 and item.fields.get("action") is action and item.fields.get("state") is st0
                 and (isinstance(item.fields.get("duetime"), SV) and item.fields["duetime"].t.eq(due.t)))
        nows = [e for e in log if e[0] == "now" and e[2] > 0]
        sec = [i for i, e in enumerate(log) if e[0] in ("acquire", "release")]
        self.rec(ctx, uid + "/one-critical-section", len(sec) == 2)
        if nows:
            tnow = nows[-1][1]
            if ev[0] == "append":
                self.rec(ctx, uid + "/ready-list-only-when-already-due", due.t <= tnow)
            else:
                self.rec(ctx, uid + "/queue-only-when-due-later", due.t > tnow)
        else:
            self.rec(ctx, uid + "/reads-the-clock-under-the-lock", False)
        self.rec(ctx, uid + "/queued-under-the-lock", ev[-1] > 0)
        self.rec(ctx, uid + "/notifies-under-the-lock", any(e[0] == "notify" and e[1] > 0 for e in log))
        # the runner slot
        acq = [e for e in log if e[0] == "acquire"]
        slot_before = acq[0][1]["_thread"] if acq else None
        news = [e for e in log if e[0] == "thread_new"]
        if slot_before is None:
            okt = len(news) == 1 and len(started) == 1 and started[0][1] is news[0][1] and o.fields.get("_thread") is news[0][1] and started[0][2] > 0
            self.rec(ctx, uid + "/empty-slot/starts-exactly-one-thread-and-stores-it-under-the-lock", okt)
            if okt:
                tgt = news[0][1].attrs.get("target")
                self.rec(ctx, uid + "/empty-slot/the-thread-runs-self.run", isinstance(tgt, BoundMethod) and tgt.self_val is o and getattr(tgt.func, "qualname", "") == "EventLoopScheduler.run")
        else:
            self.rec(ctx, uid + "/runner-exists/starts-no-thread", not news and not started and o.fields.get("_thread") is slot_before)
        act = res.fields.get("action") if isinstance(res, Obj) and res.cls.name == "Disposable" else None
        self.rec(ctx, uid + "/returns-Disposable(item.cancel)", isinstance(act, BoundMethod) and act.self_val is item and getattr(act.func, "qualname", "") == "ScheduledItem.cancel")
        self.writes_under_lock(ctx, uid, first, self.fields_snapshot())

    def run_delegation(self, ctx, name):
        it, o = self.setup(ctx)
        self.mode = "client"
        uid = f"{EFILE}::EventLoopScheduler.{name}"
        calls = []

        def hook(it_, f, args, kwargs):
            fn = f.func if isinstance(f, BoundMethod) else f
            q = getattr(fn, "qualname", None) if isinstance(fn, Closure) else None
            if q == "EventLoopScheduler.schedule_absolute":
                calls.append((list(args), dict(kwargs)))
                return Opaque("disposable", "from-schedule_absolute")
            return self.hook(it_, f, args, kwargs)
        it.call_hook = hook
        action, st0 = Opaque("callback", "action"), ctx.fresh("state", "val")
        d = ctx.fresh("delay", "int")
        args = [action, st0] if name == "schedule" else [d, action, st0]
        res = it.call(it.get_attr(o, name), args, {})
        ok = len(calls) == 1
        self.rec(ctx, uid + "/delegates-once-to-schedule_absolute", ok)
        if not ok:
            return
        a, kw = calls[0]
        names = ["duetime", "action", "state"]
        got = dict(zip(names, a[1:] if a and a[0] is o else a))
        got.update(kw)
        nows = [e[1] for e in self.w.log if e[0] == "now"]
        self.rec(ctx, uid + "/same-action-and-state", got.get("action") is action and got.get("state") is st0)
        if nows and isinstance(got.get("duetime"), SV):
            want = nows[-1] if name == "schedule" else nows[-1] + z3.If(d.t > 0, d.t, 0)
            self.rec(ctx, uid + ("/due-now" if name == "schedule" else "/due-now-plus-the-non-negative-delay"), got["duetime"].t == want)
        else:
            self.rec(ctx, uid + "/due-time-from-the-clock", False, detail=f"{got.get('duetime')!r}")
        self.rec(ctx, uid + "/returns-its-disposable", isinstance(res, Opaque) and res.name == "from-schedule_absolute")

    # -- dispose -------------------------------------------------------------------------------------------------
    def run_dispose(self, ctx):
        it, o = self.setup(ctx)
        self.mode = "client"
        uid = f"{EFILE}::EventLoopScheduler.dispose"
        first = self.fields_snapshot()
        it.call(it.get_attr(o, "dispose"), [], {})
        log = self.w.log
        self.rec(ctx, uid + "/sets-the-flag", it.truth_term(o.fields["_is_disposed"]))
        rel = [e for e in log if e[0] == "release"]
        self.rec(ctx, uid + "/in-one-critical-section", len(rel) == 1 and it.truth_term(rel[0][1]["_is_disposed"]) is not False)
        if rel:
            t = it.truth_term(rel[0][1]["_is_disposed"])
            self.rec(ctx, uid + "/flag-set-before-the-lock-is-released", t)
        acq = [e for e in log if e[0] == "acquire"]
        if acq:
            was = it.truth_term(acq[0][1]["_is_disposed"])
            was = z3.BoolVal(was) if isinstance(was, bool) else was
            notified = any(e[0] == "notify" and e[1] > 0 for e in log)
            self.rec(ctx, uid + "/wakes-the-runner-when-it-sets-the-flag", z3.Or(was, z3.BoolVal(notified)))
        self.rec(ctx, uid + "/queues-nothing-starts-nothing", not any(e[0] in ("append", "enqueue", "thread.start", "invoke") for e in log))
        self.writes_under_lock(ctx, uid, first, self.fields_snapshot())

    # -- run ----------------------------------------------------------------------------------------------------------
    def on_loop(self, it, st, env, key, lc, iterable=None):
        ctx = it.ctx
        w = self.w
        idx = key[1]
        uid = f"{EFILE}::EventLoopScheduler.run"
        if idx == 0:
            self.rec(ctx, uid + "/loop/entry/lock-free-and-batch-empty", w.depth == 0 and not [e for e in w.log if e[0] == "append" and e[1] == "ready"])
            # an arbitrary round: the batch is empty again (invariant), the shared state is whatever the others made it
            w.log.clear()
            w.invalidate()
            w.cache["ready"] = {"truth": z3.BoolVal(False)}
            self.round_first = self.fields_snapshot()
            try:
                it.exec_block(st.body, env)
            except _Continue:
                self.end_of_round(it, ctx, uid, "continue")
                raise PathEnd()
            except _Break:
                # the round leaves the loop: what follows the loop runs, then run() returns - judged by the return obligations of run_run
                self.end_of_round(it, ctx, uid, "break")
                return None
            self.end_of_round(it, ctx, uid, "fall-through")
            raise PathEnd()
        # inner loops: cut - one arbitrary iteration, or the exit
        name = {1: "queue", 2: "ready_list", 3: "ready_list", 4: "ready"}.get(idx)
        if idx in (1, 3):
            w.invalidate("queue" if idx == 1 else "ready_list")
        if idx == 4:
            w.invalidate("ready")
        if idx == 2:
            w.invalidate("ready_list")
        mark = len(w.log)
        if not it.truth(it.eval(st.test, env), f"inner loop {idx}"):
            it.exec_block(st.orelse, env)
            return
        try:
            it.exec_block(st.body, env)
        except _Break:
            if idx == 1:
                # the gather loop gives up before the queue is empty: only at a head that is NOT due yet - an entry due exactly at the clock
                # reading is due (left behind, it is not waited for either - the wait would be for zero seconds - and the loop spins)
                evs = w.log[mark:]
                peeks = [e for e in evs if e[0] == "peek"]
                nows = [e for e in w.log if e[0] == "now" and e[2] > 0]
                self.rec(ctx, uid + "/gather/stops-only-at-a-head-that-is-not-due-yet (every entry due by the clock reading of this section is taken)",
                         (it.to_int(peeks[-1][1].attrs["duetime"]) > nows[-1][1]) if (peeks and nows) else False,
                         detail="the gather loop leaves an entry in the queue whose due time is not later than the clock reading taken under this lock")
            return
        except _Continue:
            pass
        self.inner_iteration(it, ctx, uid, idx, w.log[mark:])
        raise PathEnd()

    def check_dequeues(self, it, ctx, uid):
        """never early, for EVERY way an entry leaves the queue: in the critical section (more precisely: since the lock was
        last taken or re-taken after a wait) the clock was read and the entry's due time is not later than that reading"""
        log = self.w.log
        for i, e in enumerate(log):
            if e[0] != "dequeue":
                continue
            starts = [k for k, x in enumerate(log[:i]) if x[0] in ("acquire", "wait")]
            j = starts[-1] if starts else 0
            nows = [x for x in log[j:i] if x[0] == "now"]
            peeks = [x for x in log[j:i] if x[0] == "peek" and x[1] is e[1]]
            self.rec(ctx, uid + "/never-early/an-entry-leaves-the-queue-only-when-due-by-a-clock-reading-of-this-section",
                     (it.to_int(e[1].attrs["duetime"]) <= nows[-1][1]) if (nows and peeks) else False,
                     detail="an entry is dequeued without comparing its due time with the clock after the lock was (re)taken - "
                            "a wait that timed out is no proof that the head is due (the head may have changed, the clock is the scheduler's)")
            self.rec(ctx, uid + "/never-early/dequeues-under-the-lock", e[2] > 0)

    def inner_iteration(self, it, ctx, uid, idx, evs):
        w = self.w
        self.check_dequeues(it, ctx, uid)
        if idx == 1:
            deq = [e for e in evs if e[0] == "dequeue"]
            peeks = [e for e in evs if e[0] == "peek"]
            ok = len(deq) == 1 and len(peeks) >= 1 and deq[0][1] is peeks[0][1]
            self.rec(ctx, uid + "/gather/takes-exactly-the-head-of-the-queue", ok, detail=f"dequeues={len(deq)} peeks={len(peeks)}")
            if ok:
                nows = [e for e in w.log if e[0] == "now" and e[2] > 0]
                self.rec(ctx, uid + "/gather/never-early: due-time<=clock-reading-of-this-section",
                         it.to_int(deq[0][1].attrs["duetime"]) <= nows[-1][1] if nows else False,
                         detail="an entry leaves the queue although its due time is later than the clock reading taken under this lock")
                apps = [e for e in evs if e[0] == "append" and e[1] == "ready"]
                self.rec(ctx, uid + "/gather/the-dequeued-entry-goes-to-the-end-of-the-batch", bool(apps) and apps[-1][2] is deq[0][1])
        if idx in (2, 3):
            pops = [e for e in evs if e[0] == "popleft" and e[1] == "ready_list"]
            apps = [e for e in evs if e[0] == "append" and e[1] == "ready"]
            self.rec(ctx, uid + f"/gather/ready-list-entries-move-head-first-into-the-batch#{idx}", len(pops) == 1 and len(apps) == 1 and apps[0][2] is pops[0][2])
        if idx == 4:
            pops = [e for e in evs if e[0] == "popleft" and e[1] == "ready"]
            inv = [e for e in evs if e[0] == "invoke"]
            self.rec(ctx, uid + "/execute/takes-the-head-of-the-batch", len(pops) == 1)
            if inv:
                i = evs.index(inv[0])
                prev = evs[i - 1] if i > 0 else None
                okc = len(inv) == 1 and pops and inv[0][1] is pops[0][2] and prev is not None and prev[0] == "is_cancelled" and prev[1] is inv[0][1]
                self.rec(ctx, uid + "/execute/invokes-only-right-after-is_cancelled-of-that-item", okc)
                if okc:
                    self.rec(ctx, uid + "/execute/never-invokes-a-cancelled-item", z3.Not(prev[2]))
                self.rec(ctx, uid + "/execute/invokes-outside-the-lock", inv[0][2] == 0)
            else:
                chk = [e for e in evs if e[0] == "is_cancelled"]
                self.rec(ctx, uid + "/execute/skips-only-cancelled-items", len(chk) == 1 and pops and chk[0][1] is pops[0][2] and True)
                if chk:
                    self.rec(ctx, uid + "/execute/skipped-item-was-cancelled", chk[0][2])
        self.rec(ctx, uid + f"/inner-loop#{idx}/only-under-the-lock" if idx != 4 else uid + "/execute/lock-free", (w.depth > 0) if idx != 4 else (w.depth == 0))

    def end_of_round(self, it, ctx, uid, how):
        w = self.w
        log = w.log
        self.rec(ctx, uid + f"/round/{how}/lock-free-at-loop-head", w.depth == 0)
        self.check_dequeues(it, ctx, uid)
        # every invocation in the round is preceded, with nothing in between, by that item's is_cancelled() answering False
        for i, e in enumerate(log):
            if e[0] == "invoke":
                prev = log[i - 1] if i > 0 else None
                okc = prev is not None and prev[0] == "is_cancelled" and prev[1] is e[1]
                self.rec(ctx, uid + "/execute/invokes-only-right-after-is_cancelled-of-that-item", okc,
                         detail="between the cancellation test and the start of the action other items ran (or no test at all): an item cancelled meanwhile still starts")
                if okc:
                    self.rec(ctx, uid + "/execute/never-invokes-a-cancelled-item", z3.Not(prev[2]))
        self.writes_under_lock(ctx, uid + "/round", self.round_first, self.fields_snapshot())
        acq = [e for e in log if e[0] == "acquire"]
        if acq:
            dis = it.truth_term(acq[0][1]["_is_disposed"])
            dis = z3.BoolVal(dis) if isinstance(dis, bool) else dis
            self.rec(ctx, uid + "/round/a-disposed-scheduler-never-gets-past-the-gather-section", z3.Not(dis),
                     detail="the round went on although the flag was set when its first critical section began: dispose() must stop the loop at once")
        waits = [e for e in log if e[0] == "wait"]
        self.rec(ctx, uid + "/round/invokes-nothing-under-the-lock", not any(e[0] == "invoke" and e[2] > 0 for e in log))
        if waits:
            wv = waits[-1]
            self.rec(ctx, uid + "/idle/waits-only-under-the-lock", wv[2] > 0)
            # the decision to wait is atomic with the emptiness tests
            i = log.index(wv)
            j = max(k for k, e in enumerate(log[:i]) if e[0] == "acquire")
            tests = [e for e in log[j:i] if e[0] == "truth" and e[1] in ("ready_list", "queue")]
            self.rec(ctx, uid + "/idle/tests-both-containers-in-the-section-that-waits", {e[1] for e in tests} >= {"ready_list", "queue"},
                     detail="a wait that is not decided under the same lock as the emptiness tests can miss a notification")
            rl = [e for e in tests if e[1] == "ready_list"]
            if rl:
                self.rec(ctx, uid + "/idle/never-waits-while-the-ready-list-is-non-empty", z3.Not(rl[-1][2]))
            if wv[1] is not None:
                peeks = [e for e in log[j:i] if e[0] == "peek"]
                nows = [e for e in log[j:i] if e[0] == "now"]
                okp = bool(peeks) and bool(nows)
                self.rec(ctx, uid + "/idle/timed-wait-is-until-the-head-is-due", okp and it.to_int(wv[1]) == it.to_int(peeks[-1][1].attrs["duetime"]) - nows[-1][1]
                         if okp else False)
                self.rec(ctx, uid + "/idle/timed-wait-only-for-a-positive-time", it.to_int(wv[1]) > 0)
            else:
                q = [e for e in tests if e[1] == "queue"]
                if q:
                    self.rec(ctx, uid + "/idle/untimed-wait-only-when-the-queue-is-empty", z3.Not(q[-1][2]))
                ex = it.truth_term(self.obj.fields["_exit_if_empty"])
                self.rec(ctx, uid + "/idle/untimed-wait-only-without-exit_if_empty", z3.Not(ex) if not isinstance(ex, bool) else (not ex))

    def run_run(self, ctx):
        it, o = self.setup(ctx)
        self.mode = "runner"
        uid = f"{EFILE}::EventLoopScheduler.run"
        me = Opaque("thread", "this-runner")
        o.fields["_thread"] = me
        it.loop_contracts = {("EventLoopScheduler.run", i): {"i": i} for i in range(5)}
        it.on_loop = self.on_loop
        self.round_first = self.fields_snapshot()
        it.call(it.get_attr(o, "run"), [], {})
        # run returned (from inside an arbitrary round)
        log = self.w.log
        self.rec(ctx, uid + "/return/lock-free", self.w.depth == 0)
        self.check_dequeues(it, ctx, uid)
        rel = [e for e in log if e[0] == "release"]
        acq = [e for e in log if e[0] == "acquire"]
        dis = it.truth_term(acq[-1][1]["_is_disposed"]) if acq else False
        dis = z3.BoolVal(dis) if isinstance(dis, bool) else dis
        slot_cleared = o.fields.get("_thread") is None
        ex = it.truth_term(o.fields["_exit_if_empty"])
        ex = z3.BoolVal(ex) if isinstance(ex, bool) else ex
        tests = [e for e in log[log.index(acq[-1]):] if e[0] == "truth" and e[1] in ("ready_list", "queue")] if acq else []
        if slot_cleared:
            self.rec(ctx, uid + "/return/gives-the-runner-slot-up-only-when-idle-and-exit_if_empty",
                     z3.And(ex, *[z3.Not(e[2]) for e in tests]) if {e[1] for e in tests} >= {"ready_list", "queue"} else False)
            self.rec(ctx, uid + "/return/slot-cleared-in-the-section-that-saw-both-containers-empty", bool(rel) and rel[-1][1]["_thread"] is None)
        else:
            self.rec(ctx, uid + "/return/keeps-the-slot-only-when-disposed", dis, detail="run returns with the slot still taken although the scheduler is not disposed: no later schedule would ever start a thread")
        after = log[log.index(rel[-1]) + 1:] if rel else log
        self.rec(ctx, uid + "/return/nothing-after-the-last-critical-section", not [e for e in after if e[0] in ("invoke", "popleft", "dequeue", "append")])
        last_acq = log.index(acq[-1]) if acq else 0
        self.rec(ctx, uid + "/return/invokes-nothing-in-the-round-it-returns-from-when-disposed",
                 z3.Implies(dis, z3.BoolVal(not any(e[0] == "invoke" for e in log[last_acq:]))))
        self.writes_under_lock(ctx, uid + "/return", self.round_first, self.fields_snapshot())

    # -- NewThreadScheduler -----------------------------------------------------------------------------------------------
    def run_newthread(self, ctx, name):
        w = self.w = EWorld(self)
        it = self.it = Interp(self.loader, ctx, w)
        uid = f"{NFILE}::NewThreadScheduler.{name}"
        cls = it.module_get("reactivex.scheduler.newthreadscheduler", "NewThreadScheduler")
        o = self.obj = Obj(cls)
        tf = Opaque("callback", "thread_factory")
        o.fields["thread_factory"] = tf
        made, calls = [], []

        def hook(it_, f, args, kwargs):
            fn = f.func if isinstance(f, BoundMethod) else f
            q = getattr(fn, "qualname", None) if isinstance(fn, Closure) else None
            full = ([f.self_val] + list(args)) if isinstance(f, BoundMethod) else list(args)
            if q == "EventLoopScheduler.__init__":
                made.append((full[0], full[1:], dict(kwargs)))
                return None
            if q in ("EventLoopScheduler.schedule", "EventLoopScheduler.schedule_relative", "EventLoopScheduler.schedule_absolute"):
                calls.append((q, full, dict(kwargs)))
                return Opaque("disposable", "from-the-event-loop")
            if q == "NewThreadScheduler.schedule_relative" and name == "schedule_absolute":
                calls.append((q, list(args), dict(kwargs)))
                return Opaque("disposable", "from-schedule_relative")
            return self.hook(it_, f, args, kwargs)
        it.call_hook = hook
        action, st0, d = Opaque("callback", "action"), ctx.fresh("state", "val"), ctx.fresh("due", "int")
        args = [action, st0] if name == "schedule" else [d, action, st0]
        res = it.call(it.get_attr(o, name), args, {})
        if name == "schedule_absolute":
            ok = len(calls) == 1 and not made
            self.rec(ctx, uid + "/is-schedule_relative-of-the-remaining-time", ok)
            if ok:
                q, a, kw = calls[0]
                got = dict(zip(["duetime", "action", "state"], a[1:] if a and a[0] is o else a))
                got.update(kw)
                nows = [e[1] for e in w.log if e[0] == "now"]
                self.rec(ctx, uid + "/remaining-time=due-now", bool(nows) and isinstance(got.get("duetime"), SV) and got["duetime"].t == d.t - nows[-1])
                self.rec(ctx, uid + "/same-action-and-state", got.get("action") is action and got.get("state") is st0)
            return
        ok = len(made) == 1 and len(calls) == 1 and calls[0][0] == "EventLoopScheduler." + name
        self.rec(ctx, uid + "/a-fresh-event-loop-scheduler-and-its-same-named-method", ok, detail=f"{len(made)} schedulers, calls {[c[0] for c in calls]}")
        if not ok:
            return
        el, a0, k0 = made[0]
        kw = dict(k0)
        self.rec(ctx, uid + "/with-this-scheduler's-thread-factory-and-exit_if_empty", kw.get("thread_factory") is tf and kw.get("exit_if_empty") is True and not a0)
        q, a, kw2 = calls[0]
        self.rec(ctx, uid + "/on-that-very-scheduler", bool(a) and a[0] is el)
        got = dict(zip(["action", "state"] if name == "schedule" else ["duetime", "action", "state"], a[1:]))
        got.update(kw2)
        self.rec(ctx, uid + "/same-arguments", got.get("action") is action and got.get("state") is st0 and (name == "schedule" or got.get("duetime") is d))
        self.rec(ctx, uid + "/returns-its-disposable", isinstance(res, Opaque) and res.name == "from-the-event-loop")

    # -- ThreadPoolScheduler: a NewThreadScheduler whose "threads" are submissions to one executor --------------------------------------
    def run_threadpool(self, ctx):
        """ThreadPoolScheduler(max_workers): ONE ThreadPoolExecutor(max_workers=max_workers); NewThreadScheduler.__init__ gets a thread factory;
        thread_factory(target) is a startable whose start() submits exactly `target`, once, to that executor (assumed contract of the executor:
        a submitted callable runs once on a pool thread) and whose cancel() cancels that submission; everything else is NewThreadScheduler's."""
        import ast as _ast
        PFILE = "reactivex/scheduler/threadpoolscheduler.py"
        w = self.w = EWorld(self)
        it = self.it = Interp(self.loader, ctx, w)
        uid = f"{PFILE}::ThreadPoolScheduler"
        execs, inits, log = [], [], []

        def mk_exec(it_, a, k):
            e = Opaque("executor", f"executor#{len(execs) + 1}", args=list(a), kwargs=dict(k))
            execs.append(e)
            return e
        it.externals["concurrent.futures.ThreadPoolExecutor"] = Native("ThreadPoolExecutor", mk_exec)
        orig_call = w.call

        def wcall(it_, o, method, args, kwargs):
            if o.kind == "executor" and method == "submit":
                fut = Opaque("future", f"future#{len(log) + 1}")
                log.append(("submit", o, list(args), dict(kwargs), fut))
                return fut
            if o.kind == "future" and method == "cancel":
                log.append(("cancel", o))
                return True
            return orig_call(it_, o, method, args, kwargs)
        w.call = wcall
        w.truthy = lambda it_, o: True

        def hook(it_, f, args, kwargs):
            fn = f.func if isinstance(f, BoundMethod) else f
            q = getattr(fn, "qualname", None) if isinstance(fn, Closure) else None
            if q == "NewThreadScheduler.__init__":
                inits.append((list(args), dict(kwargs)))
                return None
            return self.hook(it_, f, args, kwargs)
        it.call_hook = hook
        cls = it.module_get("reactivex.scheduler.threadpoolscheduler", "ThreadPoolScheduler")
        mw = ctx.fresh("max_workers", "val")
        given = ctx.choose(2, "max_workers given") == 1
        o = it.call(cls, [mw] if given else [], {})
        ok = len(execs) == 1 and not execs[0].attrs["args"] and set(execs[0].attrs["kwargs"]) == {"max_workers"}
        self.rec(ctx, uid + ".__init__/one-executor-with-the-requested-number-of-workers", ok and (execs[0].attrs["kwargs"]["max_workers"] is mw if given
                                                                                                  else execs[0].attrs["kwargs"]["max_workers"] is None),
                 detail=f"{[(e.attrs['args'], e.attrs['kwargs']) for e in execs]}")
        tf = None
        if len(inits) == 1:
            a = [x for x in inits[0][0] if x is not o] + list(inits[0][1].values())
            tf = a[0] if len(a) == 1 else None
        self.rec(ctx, uid + ".__init__/initialises-the-new-thread-scheduler-with-a-thread-factory", isinstance(tf, Closure), detail=f"{inits}")
        if not isinstance(tf, Closure) or not execs:
            return
        target = Opaque("callback", "target")
        th = it.call(tf, [target], {})
        self.rec(ctx, uid + ".thread_factory/builds-a-startable-without-starting-it", isinstance(th, Obj) and not log, detail=f"{th!r}; {log}")
        if not isinstance(th, Obj):
            return
        if ctx.choose(2, "cancelled before it was started") == 1:
            it.call(it.get_attr(th, "cancel"), [], {})
            self.rec(ctx, uid + ".ThreadPoolThread.cancel/before-start-does-nothing", not log)
            return
        it.call(it.get_attr(th, "start"), [], {})
        subs = [e for e in log if e[0] == "submit"]
        self.rec(ctx, uid + ".ThreadPoolThread.start/submits-exactly-the-target-once-to-the-scheduler's-executor",
                 len(subs) == 1 and subs[0][1] is execs[0] and subs[0][2] == [target] and not subs[0][3], detail=f"{log}")
        if subs:
            it.call(it.get_attr(th, "cancel"), [], {})
            cs = [e for e in log if e[0] == "cancel"]
            self.rec(ctx, uid + ".ThreadPoolThread.cancel/cancels-that-submission", len(cs) == 1 and cs[0][1] is subs[0][4])
        node = self.loader.find(PFILE, "ThreadPoolScheduler")
        defs = sorted(n.name for n in node.body if isinstance(n, (_ast.FunctionDef, _ast.AsyncFunctionDef)))
        self.rec(ctx, uid + "/overrides-nothing-of-the-new-thread-scheduler", defs == ["__init__"], detail=f"methods defined: {defs}")

    # -- TimeoutScheduler ----------------------------------------------------------------------------------------------------
    def run_timeout(self, ctx, name):
        w = self.w = EWorld(self)
        it = self.it = Interp(self.loader, ctx, w)
        it.call_hook = self.hook
        uid = f"{TFILE}::TimeoutScheduler.{name}"
        cls = it.module_get("reactivex.scheduler.timeoutscheduler", "TimeoutScheduler")
        o = self.obj = Obj(cls)
        timers = []

        def mk_timer(it_, a, k):
            t = Opaque("timer", f"timer#{len(timers) + 1}", interval=a[0] if a else k.get("interval"), function=a[1] if len(a) > 1 else k.get("function"))
            timers.append(t)
            return t
        it.externals["threading.Timer"] = Native("Timer", mk_timer)
        action, st0, d = Opaque("callback", "action"), ctx.fresh("state", "val"), ctx.fresh("delay", "int")
        if name == "schedule_absolute":
            rel = []

            def hook(it_, f, args, kwargs):
                fn = f.func if isinstance(f, BoundMethod) else f
                q = getattr(fn, "qualname", None) if isinstance(fn, Closure) else None
                if q == "TimeoutScheduler.schedule_relative":
                    rel.append((list(args), dict(kwargs)))
                    return Opaque("disposable", "from-schedule_relative")
                return self.hook(it_, f, args, kwargs)
            it.call_hook = hook
            res = it.call(it.get_attr(o, name), [d, action, st0], {})
            ok = len(rel) == 1 and not timers
            self.rec(ctx, uid + "/is-schedule_relative-of-the-remaining-time", ok)
            if ok:
                a, kw = rel[0]
                got = dict(zip(["duetime", "action", "state"], a[1:] if a and a[0] is o else a))
                got.update(kw)
                nows = [e[1] for e in w.log if e[0] == "now"]
                self.rec(ctx, uid + "/remaining-time=due-now", bool(nows) and isinstance(got.get("duetime"), SV) and got["duetime"].t == d.t - nows[-1])
                self.rec(ctx, uid + "/same-action-and-state", got.get("action") is action and got.get("state") is st0)
                self.rec(ctx, uid + "/returns-its-disposable", isinstance(res, Opaque) and res.name == "from-schedule_relative")
            return
        args = [action, st0] if name == "schedule" else [d, action, st0]
        fields0 = dict(o.fields)
        res = it.call(it.get_attr(o, name), args, {})
        self.rec(ctx, uid + "/exactly-one-timer", len(timers) == 1)
        if len(timers) != 1:
            return
        t = timers[0]
        # TimeoutScheduler is a per-class SINGLETON shared by every pipeline of the process: what a call needs later (its timer) lives
        # in the call's own closure, not on the object
        changed = sorted(k for k in set(o.fields) | set(fields0) if o.fields.get(k, NOTSET) is not fields0.get(k, NOTSET))
        self.rec(ctx, uid + "/keeps-no-per-call-state-on-the-shared-scheduler-object", not changed,
                 detail=f"fields written by the call: {changed} - the next call overwrites them, and the disposable returned by this one then acts on the other call's timer")
        if ctx.choose(2, "another action is scheduled before this one is disposed") == 1:
            action2 = Opaque("callback", "action2")
            res2 = it.call(it.get_attr(o, name), ([action2, st0] if name == "schedule" else [ctx.fresh("delay2", "int"), action2, st0]), {})
            ok2 = len(timers) == 2
            self.rec(ctx, uid + "/second-call/has-a-timer-of-its-own", ok2)
            if ok2:
                n1 = len(w.log)
                if isinstance(res, Obj):
                    it.call(it.get_attr(res, "dispose"), [], {})
                evs = w.log[n1:]
                cancelled = [e[1] for e in evs if e[0] == "timer.cancel"]
                self.rec(ctx, uid + "/second-call/disposing-the-first-cancels-exactly-the-first-timer", cancelled == [t] or (len(cancelled) >= 1 and all(x is t for x in cancelled)),
                         detail=f"cancelled: {[x.name for x in cancelled]}")
            _ = res2
            return
        iv = t.attrs["interval"]
        if name == "schedule":
            self.rec(ctx, uid + "/timer-fires-at-once", iv == 0 or (isinstance(iv, float) and iv == 0.0))
        else:
            want = z3.If(d.t > 0, d.t, 0)
            self.rec(ctx, uid + "/timer-interval-is-the-non-negative-delay", (it.to_int(iv) == want) if isinstance(iv, SV) else (z3.And(d.t <= 0, z3.BoolVal(iv == 0))))
        started = [e for e in w.log if e[0] == "timer.start" and e[1] is t]
        self.rec(ctx, uid + "/timer-started-once", len(started) == 1)
        self.rec(ctx, uid + "/timer-is-a-daemon", t.attrs.get("daemon") is True)
        self.rec(ctx, uid + "/nothing-invoked-by-the-call-itself", not [e for e in w.log if e[0] in ("invoke_action", "action")])
        # the timer's function: invokes the action once with (scheduler, state), keeps what it returns
        f = t.attrs["function"]
        n0 = len(w.log)
        it.call(f, [], {})
        inv = [e for e in w.log[n0:] if e[0] == "invoke_action"]
        okf = len(inv) == 1
        self.rec(ctx, uid + "/timer-function/invokes-the-action-exactly-once", okf)
        if okf:
            a, kw = inv[0][1], inv[0][2]
            got = dict(zip(["action", "state"], a[1:] if a and a[0] is o else a))
            got.update(kw)
            self.rec(ctx, uid + "/timer-function/with-this-scheduler-action-and-state", bool(a) and a[0] is o and got.get("action") is action and got.get("state") is st0)
        # the returned disposable cancels the timer and disposes what the action returned
        n1 = len(w.log)
        if isinstance(res, Obj):
            it.call(it.get_attr(res, "dispose"), [], {})
        evs = w.log[n1:]
        self.rec(ctx, uid + "/dispose/cancels-that-timer", any(e[0] == "timer.cancel" and e[1] is t for e in evs))
        self.rec(ctx, uid + "/dispose/disposes-what-the-action-returned", any(e[0] == "dispose" and e[1].name == "returned-by-action" for e in evs))

    # -- ImmediateScheduler -------------------------------------------------------------------------------------------------------
    def run_immediate(self, ctx, name):
        w = self.w = EWorld(self)
        it = self.it = Interp(self.loader, ctx, w)
        it.call_hook = self.hook
        it.externals["datetime.timedelta"] = Native("timedelta", lambda it_, a, k: 0 if (a == [0] or (not a and not k)) else (_ for _ in ()).throw(Unsupported("timedelta(...)")))
        uid = f"{IFILE}::ImmediateScheduler.{name}"
        cls = it.module_get("reactivex.scheduler.immediatescheduler", "ImmediateScheduler")
        o = self.obj = Obj(cls)
        action, st0, d = Opaque("callback", "action"), ctx.fresh("state", "val"), ctx.fresh("delay", "int")
        if name == "schedule_absolute":
            rel = []

            def hook(it_, f, args, kwargs):
                fn = f.func if isinstance(f, BoundMethod) else f
                q = getattr(fn, "qualname", None) if isinstance(fn, Closure) else None
                if q == "ImmediateScheduler.schedule_relative":
                    rel.append((list(args), dict(kwargs)))
                    return Opaque("disposable", "from-schedule_relative")
                return self.hook(it_, f, args, kwargs)
            it.call_hook = hook
            it.call(it.get_attr(o, name), [d, action, st0], {})
            ok = len(rel) == 1
            self.rec(ctx, uid + "/is-schedule_relative-of-the-remaining-time", ok)
            if ok:
                a, kw = rel[0]
                got = dict(zip(["duetime", "action", "state"], a[1:] if a and a[0] is o else a))
                got.update(kw)
                nows = [e[1] for e in w.log if e[0] == "now"]
                self.rec(ctx, uid + "/remaining-time=due-now", bool(nows) and isinstance(got.get("duetime"), SV) and got["duetime"].t == d.t - nows[-1])
            return
        raised = res = None
        args = [action, st0] if name == "schedule" else [d, action, st0]
        try:
            res = it.call(it.get_attr(o, name), args, {})
        except PyExc as e:
            raised = e.value
        inv = [e for e in w.log if e[0] == "invoke_action"]
        if raised is not None:
            self.rec(ctx, uid + "/raises-WouldBlockException-only-for-a-positive-delay",
                     z3.And(z3.BoolVal(isinstance(raised, Obj) and raised.cls.name == "WouldBlockException" and name == "schedule_relative"), d.t > 0))
            self.rec(ctx, uid + "/nothing-invoked-when-it-raises", not inv)
            return
        if name == "schedule_relative":
            self.rec(ctx, uid + "/returns-normally-only-for-a-non-positive-delay", d.t <= 0)
        okf = len(inv) == 1
        self.rec(ctx, uid + "/invokes-the-action-synchronously-exactly-once", okf)
        if okf:
            a, kw = inv[0][1], inv[0][2]
            got = dict(zip(["action", "state"], a[1:] if a and a[0] is o else a))
            got.update(kw)
            self.rec(ctx, uid + "/with-this-scheduler-action-and-state", bool(a) and a[0] is o and got.get("action") is action and got.get("state") is st0)
            self.rec(ctx, uid + "/returns-what-the-invocation-returned", isinstance(res, Opaque) and res.name == "returned-by-action")

    # -- driver -----------------------------------------------------------------------------------------------------------------------
    def scenarios(self, prop):
        sc = [("schedule_absolute", self.run_schedule_absolute), ("schedule", lambda c: self.run_delegation(c, "schedule")),
              ("schedule_relative", lambda c: self.run_delegation(c, "schedule_relative")), ("dispose", self.run_dispose), ("run", self.run_run)]
        for n in ("schedule", "schedule_relative", "schedule_absolute"):
            sc.append((f"newthread.{n}", lambda c, _n=n: self.run_newthread(c, _n)))
        sc.append(("threadpool", self.run_threadpool))
        if prop != "C31":
            for n in ("schedule", "schedule_relative", "schedule_absolute"):
                sc.append((f"timeout.{n}", lambda c, _n=n: self.run_timeout(c, _n)))
                sc.append((f"immediate.{n}", lambda c, _n=n: self.run_immediate(c, _n)))
        return sc

    def run(self, prop="C31"):
        t0 = time.time()
        try:
            files = [(EFILE, "EventLoopScheduler"), (NFILE, "NewThreadScheduler"), ("reactivex/scheduler/threadpoolscheduler.py", "ThreadPoolScheduler")] + ([(TFILE, "TimeoutScheduler"), (IFILE, "ImmediateScheduler")] if prop != "C31" else [])
            for rel, cname in files:
                node = self.loader.find(rel, cname)
                for q, n in all_functions(node, cname):
                    if q.count(".") == 1 and not q.endswith(("singleton", "__new__", "schedule_periodic", "_has_thread")):
                        self.functions[f"{rel}::{q}"] = self.loader.sha(rel, q)
            for name, fn in self.scenarios(prop):
                for p in explore(fn):
                    self.results.extend(p.results)
        except Unsupported as e:
            self.unsupported = str(e)
        except PyExc as e:
            self.unsupported = f"interpreter-level exception: {e.value!r} {getattr(e.value, 'fields', '')}"
        self.seconds = time.time() - t0
        return self


#: must-fail mutants (thorough tier): (file, old, new, what)
MUTANTS = [
    (EFILE, "                    if due > time:\n                        break", "                    if due > time and False:\n                        break", "run dequeues entries that are not due yet"),
    (EFILE, "                if not item.is_cancelled():\n                    item.invoke()", "                item.invoke()", "run invokes without looking at the cancellation"),
    (EFILE, "                elif self._exit_if_empty:\n                    self._thread = None\n                    return", "                elif self._exit_if_empty:\n                    return", "run leaves without giving the slot up"),
    (EFILE, "            if dt <= self.now:\n                self._ready_list.append(si)", "            if dt >= self.now:\n                self._ready_list.append(si)", "future items go to the ready list"),
    (EFILE, "        if not self._thread:\n            thread = self._thread_factory(self.run)", "        if True:\n            thread = self._thread_factory(self.run)", "a second runner thread"),
    (EFILE, "                if self._is_disposed:\n                    return\n", "                pass\n", "run ignores dispose"),
    (TFILE, "        def dispose() -> None:\n            timer.cancel()\n\n        return CompositeDisposable(sad, Disposable(dispose))\n\n    def schedule_absolute", "        def dispose() -> None:\n            pass\n\n        return CompositeDisposable(sad, Disposable(dispose))\n\n    def schedule_absolute", "the relative timer is not cancelled"),
    (IFILE, "        if duetime > DELTA_ZERO:", "        if duetime < DELTA_ZERO:", "immediate scheduler blocks on the wrong sign"),
]


def must_fail(prop):
    res = {"mutants": 0, "killed": 0, "survivors": []}
    base = Loader()
    for rel, old, new, what in MUTANTS:
        if prop == "C31" and rel in (TFILE, IFILE):
            continue
        src = base.load_file(rel).src
        if old not in src:
            continue
        ld = Loader()
        ld.overrides = {rel: src.replace(old, new, 1)}
        h = EvHarness(ld).run(prop)
        res["mutants"] += 1
        if h.unsupported or any(r.verdict != "proved" for r in h.results):
            res["killed"] += 1
        else:
            res["survivors"].append(what)
    return res


def run_unit(desc):
    import json
    import os
    from .report import REPLAY_DIR, VERIF, native
    prop = desc.get("prop", "C31")
    h = EvHarness().run(prop)
    rep = {"unit": f"{EFILE}::EventLoopScheduler" + ("+timeout+immediate" if prop != "C31" else ""), "kind": "monitor / function contracts with a ghost runner token",
           "functions": h.functions, "results": [r.as_dict() for r in h.results], "unsupported": h.unsupported,
           "spec_validation": [], "bounded": [], "seconds": h.seconds, "replayable": {"runner": "evrun.py", "module": "-", "name": prop}}
    tier = desc.get("tier", "quick")
    if tier == "thorough" and not h.unsupported:
        mf = must_fail(prop)
        rep["must_fail"] = dict(mf, unit=rep["unit"])
        if mf["mutants"] and mf["killed"] < mf["mutants"]:
            rep["crash"] = f"vacuity: mutants not refuted: {mf['survivors']}"
    if h.unsupported or tier == "thorough":
        res, err = native([os.path.join(VERIF, "rxvc", "evrun.py"), "replay", "-", prop,
                           json.dumps({"replay_path": os.path.join(REPLAY_DIR, f"{prop}-standin-eventloop.py"), "prop": prop, "oid": rep["unit"] + "/bounded-standin"})], timeout=600)
        st = res if res is not None else {"found": [], "error": err, "cases": 0}
        rep["standin"] = st
        rep["bounded"].append({"function": rep["unit"], "bound": "evrun.py: scripted schedule / cancel / dispose histories against a controlled clock and thread factory; "
                               "cooperative-thread interleavings with <= 2 preemptions", "cases": st.get("cases", 0), "mismatches": len(st.get("found", [])),
                               "role": "stand-in (out of subset)" if h.unsupported else "cross-check against CPython"})
        if not h.unsupported and st.get("found") and all(r.verdict == "proved" for r in h.results):
            rep["crash"] = f"cross-check failed: contracts proved but the native run found {json.dumps(st['found'][0], default=repr)[:500]}"
    return rep
