"""Native history runner for the subject classes (replay of K2 counter-models / bounded stand-in).

Runs under /venv/bin/python: every call history up to a length bound over
subscribe/unsubscribe/on_next/on_error/on_completed/dispose, with observers that unsubscribe,
subscribe others or raise from inside their callbacks, is executed on the REAL subject through
its public API and on the executable twin of the spec machine (specs/c20.py run natively);
per-observer delivery logs and raised exceptions are compared.  BOUNDED - never counted as proved.

usage: histrun.py replay <contracts module> <class contract name> '<json opts>'
"""
from __future__ import annotations

import importlib
import itertools
import json
import os
import sys

VERIF = os.path.dirname(os.path.dirname(os.path.abspath(__file__)))
if VERIF not in sys.path:
    sys.path.insert(0, VERIF)
REPO = os.environ.get("RXVC_REPO", "/repo")  # the tree under test (the checks run on /repo; scratch copies are used by my own side runs only)
if REPO not in sys.path:
    sys.path.insert(0, REPO)

BEHAVIOURS = ["plain", "unsub_self_on_next", "unsub_other_on_next", "sub_other_on_next", "raise_on_next", "dispose_on_error", "dispose_on_next"]
# element values: 1 and True compare equal and are different values (a subject that compares elements instead of keeping them shows here); None is falsy
OPS = [("sub", 0), ("sub", 1), ("unsub", 0), ("unsub", 1), ("next", 1), ("next", True), ("next", None), ("error",), ("error_falsy",), ("completed",), ("dispose",)]


class Boom(Exception):
    pass


class FalsyBoom(Boom):
    """an exception object whose truth value is False (an aggregate error with no sub-errors): still the error the subject ended with"""

    def __bool__(self):
        return False

    def __len__(self):
        return 0


class Rec:
    """a subscriber: records what it receives; observer 0 carries the behaviour"""

    def __init__(self, idx, behaviour, driver):
        self.idx = idx
        self.behaviour = behaviour if idx == 0 else "plain"
        self.driver = driver
        self.log = []
        self.fired = 0

    def on_next(self, v):
        self.log.append(("N", type(v).__name__, v))  # logs are compared with ==: the type keeps 1 and True apart
        b = self.behaviour
        if b == "plain" or self.fired >= 2:
            return
        self.fired += 1  # the behaviour fires on the first two elements (a replayed one and a live one)
        if b == "unsub_self_on_next":
            self.driver.unsub(0)
        elif b == "unsub_other_on_next":
            self.driver.unsub(1)
        elif b == "sub_other_on_next":
            self.driver.sub(2)
        elif b == "raise_on_next":
            raise Boom()
        elif b == "dispose_on_next":
            # the first observer disposes the subject from inside its on_next callback: the broadcast in progress still reaches the others
            self.driver.do(("dispose",))

    def on_error(self, e):
        self.log.append(("E", type(e).__name__))
        if self.behaviour == "dispose_on_error":
            # the first observer disposes the subject from inside its on_error callback: the others still get THE error
            self.driver.do(("dispose",))

    def on_completed(self):
        self.log.append(("C",))


class RealDriver:
    def __init__(self, cls, init, behaviour):
        self.subject = cls(*init)
        self.recs = {i: Rec(i, behaviour, self) for i in range(3)}
        self.subs = {}

    def sub(self, i):
        r = self.recs[i]
        d = self.subject.subscribe(r.on_next, r.on_error, r.on_completed)
        self.subs.setdefault(i, []).append(d)

    def unsub(self, i):
        for d in self.subs.pop(i, []):
            d.dispose()

    def do(self, op):
        k = op[0]
        if k == "sub":
            self.sub(op[1])
        elif k == "unsub":
            self.unsub(op[1])
        elif k == "next":
            self.subject.on_next(op[1])
        elif k == "error":
            self.subject.on_error(Boom("src"))
        elif k == "error_falsy":
            self.subject.on_error(FalsyBoom("src"))
        elif k == "completed":
            self.subject.on_completed()
        elif k == "dispose":
            self.subject.dispose()


class SpecObs:
    """what Observable.subscribe puts around every subscriber (C01): nothing after a terminal or after unsubscribing"""

    def __init__(self, rec):
        self.rec = rec
        self.stopped = False

    def on_next(self, v):
        if not self.stopped:
            self.rec.on_next(v)

    def on_error(self, e):
        if not self.stopped:
            self.stopped = True
            self.rec.on_error(e)

    def on_completed(self):
        if not self.stopped:
            self.stopped = True
            self.rec.on_completed()


class SpecDriver:
    def __init__(self, speccls, init, behaviour):
        s = self.s = speccls.__new__(speccls)
        s.state, s.obs, s.err = 0, [], None
        s.value = init[0] if init else None
        s.has_value = False
        self.recs = {i: Rec(i, behaviour, self) for i in range(3)}
        self.subs = {}

    def sub(self, i):
        o = SpecObs(self.recs[i])
        try:
            self.s.subscribe(o)
        except Exception as e:
            # Observable.subscribe routes an exception of the subscribe function to the subscriber's
            # on_error (AutoDetachObserver.fail, C01/C09) and re-raises only if it was already stopped
            if o.stopped:
                raise
            o.on_error(e)
        self.subs.setdefault(i, []).append(o)

    def unsub(self, i):
        for o in self.subs.pop(i, []):
            o.stopped = True
            self.s.unsubscribe(o)

    def do(self, op):
        k = op[0]
        if k == "sub":
            self.sub(op[1])
        elif k == "unsub":
            self.unsub(op[1])
        elif k == "next":
            self.s.on_next(op[1])
        elif k == "error":
            self.s.on_error(Boom("src"))
        elif k == "error_falsy":
            self.s.on_error(FalsyBoom("src"))
        elif k == "completed":
            self.s.on_completed()
        elif k == "dispose":
            self.s.dispose()


def run(driver, history):
    out = []
    for op in history:
        try:
            driver.do(op)
            out.append(None)
        except Exception as e:
            out.append(type(e).__name__)
    return out, {i: r.log for i, r in driver.recs.items()}


def load(modname, name):
    mod = importlib.import_module(modname)
    c = next(x for x in mod.CLASSES if x.name == name)
    smod, scls = c.spec.split(":")
    speccls = getattr(importlib.import_module(smod), scls)
    import reactivex.subject as rs

    return c, getattr(rs, c.witness), speccls


def inits_for(c):
    return [(None,), (0,)] if c.witness == "BehaviorSubject" else [()]


def search(modname, name, max_len=4, budget=400000):
    c, cls, speccls = load(modname, name)
    cases = 0
    for init in inits_for(c):
        for n in range(1, max_len + 1):
            for hist in itertools.product(OPS, repeat=n):
                if not any(op[0] == "sub" for op in hist):
                    continue
                for b in BEHAVIOURS:
                    if b != "plain" and not any(op == ("sub", 0) for op in hist):
                        continue
                    cases += 1
                    real = run(RealDriver(cls, init, b), hist)
                    spec = run(SpecDriver(speccls, init, b), hist)
                    if real != spec:
                        return cases, {"init": list(init), "history": [list(o) for o in hist], "behaviour": b,
                                       "real": repr(real), "spec": repr(spec)}
                    if cases >= budget:
                        return cases, None
    return cases, None


REPLAY_TEMPLATE = '''#!/venv/bin/python
"""Replay of a counter-example found for property {prop}.
obligation: {oid}
The real {cls} and the specification disagree on this call history (observer 0 behaviour: {behaviour})."""
import sys
sys.path.insert(0, {verif!r})
from rxvc import histrun
c, cls, speccls = histrun.load({mod!r}, {name!r})
hist = [tuple(o) for o in {history}]
real = histrun.run(histrun.RealDriver(cls, tuple({init}), {behaviour!r}), hist)
spec = histrun.run(histrun.SpecDriver(speccls, tuple({init}), {behaviour!r}), hist)
print("history :", hist, " observer-0 behaviour:", {behaviour!r})
print("real    :", real)
print("expected:", spec)
sys.exit(1 if real != spec else 0)
'''


def main(argv):
    mode, modname, name = argv[:3]
    opts = json.loads(argv[3]) if len(argv) > 3 else {}
    cases, found = search(modname, name, opts.get("max_len", 4))
    res = {"cases": cases, "found": [found] if found else []}
    if found and "replay_path" in opts:
        c, cls, speccls = load(modname, name)
        os.makedirs(os.path.dirname(opts["replay_path"]), exist_ok=True)
        with open(opts["replay_path"], "w") as f:
            f.write(REPLAY_TEMPLATE.format(prop=opts.get("prop", "?"), oid=opts.get("oid", "?"), cls=c.cls, verif=VERIF,
                                           mod=modname, name=name, history=found["history"], init=found["init"],
                                           behaviour=found["behaviour"]))
        res["replay"] = opts["replay_path"]
    print(json.dumps(res, default=repr))


if __name__ == "__main__":
    main(sys.argv[1:])
