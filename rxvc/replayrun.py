"""Native history runner for ReplaySubject (replay of C22 violations; bounded).

Runs under /venv/bin/python on a VirtualTimeScheduler.  A history is a list of timed events - on_next(v), subscribe(i),
on_completed / on_error - at non-decreasing virtual times; after each event the scheduler is advanced to that time so
that the scheduled observers deliver.  Oracle = the property: a subscriber first receives, in order, the retained values
(the last buffer_size values whose age at subscription is within the window), then the terminal if one occurred, and
then every later notification - nothing duplicated, lost or reordered.  BOUNDED: histories of <= 5 events over the grid
buffer_size in {0, 1, 2, None} x window in {None, 1, 2}.

usage: replayrun.py replay - C22 '<json opts>'
       replayrun.py case '<json case>'
"""
from __future__ import annotations

import itertools
import json
import os
import sys

VERIF = os.path.dirname(os.path.dirname(os.path.abspath(__file__)))
REPO = os.environ.get("RXVC_REPO", "/repo")
if REPO not in sys.path:
    sys.path.insert(0, REPO)


def run(c):
    from reactivex.scheduler import VirtualTimeScheduler
    from reactivex.subject import ReplaySubject
    B, W, hist = c["buffer_size"], c["window"], c["history"]
    s = VirtualTimeScheduler()
    subj = ReplaySubject(B, None if W is None else float(W), s)
    got = {}
    # reference model
    values = []  # (time, value)
    terminal = None
    want = {}
    live = []
    nsub = 0
    for (t, ev) in hist:
        s.advance_to(float(t))
        if ev[0] == "next":
            if terminal is not None:
                continue
            subj.on_next(ev[1])
            values.append((t, ev[1]))
            for i in live:
                want[i].append(("N", ev[1]))
        elif ev[0] == "sub":
            i = nsub
            nsub += 1
            got[i] = []
            subj.subscribe(lambda v, _i=i: got[_i].append(("N", v)), lambda e, _i=i: got[_i].append(("E",)), lambda _i=i: got[_i].append(("C",)))
            kept = [v for (tv, v) in values if W is None or t - tv <= W]
            if B is not None:
                kept = kept[len(kept) - B:] if B > 0 else []
            want[i] = [("N", v) for v in kept]
            if terminal is not None:
                want[i].append(terminal)
            else:
                live.append(i)
        elif ev[0] in ("complete", "error"):
            if terminal is not None:
                continue
            terminal = ("C",) if ev[0] == "complete" else ("E",)
            if ev[0] == "complete":
                subj.on_completed()
            else:
                subj.on_error(ValueError("x"))
            for i in live:
                want[i].append(terminal)
            live = []
        s.advance_to(float(t))
    s.advance_to(float(hist[-1][0]) + 10.0 if hist else 10.0)
    for i in want:
        if got[i] != want[i]:
            return {"what": f"subscriber {i} received {got[i]}, expected {want[i]}", "buffer_size": B, "window": W}
    return None


def histories(max_len):
    evs = [("next", "a"), ("next", None), ("sub",), ("complete",), ("error",)]
    gaps = [0, 1, 2]
    for n in range(1, max_len + 1):
        for combo in itertools.product(evs, repeat=n):
            if sum(1 for e in combo if e[0] == "sub") == 0:
                continue
            for g in itertools.product(gaps, repeat=n) if n <= 3 else [tuple([1] * n), tuple([0] * n), tuple([2, 0, 1, 2, 0][:n])]:
                t, h = 0, []
                for e, d in zip(combo, g):
                    t += d
                    h.append([t, list(e)])
                yield h


def cases(max_len=5):
    # ages that are not whole seconds below one day (fractions of a second; more than a day of silence): the window is a SPAN, compared as such
    for B in (2, None):
        for W in (1, 2, 30):
            for gap in (0.5, 1.5, 2.5, 86400 + 20, 86400 * 2 + 0.25):
                yield {"buffer_size": B, "window": W, "history": [[0, ["next", "a"]], [0, ["next", "b"]], [gap, ["sub"]], [gap, ["next", "c"]], [gap + 0.25, ["sub"]]]}
                yield {"buffer_size": B, "window": W, "history": [[0, ["next", "a"]], [0.25, ["error"]], [gap, ["sub"]]]}
    for B in (0, 1, 2, None):
        for W in (None, 1, 2):
            for h in histories(max_len if (B in (1, None) and W in (None, 1)) else max_len - 1):
                yield {"buffer_size": B, "window": W, "history": h}


REPLAY_TEMPLATE = '''#!/venv/bin/python
"""Replay of a violation of property {prop} (ReplaySubject).
obligation: {oid}
case: {case}
{what}
Exit 1 when it reproduces on the tree under RXVC_REPO (default /repo)."""
import subprocess, sys
r = subprocess.run(["/venv/bin/python", "{verif}/rxvc/replayrun.py", "case", {case!r}])
sys.exit(r.returncode)
'''


def main(argv):
    if argv[0] == "case":
        r = run(json.loads(argv[1]))
        print(json.dumps({"violation": r}, default=repr))
        sys.exit(1 if r else 0)
    opts = json.loads(argv[3]) if len(argv) > 3 else {}
    n, found = 0, None
    for c in cases(opts.get("max_len", 4)):
        n += 1
        r = run(c)
        if r:
            found = {"case": c, "disagreement": r}
            break
    res = {"cases": n, "found": [found] if found else []}
    if found and "replay_path" in opts:
        os.makedirs(os.path.dirname(opts["replay_path"]), exist_ok=True)
        with open(opts["replay_path"], "w") as f:
            f.write(REPLAY_TEMPLATE.format(prop=opts.get("prop", "C22"), oid=opts.get("oid", "?"), verif=VERIF,
                                           case=json.dumps(found["case"]), what=json.dumps(found["disagreement"], default=repr)[:600]))
        res["replay"] = opts["replay_path"]
    print(json.dumps(res, default=repr))


if __name__ == "__main__":
    main(sys.argv[1:])
