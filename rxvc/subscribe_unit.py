"""Contract of `Observable.subscribe` (C01/C03/C09): every subscriber is wrapped.

The REAL body of Observable.subscribe (with its nested fix_subscriber/set_disposable and the real
AutoDetachObserver / SingleAssignmentDisposable / Disposable classes) is executed symbolically for
every argument shape and every behaviour of the subscribe function:
  * the subscribe function receives an AutoDetachObserver built from the user's callbacks (or the
    observer's bound methods) - the user callables flow nowhere else - and the given scheduler;
  * a returned disposable (or bare teardown function) ends up in the wrapper's subscription, so
    that a terminal notification or dispose() reaches it;
  * an exception of the subscribe function is delivered through the wrapper's fail() as on_error,
    exactly once, and propagates only if the wrapper was already stopped;
  * the returned handle is Disposable(wrapper.dispose).
The current-thread trampoline is used through its contract (C30): `schedule(action)` on an idle
trampoline runs the action at once, inside the trampoline; `schedule_required()` is arbitrary.
"""
from __future__ import annotations

import time

import z3

from . import smt
from .interp import NOTSET, Interp, World, explore
from .loader import Loader, all_functions
from .refine import Result
from .values import (
    SV,
    BoundMethod,
    ClassMethodVal,
    Closure,
    Obj,
    Opaque,
    OpaqueMethod,
    PathEnd,
    PyExc,
    Unsupported,
)

FILE = "reactivex/observable/observable.py"


class SubWorld(World):
    def __init__(self, h):
        super().__init__()
        self.h = h
        self.user_calls = []
        self.subscribe_calls = []
        self.behaviour = None
        self.teardown_calls = []
        self.in_item = 0
        self.sub_in_item = []

    def hasattr(self, it, o, name):
        if o.kind == "observer":
            return name in ("on_next", "on_error", "on_completed")
        if o.kind == "disposable":
            return name == "dispose"
        return False

    def truthy(self, it, o):
        if o.kind == "disposable":
            # a disposable may define __len__ / __bool__ (an empty CompositeDisposable is falsy): its truth value is arbitrary
            return z3.Bool("the_returned_disposable_is_truthy")
        return True

    def isinstance(self, it, o, cls):
        n = getattr(cls, "name", "")
        if o.kind == "observer":
            return n == "ObserverBase" and o.attrs.get("is_base", True)
        if o.kind == "disposable":
            return n == "DisposableBase" and o.attrs.get("is_base", True)
        return False

    def call(self, it, o, method, args, kwargs):
        ctx = it.ctx
        if o.kind == "scheduler" and o.name == "cts":
            if method == "schedule_required":
                return SV(z3.Bool("schedule_required"), "bool")
            if method == "schedule":
                # C30 contract: an action scheduled on an idle trampoline runs at once (inside the trampoline)
                self.in_item += 1
                try:
                    return it.call(args[0], [o, args[1] if len(args) > 1 else None], {})
                finally:
                    self.in_item -= 1
        if o.kind == "callback" and o.name == "subscribe_fn":
            self.subscribe_calls.append((list(args), dict(kwargs)))
            self.sub_in_item.append(self.in_item > 0)
            ado = args[0]
            b = self.behaviour
            if b == "returns-disposable":
                return Opaque("disposable", "upstream", is_base=True)
            if b == "returns-duck-disposable":
                return Opaque("disposable", "upstream", is_base=False)
            if b == "returns-teardown":
                return Opaque("callback", "teardown")
            if b == "raises":
                raise PyExc(SV(z3.Const("subscribe_exc", smt.Val), "val", tag="exc"))
            if b == "completes-then-raises":
                it.call(it.get_attr(ado, "on_completed"), [], {})
                raise PyExc(SV(z3.Const("subscribe_exc", smt.Val), "val", tag="exc"))
            if b == "emits-then-returns":
                it.call(it.get_attr(ado, "on_next"), [SV(z3.Const("v0", smt.Val), "val")], {})
                return Opaque("disposable", "upstream", is_base=True)
            raise Unsupported(b)
        if o.kind == "callback" and o.name == "teardown":
            self.teardown_calls.append(1)
            return None
        if o.kind == "callback":
            self.user_calls.append((o.name, [it.to_val(a) for a in args]))
            return None
        if o.kind == "observer":
            self.user_calls.append((method, [it.to_val(a) for a in args]))
            return None
        if o.kind == "disposable" and method == "dispose":
            self.user_calls.append(("upstream.dispose", []))
            return None
        if o.kind in ("lock", "logger"):
            return None
        return super().call(it, o, method, args, kwargs)

    def current_thread(self, it):
        return Opaque("thread", "T")


BEHAVIOURS = ["returns-disposable", "returns-duck-disposable", "returns-teardown", "raises", "completes-then-raises",
              "emits-then-returns"]
SHAPES = ["three-callbacks", "only-on-next", "no-callbacks", "observer-object", "duck-observer"]


class SubscribeHarness:
    def __init__(self, loader=None):
        self.loader = loader or Loader()
        self.results = []
        self.unsupported = None
        self.functions = {}

    def record(self, ctx, oid, goal, detail=""):
        t0 = time.time()
        if isinstance(goal, bool):
            goal = z3.BoolVal(goal)
        v, m, b = smt.prove(ctx.pc, goal)
        ctx.results.append(Result(oid, v, b, smt.model_to_dict(m), list(ctx.branch_log), detail, time.time() - t0, "post"))

    def hook(self, it, f, args, kwargs):
        if isinstance(f, BoundMethod) and isinstance(f.func, Closure) and f.func.qualname == "CurrentThreadScheduler.singleton":
            return Opaque("scheduler", "cts")
        return NOTSET

    def run_case(self, ctx, shape, behaviour):
        w = SubWorld(self)
        w.behaviour = behaviour
        it = Interp(self.loader, ctx, w)
        it.call_hook = self.hook
        obs_cls = it.module_get("reactivex.observable.observable", "Observable")
        ado_cls = it.module_get("reactivex.observer.autodetachobserver", "AutoDetachObserver")
        disp_cls = it.module_get("reactivex.disposable.disposable", "Disposable")
        noop = it.module_get("reactivex.internal.basic", "noop")
        default_error = it.module_get("reactivex.internal.basic", "default_error")
        self_ = Obj(obs_cls)
        self_.fields["_subscribe"] = Opaque("callback", "subscribe_fn")
        self_.fields["lock"] = Opaque("lock", "obs.lock")
        sched = Opaque("scheduler", "user_scheduler") if ctx.choose(2, "scheduler_given") == 0 else None
        cb = {n: Opaque("callback", "user_" + n) for n in ("on_next", "on_error", "on_completed")}
        uid = f"{FILE}::Observable.subscribe/{shape}/{behaviour}"
        if shape == "three-callbacks":
            args, expect = [cb["on_next"], cb["on_error"], cb["on_completed"]], (cb["on_next"], cb["on_error"], cb["on_completed"])
        elif shape == "only-on-next":
            args, expect = [cb["on_next"]], (cb["on_next"], default_error, noop)
        elif shape == "no-callbacks":
            args, expect = [], (noop, default_error, noop)
        else:
            o = Opaque("observer", "user_observer", is_base=(shape == "observer-object"))
            # callbacks passed alongside an observer are ignored
            args = [o, cb["on_error"], cb["on_completed"]]
            expect = (OpaqueMethod(o, "on_next"), OpaqueMethod(o, "on_error"), OpaqueMethod(o, "on_completed"))
        raised = None
        try:
            res = it.call(BoundMethod(self_, it.class_lookup(obs_cls, "subscribe")), args, {"scheduler": sched})
        except PyExc as e:
            raised, res = e.value, None
        # O1 the subscribe function got the wrapper and the scheduler, exactly once
        sc = w.subscribe_calls
        ok1 = len(sc) == 1 and len(sc[0][0]) == 2 and isinstance(sc[0][0][0], Obj) and sc[0][0][0].cls is ado_cls and sc[0][0][1] is sched
        self.record(ctx, uid + "/subscriber-is-wrapped", ok1, detail=f"calls of the subscribe function: {sc!r}"[:300])
        if not ok1:
            return
        # O7 (C14): whenever the current-thread trampoline is idle the subscribe function runs INSIDE a trampoline item -
        # whatever scheduler was given - so that an action a source schedules on the current-thread scheduler is queued
        # (C30) and runs only after the subscription has been assigned
        self.record(ctx, uid + "/runs-inside-a-trampoline-item-when-the-trampoline-is-idle",
                    z3.Implies(z3.Bool("schedule_required"), z3.BoolVal(bool(w.sub_in_item and w.sub_in_item[0]))),
                    detail="schedule_required() was true but _subscribe_core ran outside current_thread_scheduler.schedule(...)")
        ado = sc[0][0][0]
        # O2 the user's callables sit in the wrapper (and nowhere else)
        got = (ado.fields.get("_on_next"), ado.fields.get("_on_error"), ado.fields.get("_on_completed"))
        ok2 = all((a is b) or (a == b and isinstance(a, OpaqueMethod)) for a, b in zip(got, expect))
        self.record(ctx, uid + "/callbacks-flow-into-wrapper-only", ok2, detail=f"wrapper holds {got!r}, expected {expect!r}"[:300])
        # O3/O6 what the user saw during subscribe
        names = [n for n, _ in w.user_calls]
        err_name = "on_error" if shape in ("observer-object", "duck-observer") else "user_on_error"
        nxt_name = "on_next" if shape in ("observer-object", "duck-observer") else "user_on_next"
        cmp_name = "on_completed" if shape in ("observer-object", "duck-observer") else "user_on_completed"
        exc = z3.Const("subscribe_exc", smt.Val)
        if behaviour == "raises":
            if expect[1] is default_error:
                # default_error re-raises: the exception reaches the caller through the default handler
                self.record(ctx, uid + "/exception-delivered-once", raised is not None and names == [], detail=f"{names} raised={raised!r}")
            else:
                ok = names == [err_name] and raised is None
                self.record(ctx, uid + "/exception-delivered-once", ok, detail=f"user saw {names}, raised={raised!r}")
                if ok:
                    self.record(ctx, uid + "/exception-payload", w.user_calls[0][1][0] == exc)
            self.record(ctx, uid + "/wrapper-stopped-after-failure", it.truth_term(ado.fields.get("is_stopped")))
        elif behaviour == "completes-then-raises":
            want = [cmp_name] if expect[2] is not noop else []
            self.record(ctx, uid + "/already-stopped-reraises", raised is not None and names == want, detail=f"user saw {names}, raised={raised!r}")
        else:
            want = [nxt_name] if (behaviour == "emits-then-returns" and expect[0] is not noop) else []
            self.record(ctx, uid + "/no-spurious-callbacks", names == want and raised is None, detail=f"user saw {names}, raised={raised!r}")
            # O5 the upstream disposable is owned by the wrapper
            sad = ado.fields.get("_subscription")
            cur = sad.fields.get("current") if isinstance(sad, Obj) else None
            if behaviour == "returns-teardown":
                ok5 = isinstance(cur, Obj) and cur.cls is disp_cls and isinstance(cur.fields.get("action"), Opaque) and cur.fields["action"].name == "teardown"
            else:
                ok5 = isinstance(cur, Opaque) and cur.kind == "disposable"
            self.record(ctx, uid + "/upstream-owned-by-wrapper", ok5, detail=f"wrapper subscription holds {cur!r}")
        # O4 the handle
        if raised is None:
            act = res.fields.get("action") if isinstance(res, Obj) and res.cls is disp_cls else None
            ok4 = isinstance(act, BoundMethod) and act.self_val is ado and getattr(act.func, "qualname", "") == "AutoDetachObserver.dispose"
            self.record(ctx, uid + "/returns-Disposable(wrapper.dispose)", ok4, detail=f"returned {res!r} action {act!r}")

    def run(self):
        t0 = time.time()
        try:
            node = self.loader.find(FILE, "Observable.subscribe")
            self.functions[f"{FILE}::Observable.subscribe"] = self.loader.sha(FILE, "Observable.subscribe")
            for q, n in all_functions(node, "Observable.subscribe"):
                self.functions[f"{FILE}::{q}"] = self.loader.sha(FILE, q)
            self.functions[f"{FILE}::Observable._subscribe_core"] = self.loader.sha(FILE, "Observable._subscribe_core")
            for shape in SHAPES:
                for b in BEHAVIOURS:
                    paths = explore(lambda ctx, _s=shape, _b=b: self.run_case(ctx, _s, _b))
                    for p in paths:
                        self.results.extend(p.results)
            self.structural()
        except Unsupported as e:
            self.unsupported = str(e)
        except PyExc as e:
            self.unsupported = f"interpreter-level exception: {e.value!r} {getattr(e.value, 'fields', '')}"
        self.seconds = time.time() - t0
        return self

    def structural(self):
        """no class in reactivex/ other than Observable defines `subscribe` (all others override _subscribe_core),
        so every subscription to a library observable goes through the wrapper"""
        import ast

        from .loader import repo_py_files

        offenders = []
        for f in repo_py_files(self.loader.repo, "reactivex"):
            if f.startswith("reactivex/abc/"):
                continue  # abstract declarations only
            m = self.loader.load_file(f)
            for n in ast.walk(m.tree):
                if isinstance(n, ast.ClassDef) and n.name not in ("Observable", "ObservableBase"):
                    for st in n.body:
                        if isinstance(st, ast.FunctionDef) and st.name == "subscribe":
                            if any(isinstance(d, ast.Name) and d.id == "staticmethod" for d in st.decorator_list):
                                continue  # ReactiveTest.subscribe builds a Subscription record, not an observable method
                            offenders.append(f"{f}::{n.name}.subscribe")
        from .interp import Ctx

        ctx = Ctx()
        self.record(ctx, f"{FILE}::Observable.subscribe/structural/only-Observable-defines-subscribe", not offenders,
                    detail=f"classes overriding subscribe: {offenders}")
        self.results.extend(ctx.results)


def run_unit(desc):
    h = SubscribeHarness().run()
    return {
        "unit": f"{FILE}::Observable.subscribe",
        "kind": "function contract (every subscriber is wrapped)",
        "functions": h.functions,
        "results": [r.as_dict() for r in h.results],
        "unsupported": h.unsupported,
        "spec_validation": [],
        "bounded": [],
        "replayable": {"runner": "ownrun.py", "module": "-", "name": "reactivex/observable/observable.py"},
    }
