"""rxvc symbolic interpreter: executes the *real* function bodies of /repo (parsed by the
loader) over a mixed concrete/symbolic value universe.

Path exploration is by re-execution with decision prefixes (no state copying): `explore(fn)`
runs `fn(ctx)` once per path; at each symbolic branch the context consults the prefix or asks
z3 which sides are feasible and queues the alternative.

Unknown code (downstream observer, upstream sources, schedulers, user callbacks, locks) is
represented by `Opaque` objects whose behaviour is supplied by the harness' `World`
(interface contracts).  Anything outside the supported subset raises `Unsupported`.
"""
from __future__ import annotations

import ast

import z3

from . import smt
from .loader import Loader
from .values import *  # noqa: F401,F403
from .values import (
    SV,
    BoolSV,
    BoundMethod,
    ClassMethodVal,
    ClassRef,
    Closure,
    DictObj,
    IntSV,
    IterVal,
    ListObj,
    ModuleVal,
    Native,
    NativeClass,
    Obj,
    Opaque,
    OpaqueMethod,
    PathEnd,
    PropertyVal,
    PyExc,
    RangeVal,
    Sentinel,
    SetObj,
    SliceVal,
    StaticMethodVal,
    SuperProxy,
    Unsupported,
    ValSV,
)

MAX_LOOP = 64
MAX_DEPTH = 120


#: (repo-relative file, line) of every statement of real /repo code the interpreter executed in this process (statement coverage of the
#: symbolic execution: a line of a function under contract that is never reached is a line no obligation speaks about)
LINES_EXECUTED: set = set()

class _Return(Exception):
    def __init__(self, v):
        self.v = v


class _Break(Exception):
    pass


class _Continue(Exception):
    pass


class Env:
    __slots__ = ("vars", "parent", "nonlocals", "globals_", "module", "fn", "cls_env")

    def __init__(self, parent, module, fn=None):
        self.vars = {}
        self.parent = parent
        self.nonlocals = set()
        self.globals_ = set()
        self.module = module
        self.fn = fn
        self.cls_env = False

    def lookup_env(self, name):
        e = self
        if e.cls_env and name in e.vars:
            return e  # code directly in a class body sees the class namespace
        while e is not None:
            if name in e.vars and not e.cls_env:
                return e
            e = e.parent
        return None


# ---------------------------------------------------------------------------
# path context


class Ctx:
    def __init__(self, decisions=()):
        self.decisions = list(decisions)
        self.di = 0
        self.taken = []
        self.alternatives = []
        self.pc = []
        self.solver = z3.Solver()
        self.solver.set("timeout", 3000)
        for a in smt.BASE_AXIOMS:
            self.solver.add(a)
        self.counters = {}
        self.spec = 0
        self.results = []  # obligation results of this path
        self.notes = []
        self.branch_log = []  # (label, bool) human-readable
        self.taint_hook = None

    # -- symbols ----------------------------------------------------------
    def fresh_name(self, base):
        n = self.counters.get(base, 0)
        self.counters[base] = n + 1
        return f"{base}!{n}" if n else base

    def fresh(self, base, kind):
        name = self.fresh_name(base)
        if kind == "int":
            return SV(z3.Int(name), "int")
        if kind == "bool":
            return SV(z3.Bool(name), "bool")
        if kind == "val":
            return SV(z3.Const(name, smt.Val), "val")
        if kind == "seq":
            return SV(z3.Const(name, smt.SeqVal), "seq")
        if kind == "seqev":
            return SV(z3.Const(name, smt.SeqEv), "seqev")
        raise Unsupported(f"fresh kind {kind}")

    # -- path condition ---------------------------------------------------
    def assume(self, t):
        t = z3.simplify(t)
        if z3.is_true(t):
            return
        self.pc.append(t)
        self.solver.add(t)
        if z3.is_false(t):
            raise PathEnd()

    def feasible(self, t):
        self.solver.push()
        self.solver.add(t)
        r = self.solver.check()
        self.solver.pop()
        return r != z3.unsat

    def branch(self, cond, label=""):
        """decide a symbolic condition on this path; returns python bool."""
        cond = z3.simplify(cond)
        if z3.is_true(cond):
            return True
        if z3.is_false(cond):
            return False
        if self.di < len(self.decisions):
            d = self.decisions[self.di]
        else:
            ft = self.feasible(cond)
            ff = self.feasible(z3.Not(cond))
            if ft and ff:
                self.alternatives.append(self.taken + [False])
                d = True
            elif ft:
                d = True
            elif ff:
                d = False
            else:
                raise PathEnd()
        self.di += 1
        self.taken.append(d)
        self.branch_log.append((label or str(cond)[:80], d))
        self.assume(cond if d else z3.Not(cond))
        return d

    def choose(self, n, label="choice"):
        """nondeterministic choice among n alternatives (harness use)."""
        for i in range(n - 1):
            b = z3.Bool(self.fresh_name(f"{label}_{i}"))
            if self.branch(b, f"{label}={i}"):
                return i
        return n - 1


PARTIAL_REFUTED = []


def explore(run, max_paths=4000):
    """run(ctx) for every feasible path. Returns list of ctx (finished paths)."""
    work = [[]]
    done = []
    while work:
        dec = work.pop()
        ctx = Ctx(dec)
        try:
            run(ctx)
            ctx.ended = "ok"
        except PathEnd:
            ctx.ended = "cut"
        except BaseException as e_:
            # the unit leaves the subset (or the harness fails) on this path: what was REFUTED before that - on this path and on the paths
            # already finished - stays refuted; report.py reports it next to the verdict of the bounded stand-in
            from . import loader as _ld
            if not _ld.MUTATED:
                PARTIAL_REFUTED.extend(r for c in done + [ctx] for r in getattr(c, "results", []) if getattr(r, "verdict", None) == "refuted")
            if isinstance(e_, Exception) and not type(e_).__module__.startswith("rxvc"):
                # an assumption of the HARNESS about the shape of the code broke (IndexError, KeyError, AttributeError, a z3 sort error ...): the
                # harness cannot follow this code - that is drift (the bounded stand-in decides), not a verdict and not a crash of the check
                import traceback as _tb
                where = _tb.extract_tb(e_.__traceback__)[-1]
                raise Unsupported(f"the harness cannot follow this code ({type(e_).__name__}: {str(e_)[:120]} at {where.filename.split('/')[-1]}:{where.lineno})") from e_
            raise
        work.extend(ctx.alternatives)
        done.append(ctx)
        if len(done) > max_paths:
            raise Unsupported(f"more than {max_paths} paths")
    return done


# ---------------------------------------------------------------------------
# world: behaviour of opaque objects


class World:
    """default interface contracts; harnesses subclass."""

    def __init__(self):
        self.events = []

    def getattr(self, it, o: Opaque, name):
        if name in o.attrs:
            return o.attrs[name]
        return OpaqueMethod(o, name)

    def setattr(self, it, o: Opaque, name, value):
        o.attrs[name] = value

    def hasattr(self, it, o: Opaque, name):
        return name in o.attrs or name in o.attrs.get("_has", ())

    def isinstance(self, it, o: Opaque, cls):
        return getattr(cls, "name", None) in o.attrs.get("_isa", ())

    def truthy(self, it, o: Opaque):
        return True

    def call(self, it, o: Opaque, method, args, kwargs):
        if o.kind == "callback":
            return self.call_callback(it, o, args, kwargs)
        if o.kind == "lock":
            return None
        raise Unsupported(f"call on opaque {o}.{method}")

    def enter(self, it, o: Opaque):
        if o.kind == "lock":
            it.lock_acquire(o)
            return o
        raise Unsupported(f"with on opaque {o}")

    def exit(self, it, o: Opaque):
        if o.kind == "lock":
            it.lock_release(o)
            return
        raise Unsupported(f"with on opaque {o}")

    def call_callback(self, it, o, args, kwargs):
        """user callback: deterministic uninterpreted function that may raise (A-cb)."""
        if kwargs:
            raise Unsupported("kwargs to user callback")
        ts = [it.to_val(a) for a in args]
        name = o.name
        n = len(ts)
        dom = [smt.Val] * n
        f = z3.Function(f"{name}/{n}", *dom, smt.Val)
        fr = z3.Function(f"{name}_raises/{n}", *dom, z3.BoolSort())
        fe = z3.Function(f"{name}_exc/{n}", *dom, smt.Val)
        side = getattr(self, "side", "impl")
        self.events.append(("cb", name, tuple(ts), side))
        if n == 0:
            # nullary: each call may differ (factories): index by call count - counted separately for the real code and
            # for the spec, so that the k-th call of either side is the same event
            # (a counter of its own: the event log is cleared at the beginning of every step, the call count must go on)
            cnt = self.__dict__.setdefault("nullary_calls", {})
            cnt[(name, side)] = cnt.get((name, side), 0) + 1
            k = cnt[(name, side)]
            idx = z3.IntVal(k)
            f = z3.Function(f"{name}/k", z3.IntSort(), smt.Val)
            fr = z3.Function(f"{name}_raises/k", z3.IntSort(), z3.BoolSort())
            fe = z3.Function(f"{name}_exc/k", z3.IntSort(), smt.Val)
            ts = [idx]
        if o.attrs.get("may_raise", True) and it.ctx.branch(fr(*ts), f"{name} raises"):
            self.events.append(("cb_raised", name, tuple(ts)))
            raise PyExc(SV(fe(*ts), "val", tag="exc"))
        res = f(*ts)
        kind = o.attrs.get("returns", "val")
        if kind == "bool":
            return BoolSV(smt.truthy(res))
        if kind == "int":
            return IntSV(smt.val2int(res))
        return ValSV(res)


# ---------------------------------------------------------------------------

NOTSET = Sentinel("<unset>")


class Interp:
    def __init__(self, loader: Loader, ctx: Ctx, world: World):
        self.loader = loader
        self.ctx = ctx
        self.world = world
        self.module_envs = {}
        self.depth = 0
        self.locks_held = []
        self.externals = {}
        self.loop_contracts = {}  # (qualname, ordinal) -> dict(inv=..., decreases=..., havoc=[...])
        self.on_loop = None
        self.call_hook = None  # fn(it, callee, args, kwargs) -> NOTSET or value (contracts replacing bodies)
        self.attr_read_hook = None  # fn(it, obj, name): before a field of an interpreted object is read
        self.attr_write_hook = None  # fn(it, obj, name, old, new): performs the store itself
        self.list_hook = None  # fn(it, listobj, op, args): before a mutation of a list
        self.stmt_hook = None
        self.current_fn = []
        from . import natives

        natives.install(self)

    # -- locks --------------------------------------------------------------
    def lock_acquire(self, lock):
        self.locks_held.append(lock)
        self.world.events.append(("acquire", lock))

    def lock_release(self, lock):
        for i in range(len(self.locks_held) - 1, -1, -1):
            if self.locks_held[i] is lock:
                del self.locks_held[i]
                break
        self.world.events.append(("release", lock))

    # -- modules --------------------------------------------------------------
    def module_env(self, modname) -> Env:
        if modname not in self.module_envs:
            m = self.loader.load(modname)
            e = Env(None, m)
            self.module_envs[modname] = e
        return self.module_envs[modname]

    def module_get(self, modname, name, _seen=None):
        """value of top-level `name` of repo module `modname` (lazy evaluation of its binding)."""
        env = self.module_env(modname)
        if name in env.vars:
            return env.vars[name]
        key = (modname, name)
        _seen = _seen or set()
        if key in _seen:
            raise Unsupported(f"circular import {key}")
        _seen.add(key)
        m = env.module
        b = m.bindings().get(name)
        if b is None:
            # submodule?
            sub = f"{modname}.{name}"
            if self.loader.module_path(sub):
                v = ModuleVal(sub, True)
                env.vars[name] = v
                return v
            raise PyExc(self.make_exc("AttributeError", f"module {modname} has no {name}"))
        if isinstance(b, (ast.FunctionDef, ast.ClassDef)):
            self.exec_stmt(b, env)
            return env.vars[name]
        if isinstance(b, ast.ImportFrom):
            target = self.loader.resolve_from(m, b.level, b.module)
            for a in b.names:
                if (a.asname or a.name) == name:
                    if target == modname and self.loader.module_path(f"{target}.{a.name}"):
                        v = ModuleVal(f"{target}.{a.name}", True)  # `from . import sub` in a package
                    else:
                        v = self.import_name(target, a.name, _seen)
                    env.vars[name] = v
                    return v
        if isinstance(b, ast.Import):
            for a in b.names:
                if (a.asname or a.name).split(".")[0] == name:
                    if a.asname:
                        v = self.import_module(a.name)
                    else:
                        v = self.import_module(a.name.split(".")[0])
                    env.vars[name] = v
                    return v
        if isinstance(b, (ast.Assign, ast.AnnAssign)):
            self.exec_stmt(b, env)
            if name in env.vars:
                return env.vars[name]
        raise Unsupported(f"cannot resolve {modname}.{name}")

    def import_module(self, dotted):
        if self.loader.is_repo_module(dotted):
            return ModuleVal(dotted, True)
        return ModuleVal(dotted, False)

    def import_name(self, modname, name, _seen=None):
        if self.loader.is_repo_module(modname):
            m = self.loader.load(modname)
            if name in m.bindings():
                return self.module_get(modname, name, _seen)
            sub = f"{modname}.{name}"
            if self.loader.module_path(sub):
                return ModuleVal(sub, True)
            raise Unsupported(f"{modname} has no {name}")
        return self.external(f"{modname}.{name}")

    def external(self, dotted):
        if dotted in self.externals:
            return self.externals[dotted]
        top = dotted.split(".")[0]
        if top in ("typing", "typing_extensions", "collections.abc") or dotted.startswith("collections.abc."):
            return Sentinel(f"<typing {dotted}>")
        return Opaque("external", dotted)

    # -- helpers: conversions -------------------------------------------------
    def make_exc(self, clsname, msg=""):
        cls = self.externals.get(f"builtins.{clsname}")
        o = Obj(cls)
        o.fields["args"] = (msg,)
        return o

    def to_int(self, v):
        if isinstance(v, bool):
            return z3.IntVal(1 if v else 0)
        if isinstance(v, int):
            return z3.IntVal(v)
        if isinstance(v, SV):
            if v.kind == "int":
                return v.t
            if v.kind == "bool":
                return z3.If(v.t, 1, 0)
            if v.kind == "val":
                return smt.val2int(v.t)
        raise Unsupported(f"to_int({v!r})")

    def to_val(self, v):
        if v is None:
            return smt.NONE
        if isinstance(v, SV):
            if v.kind == "val":
                return v.t
            if v.kind == "int":
                return smt.int2val(v.t)
            if v.kind == "bool":
                return smt.bool2val(v.t)
            if v.kind == "seq":
                return z3.Function("seq2val", smt.SeqVal, smt.Val)(v.t)
            raise Unsupported(f"to_val({v})")
        if isinstance(v, bool):
            return smt.bool2val(z3.BoolVal(v))
        if isinstance(v, int):
            return smt.int2val(z3.IntVal(v))
        if isinstance(v, str):
            return smt.str_const(v)
        if isinstance(v, float):
            return smt.str_const(f"float:{v!r}")
        if isinstance(v, tuple):
            ts = [self.to_val(x) for x in v]
            if len(ts) == 2:
                t = smt.tup2(*ts)
                self.ctx.assume(z3.And(smt.tup2_0(t) == ts[0], smt.tup2_1(t) == ts[1]))
                return t
            if len(ts) == 3:
                return smt.tup3(*ts)
            f = z3.Function(f"tup{len(ts)}", *([smt.Val] * len(ts)), smt.Val)
            return f(*ts) if ts else smt.str_const("()")
        if isinstance(v, ListObj):
            if v.symbolic:
                return z3.Function("seq2val", smt.SeqVal, smt.Val)(v.term)
            t = z3.Empty(smt.SeqVal)
            for x in v.items:
                t = z3.Concat(t, z3.Unit(self.to_val(x)))
            return z3.Function("seq2val", smt.SeqVal, smt.Val)(z3.simplify(t))
        if isinstance(v, Opaque) and "term" in v.attrs:
            return v.attrs["term"]
        if isinstance(v, SetObj) and (v.symbolic or v.hist is not None):
            # a set is a function of its insertion history
            t = v.log if v.symbolic else self.seq_term(ListObj(list(v.hist)))
            return z3.Function("seq2set", smt.SeqVal, smt.Val)(z3.simplify(t))
        if isinstance(v, DictObj) and (v.symbolic or v.hist is not None):
            t = v.log if v.symbolic else self.seq_term(ListObj([(k, x) for k, x in v.hist]))
            return z3.Function("seq2dict", smt.SeqVal, smt.Val)(z3.simplify(t))
        if isinstance(v, (Obj, Opaque, Closure, ClassRef, NativeClass, DictObj, SetObj)):
            oid = getattr(v, "oid", None)
            if oid is None:
                oid = id(v) % 1000003
            return smt.ref2val(z3.IntVal(self.ref_id(v)))
        if isinstance(v, (BoundMethod, OpaqueMethod, Native, Sentinel)):
            return smt.ref2val(z3.IntVal(self.ref_id(v)))
        raise Unsupported(f"to_val({v!r})")

    def ref_id(self, v):
        tab = self.__dict__.setdefault("_refs", [])
        for i, x in enumerate(tab):
            if x is v or (isinstance(v, (BoundMethod, OpaqueMethod)) and x == v):
                return i + 1
        tab.append(v)
        return len(tab)

    def seq_term(self, lst: ListObj):
        if lst.symbolic:
            return lst.term
        t = z3.Empty(smt.SeqVal)
        for x in lst.items:
            t = z3.Concat(t, z3.Unit(self.to_val(x)))
        return t

    def elem_from_term(self, lst_elem, t):
        """wrap a Val term read back from a symbolic list according to its declared element kind"""
        if lst_elem == "val":
            return ValSV(t)
        if lst_elem == "int":
            return IntSV(smt.val2int(t))
        if lst_elem.startswith("tup:"):
            kinds = lst_elem[4:].split(",")
            if len(kinds) == 2:
                return (self.elem_from_term(kinds[0], smt.tup2_0(t)), self.elem_from_term(kinds[1], smt.tup2_1(t)))
        if lst_elem.startswith("ref:"):
            return self.world.deref(self, lst_elem[4:], t)
        if lst_elem == "tsnotif":
            n = self.notif_from_val(smt.tup2_0(t))
            cls = self.module_get("reactivex.operators._timestamp", "Timestamp")
            return self.call(cls, [], {"value": n, "timestamp": IntSV(smt.val2int(smt.tup2_1(t)))})
        if lst_elem == "tupnotif":
            return (self.notif_from_val(smt.tup2_0(t)), IntSV(smt.val2int(smt.tup2_1(t))))
        if lst_elem.startswith("rec:"):
            # a dict record with fixed string keys, stored as the tuple of its fields: rec:interval=int,value=val
            fs = [f.split("=") for f in lst_elem[4:].split(",")]
            if len(fs) == 2:
                return DictObj({fs[0][0]: self.elem_from_term(fs[0][1], smt.tup2_0(t)), fs[1][0]: self.elem_from_term(fs[1][1], smt.tup2_1(t))})
        raise Unsupported(f"element kind {lst_elem}")

    # -- notifications and time-stamped notifications as list elements (delay's queue) -------------------------------
    NOTIF_KINDS = {"OnNext": 1, "OnCompleted": 2, "OnError": 3}

    def notif_to_val(self, n):
        """a Notification object as the pair (kind code, payload)"""
        if not (isinstance(n, Obj) and n.cls.name in self.NOTIF_KINDS):
            raise Unsupported(f"notification expected: {n!r}")
        k = self.NOTIF_KINDS[n.cls.name]
        payload = n.fields.get("value") if k == 1 else (n.fields.get("exception") if k == 3 else None)
        if k == 3:
            self.ctx.notes.append("error-record-stored")
        t = self.to_val((k, payload))
        # the kind code of the record can be read back (ground instance of val2int(int2val(k)) == k)
        self.ctx.assume(smt.val2int(smt.tup2_0(t)) == k)
        return t

    def notif_from_val(self, t):
        """decode; the lists that hold notifications hold elements and completions only (checked where they are stored)"""
        kind = smt.val2int(smt.tup2_0(t))
        self.ctx.assume(z3.Or(kind == 1, kind == 2))
        mod = "reactivex.notification"
        if self.ctx.branch(kind == 1, "the record is an element"):
            return self.call(self.module_get(mod, "OnNext"), [ValSV(smt.tup2_1(t))], {})
        return self.call(self.module_get(mod, "OnCompleted"), [], {})

    def elem_to_val(self, lst_elem, v):
        """encode a value stored into a symbolic list according to the list's declared element kind"""
        if lst_elem == "tsnotif":
            # Timestamp(value=<notification>, timestamp=<int>)
            if not (isinstance(v, Obj) and v.cls.name == "Timestamp"):
                raise Unsupported(f"Timestamp record expected: {v!r}")
            return self.to_val((ValSV(self.notif_to_val(v.fields["value"])), v.fields["timestamp"]))
        if lst_elem == "tupnotif":
            if not (isinstance(v, tuple) and len(v) == 2):
                raise Unsupported(f"(notification, due) expected: {v!r}")
            return self.to_val((ValSV(self.notif_to_val(v[0])), v[1]))
        if lst_elem.startswith("rec:"):
            fs = [f.split("=") for f in lst_elem[4:].split(",")]
            if not (isinstance(v, DictObj) and not v.symbolic and set(v.d) == {f[0] for f in fs}):
                raise Unsupported(f"record expected for element kind {lst_elem}: {v!r}")
            return self.to_val(tuple(v.d[f[0]] for f in fs))
        return self.to_val(v)

    # -- truthiness -------------------------------------------------------------
    def truth_term(self, v):
        """truthiness as a formula (no branching) or python bool"""
        if isinstance(v, SV):
            if v.kind == "bool":
                return v.t
            if v.kind == "int":
                return v.t != 0
            if v.kind == "val":
                if self.ctx.taint_hook:
                    self.ctx.taint_hook("truthy", v)
                return smt.truthy(v.t)
            if v.kind in ("seq", "seqev"):
                return z3.Length(v.t) > 0
            raise Unsupported(f"truth of {v}")
        if isinstance(v, ListObj):
            if v.symbolic:
                return z3.Length(v.term) > 0
            return len(v.items) > 0
        if isinstance(v, DictObj):
            return len(v.d) > 0
        if isinstance(v, SetObj):
            return len(v.s) > 0
        if isinstance(v, Obj):
            f = self.class_lookup(v.cls, "__bool__") or self.class_lookup(v.cls, "__len__")
            if f is not None:
                r = self.call(self.bind(v, f), [], {})
                return self.truth_term(r)
            return True
        if isinstance(v, Opaque):
            return self.world.truthy(self, v)
        if isinstance(v, RangeVal):
            return self.truth_term(self.range_len(v))
        if v is None or isinstance(v, (bool, int, float, str, tuple)):
            return bool(v)
        if isinstance(v, IterVal):
            return True
        return True

    def truth(self, v, label=""):
        t = self.truth_term(v)
        if isinstance(t, bool):
            return t
        return self.ctx.branch(t, label)

    def range_len(self, r: RangeVal):
        if all(isinstance(x, int) for x in (r.start, r.stop, r.step)):
            return len(range(r.start, r.stop, r.step))
        if r.step == 1:
            d = self.to_int(r.stop) - self.to_int(r.start)
            return IntSV(z3.If(d > 0, d, 0))
        raise Unsupported("symbolic range step")

    # -- function calls -----------------------------------------------------------
    def bind(self, selfv, f):
        if isinstance(f, (Closure, Native)):
            return BoundMethod(selfv, f)
        return f

    def call(self, f, args, kwargs=None):
        kwargs = kwargs or {}
        self.depth += 1
        if self.depth > MAX_DEPTH:
            self.depth -= 1
            raise Unsupported("recursion depth")
        try:
            return self._call(f, args, kwargs)
        finally:
            self.depth -= 1

    def _call(self, f, args, kwargs):
        if self.call_hook is not None:
            r = self.call_hook(self, f, args, kwargs)
            if r is not NOTSET:
                return r
        if isinstance(f, Closure):
            return self.call_closure(f, args, kwargs)
        if isinstance(f, BoundMethod):
            return self._call(f.func, [f.self_val] + list(args), kwargs)
        if isinstance(f, Native):
            return f.fn(self, args, kwargs)
        if isinstance(f, ClassRef):
            return self.instantiate(f, args, kwargs)
        if isinstance(f, NativeClass):
            if f.construct is None:
                raise Unsupported(f"construct {f.name}")
            return f.construct(self, f, args, kwargs)
        if isinstance(f, OpaqueMethod):
            return self.world.call(self, f.obj, f.name, args, kwargs)
        if isinstance(f, Opaque):
            return self.world.call(self, f, "__call__", args, kwargs)
        if isinstance(f, Obj):
            m = self.class_lookup(f.cls, "__call__")
            if m is not None:
                return self._call(self.bind(f, m), args, kwargs)
        if isinstance(f, StaticMethodVal):
            return self._call(f.f, args, kwargs)
        if isinstance(f, Sentinel) and f.name.startswith("<typing"):
            return Sentinel("<typing-obj>")
        raise Unsupported(f"call of {f!r}")

    def bind_args(self, fn: Closure, args, kwargs, env: Env):
        a = fn.node.args
        params = [p.arg for p in a.posonlyargs + a.args]
        nd = len(fn.defaults)
        args = list(args)
        kwargs = dict(kwargs)
        for i, p in enumerate(params):
            if i < len(args):
                env.vars[p] = args[i]
                if p in kwargs:
                    raise PyExc(self.make_exc("TypeError", f"multiple values for {p}"))
            elif p in kwargs:
                env.vars[p] = kwargs.pop(p)
            else:
                di = i - (len(params) - nd)
                if di >= 0:
                    env.vars[p] = fn.defaults[di]
                else:
                    raise PyExc(self.make_exc("TypeError", f"{fn.qualname}: missing argument {p}"))
        extra = args[len(params):]
        if a.vararg:
            env.vars[a.vararg.arg] = tuple(extra)
        elif extra:
            raise PyExc(self.make_exc("TypeError", f"{fn.qualname}: too many positional arguments"))
        for p in a.kwonlyargs:
            if p.arg in kwargs:
                env.vars[p.arg] = kwargs.pop(p.arg)
            elif p.arg in fn.kw_defaults:
                env.vars[p.arg] = fn.kw_defaults[p.arg]
            else:
                raise PyExc(self.make_exc("TypeError", f"{fn.qualname}: missing kw-only {p.arg}"))
        if a.kwarg:
            d = DictObj()
            for k, v in kwargs.items():
                d.d[k] = v
            env.vars[a.kwarg.arg] = d
        elif kwargs:
            raise PyExc(self.make_exc("TypeError", f"{fn.qualname}: unexpected keyword {sorted(kwargs)}"))

    def call_closure(self, fn: Closure, args, kwargs):
        env = Env(fn.env, fn.module, fn)
        self.bind_args(fn, args, kwargs, env)
        node = fn.node
        if isinstance(node, ast.Lambda):
            return self.eval(node.body, env)
        if _is_generator(node):
            raise Unsupported(f"generator function {fn.qualname}")
        self.current_fn.append(fn)
        try:
            self.exec_block(node.body, env)
        except _Return as r:
            return r.v
        finally:
            self.current_fn.pop()
        return None

    # -- classes --------------------------------------------------------------------
    def mro(self, cls):
        if cls.mro is not None:
            return cls.mro
        seqs = [list(self.mro(b)) for b in cls.bases] + [list(cls.bases)]
        res = [cls]
        seqs = [s for s in seqs if s]
        while seqs:
            for s in seqs:
                cand = s[0]
                if not any(cand in t[1:] for t in seqs):
                    break
            else:
                raise Unsupported(f"MRO conflict for {cls.name}")
            res.append(cand)
            for s in seqs:
                if s and s[0] is cand:
                    del s[0]
            seqs = [s for s in seqs if s]
        cls.mro = res
        return res

    def class_lookup(self, cls, name, after=None):
        mro = self.mro(cls)
        if after is not None:
            mro = mro[mro.index(after) + 1:]
        for c in mro:
            if name in c.attrs:
                return c.attrs[name]
        return None

    def is_subclass(self, cls, target):
        if isinstance(target, tuple):
            return any(self.is_subclass(cls, t) for t in target)
        return target in self.mro(cls)

    def instantiate(self, cls: ClassRef, args, kwargs):
        new = self.class_lookup(cls, "__new__")
        if isinstance(new, Closure):
            o = self._call(new, [cls] + list(args), kwargs)
            if not (isinstance(o, Obj) and cls in self.mro(o.cls)):
                return o
        else:
            o = Obj(cls)
        init = self.class_lookup(cls, "__init__")
        if init is not None and not (isinstance(init, Native) and init.name == "object.__init__"):
            self._call(self.bind(o, init), args, kwargs)
        elif any(isinstance(c, NativeClass) and c.is_exc for c in self.mro(cls)):
            o.fields["args"] = tuple(args)
        return o

    def get_attr(self, v, name):
        if isinstance(v, Obj):
            if self.attr_read_hook is not None:
                self.attr_read_hook(self, v, name)
            ca = self.class_lookup(v.cls, name)
            if isinstance(ca, PropertyVal):
                if ca.fget is None:
                    raise PyExc(self.make_exc("AttributeError", f"unreadable attribute {name}"))
                return self.call(ca.fget, [v], {})
            if name in v.fields:
                return v.fields[name]
            if ca is not None:
                if isinstance(ca, (Closure, Native)):
                    return BoundMethod(v, ca)
                if isinstance(ca, StaticMethodVal):
                    return ca.f
                if isinstance(ca, ClassMethodVal):
                    return BoundMethod(v.cls, ca.f)
                return ca
            if name == "__class__":
                return v.cls
            raise PyExc(self.make_exc("AttributeError", f"{v!r} has no attribute {name}"))
        if isinstance(v, Opaque) and v.kind == "external":
            return self.external(f"{v.name}.{name}")
        if isinstance(v, Opaque):
            return self.world.getattr(self, v, name)
        if isinstance(v, ModuleVal):
            if v.repo:
                m = self.loader.load(v.name)
                if name in m.bindings() or self.loader.module_path(f"{v.name}.{name}"):
                    return self.module_get(v.name, name)
                raise PyExc(self.make_exc("AttributeError", f"module {v.name} has no {name}"))
            return self.external(f"{v.name}.{name}")
        if isinstance(v, (ClassRef, NativeClass)):
            ca = self.class_lookup(v, name)
            if ca is None:
                if name == "__name__":
                    return v.name
                raise PyExc(self.make_exc("AttributeError", f"class {v.name} has no {name}"))
            if isinstance(ca, StaticMethodVal):
                return ca.f
            if isinstance(ca, ClassMethodVal):
                return BoundMethod(v, ca.f)
            return ca
        if isinstance(v, SuperProxy):
            ca = self.class_lookup(v.obj.cls if isinstance(v.obj, Obj) else v.obj, name, after=v.after_cls)
            if ca is None:
                raise PyExc(self.make_exc("AttributeError", f"super has no {name}"))
            if isinstance(ca, PropertyVal):
                return self.call(ca.fget, [v.obj], {})
            if name == "__new__":
                return ca
            if isinstance(ca, ClassMethodVal):
                return BoundMethod(v.obj if isinstance(v.obj, (ClassRef, NativeClass)) else v.obj.cls, ca.f)
            return self.bind(v.obj, ca)
        if isinstance(v, Closure):
            if name in v.attrs:
                return v.attrs[name]
            if name == "__name__":
                return v.node.name if hasattr(v.node, "name") else "<lambda>"
            raise PyExc(self.make_exc("AttributeError", f"function has no {name}"))
        from . import natives

        return natives.builtin_attr(self, v, name)

    def set_attr(self, v, name, val):
        if isinstance(v, Obj):
            ca = self.class_lookup(v.cls, name)
            if isinstance(ca, PropertyVal):
                if ca.fset is None:
                    raise PyExc(self.make_exc("AttributeError", f"can't set attribute {name}"))
                self.call(ca.fset, [v, val], {})
                return
            if self.attr_write_hook is not None:
                self.attr_write_hook(self, v, name, v.fields.get(name, NOTSET), val)
                return
            v.fields[name] = val
            return
        if isinstance(v, Opaque):
            self.world.setattr(self, v, name, val)
            return
        if isinstance(v, Closure):
            v.attrs[name] = val
            return
        if isinstance(v, ClassRef):
            v.attrs[name] = val
            return
        raise Unsupported(f"setattr on {v!r}")

    def has_attr(self, v, name):
        if isinstance(v, Opaque):
            return self.world.hasattr(self, v, name)
        if isinstance(v, Obj):
            return name in v.fields or self.class_lookup(v.cls, name) is not None
        if isinstance(v, (Closure, Native, BoundMethod, OpaqueMethod)):
            return name in ("__call__", "__name__")
        if v is None or isinstance(v, (int, str, float, tuple, SV)):
            return False
        try:
            self.get_attr(v, name)
            return True
        except PyExc:
            return False

    def isinstance_(self, v, cls):
        if isinstance(cls, tuple):
            return any(self.isinstance_(v, c) for c in cls)
        if isinstance(v, Obj):
            return cls in self.mro(v.cls)
        if isinstance(v, Opaque):
            return self.world.isinstance(self, v, cls)
        from . import natives

        return natives.builtin_isinstance(self, v, cls)

    # -- statements ----------------------------------------------------------------------
    def exec_block(self, stmts, env):
        for st in stmts:
            self.exec_stmt(st, env)

    def assign_name(self, env: Env, name, val):
        if name in env.nonlocals:
            e = env.parent.lookup_env(name) if env.parent else None
            if e is None:
                raise Unsupported(f"nonlocal {name} unbound")
            e.vars[name] = val
        elif name in env.globals_:
            self.module_env(env.module.name).vars[name] = val
        else:
            env.vars[name] = val

    def lookup(self, env: Env, name):
        e = env.lookup_env(name)
        if e is not None:
            return e.vars[name]
        # module level
        m = env.module
        if m is not None:
            menv = self.module_env(m.name)
            if name in menv.vars:
                return menv.vars[name]
            if name in m.bindings():
                return self.module_get(m.name, name)
        b = self.externals.get(f"builtins.{name}")
        if b is not None or f"builtins.{name}" in self.externals:
            return b
        raise PyExc(self.make_exc("NameError", f"name {name} is not defined"))

    def assign(self, target, val, env):
        if isinstance(target, ast.Name):
            self.assign_name(env, target.id, val)
        elif isinstance(target, ast.Attribute):
            self.set_attr(self.eval(target.value, env), target.attr, val)
        elif isinstance(target, ast.Subscript):
            from . import natives

            natives.setitem(self, self.eval(target.value, env), self.eval_slice(target.slice, env), val)
        elif isinstance(target, (ast.Tuple, ast.List)):
            items = self.iterate(val)
            if len(items) != len(target.elts):
                raise PyExc(self.make_exc("ValueError", "unpack length mismatch"))
            for t, v in zip(target.elts, items):
                self.assign(t, v, env)
        else:
            raise Unsupported(f"assign target {type(target).__name__}")

    def exec_stmt(self, st, env):
        if self.stmt_hook:
            self.stmt_hook(self, st, env)
        m_ = env.module
        if m_ is not None and not self.ctx.spec:
            LINES_EXECUTED.add((getattr(m_, "relpath", None) or m_.name, st.lineno))
        k = type(st)
        if k is ast.Expr:
            if isinstance(st.value, ast.Constant):
                return
            self.eval(st.value, env)
        elif k is ast.Assign:
            v = self.eval(st.value, env)
            for t in st.targets:
                self.assign(t, v, env)
        elif k is ast.AnnAssign:
            if st.value is not None:
                self.assign(st.target, self.eval(st.value, env), env)
        elif k is ast.AugAssign:
            from . import natives

            cur = self.eval(_load(st.target), env)
            v = self.eval(st.value, env)
            self.assign(st.target, natives.binop(self, st.op, cur, v, inplace=True), env)
        elif k is ast.Return:
            raise _Return(self.eval(st.value, env) if st.value is not None else None)
        elif k is ast.If:
            if self.truth(self.eval(st.test, env), _src(st.test)):
                self.exec_block(st.body, env)
            else:
                self.exec_block(st.orelse, env)
        elif k is ast.FunctionDef:
            self.exec_funcdef(st, env)
        elif k is ast.ClassDef:
            self.exec_classdef(st, env)
        elif k is ast.Pass:
            pass
        elif k is ast.Nonlocal:
            env.nonlocals.update(st.names)
        elif k is ast.Global:
            env.globals_.update(st.names)
        elif k is ast.Raise:
            self.exec_raise(st, env)
        elif k is ast.Try:
            self.exec_try(st, env)
        elif k is ast.With:
            self.exec_with(st, env, 0)
        elif k is ast.While:
            self.exec_while(st, env)
        elif k is ast.For:
            self.exec_for(st, env)
        elif k is ast.Break:
            raise _Break()
        elif k is ast.Continue:
            raise _Continue()
        elif k is ast.Assert:
            if not self.truth(self.eval(st.test, env), "assert " + _src(st.test)):
                raise PyExc(self.make_exc("AssertionError", _src(st.test)))
        elif k is ast.Delete:
            from . import natives

            for t in st.targets:
                if isinstance(t, ast.Subscript):
                    natives.delitem(self, self.eval(t.value, env), self.eval_slice(t.slice, env))
                elif isinstance(t, ast.Name):
                    e = env.lookup_env(t.id)
                    if e:
                        del e.vars[t.id]
                else:
                    raise Unsupported("del target")
        elif k is ast.Import:
            for a in st.names:
                if a.asname:
                    env.vars[a.asname] = self.import_module(a.name)
                else:
                    env.vars[a.name.split(".")[0]] = self.import_module(a.name.split(".")[0])
        elif k is ast.ImportFrom:
            target = self.loader.resolve_from(env.module, st.level, st.module)
            for a in st.names:
                env.vars[a.asname or a.name] = self.import_name(target, a.name)
        else:
            raise Unsupported(f"statement {k.__name__}")

    def exec_funcdef(self, st, env):
        qual = self.qualname(env, st.name)
        fn = Closure(st, env if not env.cls_env else env.parent, env.module, qual)
        if env.cls_env:
            fn.owner_cls = env.vars.get("__classref__")
        fn.defaults = [self.eval(d, env) for d in st.args.defaults]
        fn.kw_defaults = {
            a.arg: self.eval(d, env) for a, d in zip(st.args.kwonlyargs, st.args.kw_defaults) if d is not None
        }
        v = fn
        for dec in reversed(st.decorator_list):
            d = self.eval(dec, env)
            v = self.apply_decorator(d, v, dec)
        if v is not None:
            self.assign_name(env, st.name, v)

    def apply_decorator(self, d, v, dec_node):
        if isinstance(d, Sentinel) and d.name.startswith("<typing"):
            # typing.overload / abstractmethod-like
            if "overload" in d.name:
                return None
            return v
        return self.call(d, [v], {})

    def qualname(self, env, name):
        parts = [name]
        e = env
        while e is not None:
            if e.fn is not None:
                parts.append(e.fn.qualname)
                break
            if e.cls_env:
                parts.append(e.vars["__classref__"].qualname)
                break
            e = e.parent
        return ".".join(reversed(parts))

    def exec_classdef(self, st, env):
        bases = []
        for b in st.bases:
            bv = self.eval(b, env)
            if isinstance(bv, (ClassRef, NativeClass)):
                bases.append(bv)
            elif isinstance(bv, Sentinel):
                continue  # Generic[...] / Protocol
            else:
                raise Unsupported(f"base class {bv!r}")
        obj = self.externals["builtins.object"]
        if not bases:
            bases = [obj]
        cls = ClassRef(st.name, st, env.module, bases, self.qualname(env, st.name))
        cenv = Env(env, env.module)
        cenv.cls_env = True
        cenv.vars["__classref__"] = cls
        self.exec_block(st.body, cenv)
        for k, v in cenv.vars.items():
            if k != "__classref__":
                cls.attrs[k] = v
        v = cls
        for dec in reversed(st.decorator_list):
            d = self.eval(dec, env)
            v = self.apply_decorator(d, v, dec)
        self.assign_name(env, st.name, v)

    def exec_raise(self, st, env):
        if st.exc is None:
            cur = getattr(self, "_handling", None)
            if not cur:
                raise PyExc(self.make_exc("RuntimeError", "No active exception to reraise"))
            raise PyExc(cur[-1])
        v = self.eval(st.exc, env)
        if isinstance(v, (ClassRef, NativeClass)):
            v = self.call(v, [], {})
        raise PyExc(v)

    def exc_matches(self, excv, clsv):
        if isinstance(clsv, tuple):
            return any(self.exc_matches(excv, c) for c in clsv)
        if isinstance(excv, Obj):
            return clsv in self.mro(excv.cls)
        if isinstance(excv, SV):
            # symbolic exception raised by user code: an arbitrary Exception instance (A-order)
            name = getattr(clsv, "name", "?")
            if name in ("Exception", "BaseException"):
                return True
            p = z3.Function(f"exc_isinstance_{name}", smt.Val, z3.BoolSort())
            return self.ctx.branch(p(excv.t), f"isinstance(exc,{name})")
        if isinstance(excv, Opaque):
            name = getattr(clsv, "name", "?")
            if name == "Exception" and excv.attrs.get("base_exception_only"):
                return False  # e.g. asyncio.CancelledError: a BaseException that is not an Exception
            if name in ("Exception", "BaseException"):
                return True
            return self.world.isinstance(self, excv, clsv)
        raise Unsupported(f"exception value {excv!r}")

    def exec_try(self, st, env):
        try:
            try:
                self.exec_block(st.body, env)
            except PyExc as e:
                handled = False
                for h in st.handlers:
                    if h.type is None or self.exc_matches(e.value, self.eval(h.type, env)):
                        handled = True
                        if h.name:
                            env.vars[h.name] = e.value
                        stack = self.__dict__.setdefault("_handling", [])
                        stack.append(e.value)
                        try:
                            self.exec_block(h.body, env)
                        finally:
                            stack.pop()
                        break
                if not handled:
                    raise
            else:
                self.exec_block(st.orelse, env)
        finally:
            if st.finalbody:
                self.exec_block(st.finalbody, env)

    def exec_with(self, st, env, i):
        if i == len(st.items):
            self.exec_block(st.body, env)
            return
        item = st.items[i]
        cm = self.eval(item.context_expr, env)
        if isinstance(cm, Opaque):
            v = self.world.enter(self, cm)
            exit_ = lambda: self.world.exit(self, cm)  # noqa: E731
        elif isinstance(cm, Obj):
            v = self.call(self.get_attr(cm, "__enter__"), [], {})
            exit_ = lambda: self.call(self.get_attr(cm, "__exit__"), [None, None, None], {})  # noqa: E731
        else:
            raise Unsupported(f"with {cm!r}")
        if item.optional_vars is not None:
            self.assign(item.optional_vars, v, env)
        try:
            self.exec_with(st, env, i + 1)
        finally:
            exit_()

    def loop_key(self, st):
        fn = self.current_fn[-1] if self.current_fn else None
        if fn is None:
            return None
        loops = [n for n in ast.walk(fn.node) if isinstance(n, (ast.While, ast.For))]
        loops = [n for n in loops if _owner_is(fn.node, n)]
        loops.sort(key=lambda n: (n.lineno, n.col_offset))
        return (fn.qualname, loops.index(st)) if st in loops else None

    def exec_while(self, st, env):
        key = self.loop_key(st)
        lc = self.loop_contracts.get(key) if key else None
        if lc is not None and self.on_loop is not None:
            return self.on_loop(self, st, env, key, lc)
        n = 0
        while True:
            if not self.truth(self.eval(st.test, env), "while " + _src(st.test)):
                self.exec_block(st.orelse, env)
                return
            n += 1
            if n > MAX_LOOP:
                raise Unsupported(f"loop at line {st.lineno} needs an invariant (>{MAX_LOOP} iterations)")
            try:
                self.exec_block(st.body, env)
            except _Break:
                return
            except _Continue:
                continue

    def exec_for(self, st, env):
        it = self.eval(st.iter, env)
        key = self.loop_key(st)
        lc = self.loop_contracts.get(key) if key else None
        if lc is not None and self.on_loop is not None:
            return self.on_loop(self, st, env, key, lc, iterable=it)
        if isinstance(it, ListObj) and it.symbolic and it.elem == "val" and hasattr(self.world, "trace"):
            # `for x in <symbolic list>: obs.on_next(x)` == emit the whole sequence, in order
            b = st.body
            if (len(b) == 1 and isinstance(b[0], ast.Expr) and isinstance(b[0].value, ast.Call)
                    and isinstance(b[0].value.func, ast.Attribute) and b[0].value.func.attr == "on_next"
                    and len(b[0].value.args) == 1 and isinstance(b[0].value.args[0], ast.Name)
                    and isinstance(st.target, ast.Name) and b[0].value.args[0].id == st.target.id
                    and not st.orelse):
                obs = self.eval(b[0].value.func.value, env)
                if isinstance(obs, Opaque) and obs.kind == "observer":
                    self.world.trace(obs.name).chunk(it.term)
                    self.world.events.append(("down", obs.name, "on_next*", it.term))
                    return
                if isinstance(obs, Opaque) and obs.kind == "subject" and hasattr(self.world, "to_chunk"):
                    self.world.to_chunk(self, obs, "on_next", it.term)
                    return
        if isinstance(it, ListObj) and it.symbolic and it.elem.startswith("ref:") and hasattr(self.world, "broadcast"):
            # `for o in <symbolic list of objects>: o.m(args)` == one broadcast event over the whole list
            b = st.body
            ok = isinstance(st.target, ast.Name) and not st.orelse and len(b) >= 1
            def receiver(s_):
                """the loop variable, possibly through typing.cast(T, var)"""
                v = s_.value.func.value
                if (isinstance(v, ast.Call) and isinstance(v.func, ast.Name) and v.func.id == "cast" and len(v.args) == 2
                        and isinstance(v.args[1], ast.Name)):
                    v = v.args[1]
                return v
            for s_ in b:
                ok = ok and (isinstance(s_, ast.Expr) and isinstance(s_.value, ast.Call)
                             and isinstance(s_.value.func, ast.Attribute) and isinstance(receiver(s_), ast.Name)
                             and receiver(s_).id == st.target.id and not s_.value.keywords
                             and st.target.id not in {n.id for a in s_.value.args for n in ast.walk(a) if isinstance(n, ast.Name)})
            if ok:
                calls = [(s_.value.func.attr, self.eval_elts(s_.value.args, env)) for s_ in b]
                if len(calls) == 1:
                    self.world.broadcast(self, it, calls[0][0], calls[0][1])
                else:
                    self.world.broadcast_multi(self, it, calls)
                return
        if isinstance(it, ListObj) and it.symbolic and it.elem.startswith("ref:") and hasattr(self.world, "broadcast_general"):
            # any other loop over a symbolic list of objects: one ARBITRARY iteration must amount to the same calls on the
            # loop variable and nothing else (then the loop is those calls on every member, in order)
            return self.world.broadcast_general(self, st, env, it)
        if isinstance(it, IterVal):
            # consume the iterator step by step (shared position)
            n = 0
            while True:
                nxt = self.iter_next(it)
                if nxt is NOTSET:
                    break
                n += 1
                if n > MAX_LOOP:
                    raise Unsupported("for over iterator needs an invariant")
                self.assign(st.target, nxt, env)
                try:
                    self.exec_block(st.body, env)
                except _Break:
                    return
                except _Continue:
                    continue
            self.exec_block(st.orelse, env)
            return
        items = self.iterate(it)
        for x in items:
            self.assign(st.target, x, env)
            try:
                self.exec_block(st.body, env)
            except _Break:
                return
            except _Continue:
                continue
        self.exec_block(st.orelse, env)

    def iter_next(self, it: IterVal):
        if it.src is not None:
            return it.src(self, it)
        if it.pos < len(it.items):
            v = it.items[it.pos]
            it.pos += 1
            return v
        return NOTSET

    def iterate(self, v):
        """materialise an iterable as a python list of values (concrete length required)"""
        if isinstance(v, ListObj):
            if v.symbolic:
                # a symbolic sequence whose length is forced by the path condition?
                ln = z3.simplify(z3.Length(v.term))
                n = self.concrete_int(ln)
                if n is None:
                    raise Unsupported("iteration over a symbolic-length list needs a loop invariant")
                return [self.elem_from_term(v.elem, z3.simplify(v.term[i])) for i in range(n)]
            return list(v.items)
        if isinstance(v, tuple):
            return list(v)
        if isinstance(v, RangeVal):
            if all(isinstance(x, int) for x in (v.start, v.stop, v.step)):
                r = range(v.start, v.stop, v.step)
                if len(r) > 4 * MAX_LOOP:
                    raise Unsupported("long concrete range")
                return list(r)
            raise Unsupported("iteration over a symbolic range needs a loop invariant")
        if isinstance(v, DictObj):
            return list(v.d.keys())
        if isinstance(v, SetObj):
            return list(v.s)
        if isinstance(v, str):
            return list(v)
        if isinstance(v, IterVal):
            out = []
            while True:
                x = self.iter_next(v)
                if x is NOTSET:
                    return out
                out.append(x)
                if len(out) > 4 * MAX_LOOP:
                    raise Unsupported("unbounded iterator")
        if isinstance(v, Opaque):
            return self.world.iterate(self, v)
        raise Unsupported(f"iterate {v!r}")

    def concrete_int(self, t):
        t = z3.simplify(t)
        if z3.is_int_value(t):
            return t.as_long()
        return None

    # -- expressions ----------------------------------------------------------------------
    def eval_slice(self, node, env):
        if isinstance(node, ast.Slice):
            return SliceVal(
                self.eval(node.lower, env) if node.lower else None,
                self.eval(node.upper, env) if node.upper else None,
                self.eval(node.step, env) if node.step else None,
            )
        return self.eval(node, env)

    def eval(self, node, env):
        from . import natives

        k = type(node)
        if k is ast.Constant:
            return node.value
        if k is ast.Name:
            return self.lookup(env, node.id)
        if k is ast.Attribute:
            return self.get_attr(self.eval(node.value, env), node.attr)
        if k is ast.Call:
            return self.eval_call(node, env)
        if k is ast.Compare:
            left = self.eval(node.left, env)
            result = None
            for op, rn in zip(node.ops, node.comparators):
                right = self.eval(rn, env)
                r = natives.compare(self, op, left, right)
                if len(node.ops) == 1:
                    return r
                if self.ctx.spec:
                    rt = self.truth_term(r)
                    result = rt if result is None else natives.mk_and(result, rt)
                else:
                    if not self.truth(r, _src(node)):
                        return False
                    result = True
                left = right
            if self.ctx.spec and not isinstance(result, bool):
                return BoolSV(result)
            return result
        if k is ast.BoolOp:
            if self.ctx.spec:
                terms = [self.truth_term(self.eval(v, env)) for v in node.values]
                r = terms[0]
                for t in terms[1:]:
                    r = natives.mk_and(r, t) if isinstance(node.op, ast.And) else natives.mk_or(r, t)
                return r if isinstance(r, bool) else BoolSV(r)
            v = None
            for i, vn in enumerate(node.values):
                v = self.eval(vn, env)
                if i == len(node.values) - 1:
                    return v
                t = self.truth(v, _src(vn))
                if isinstance(node.op, ast.And) and not t:
                    return v
                if isinstance(node.op, ast.Or) and t:
                    return v
            return v
        if k is ast.UnaryOp:
            v = self.eval(node.operand, env)
            if isinstance(node.op, ast.Not):
                if self.ctx.spec:
                    t = self.truth_term(v)
                    return (not t) if isinstance(t, bool) else BoolSV(z3.Not(t))
                t = self.truth_term(v)
                if isinstance(t, bool):
                    return not t
                return BoolSV(z3.Not(t))
            if isinstance(node.op, ast.USub):
                if isinstance(v, (int, float)):
                    return -v
                if isinstance(v, SV) and v.kind == "val":
                    return ValSV(z3.Function("val_neg", smt.Val, smt.Val)(v.t))
                return IntSV(-self.to_int(v))
            if isinstance(node.op, ast.UAdd):
                return v
            if isinstance(node.op, ast.Invert) and isinstance(v, int):
                return ~v
            raise Unsupported("unary op")
        if k is ast.BinOp:
            return natives.binop(self, node.op, self.eval(node.left, env), self.eval(node.right, env))
        if k is ast.IfExp:
            c = self.eval(node.test, env)
            if self.ctx.spec:
                t = self.truth_term(c)
                if isinstance(t, bool):
                    return self.eval(node.body if t else node.orelse, env)
                a = self.eval(node.body, env)
                b = self.eval(node.orelse, env)
                return natives.mk_ite(self, t, a, b)
            return self.eval(node.body if self.truth(c, _src(node.test)) else node.orelse, env)
        if k is ast.Tuple:
            return tuple(self.eval_elts(node.elts, env))
        if k is ast.List:
            if any(isinstance(e, ast.Starred) for e in node.elts):
                # [*xs, y] over a symbolic list: a sequence term
                parts, elem, sym = [], "val", False
                for e in node.elts:
                    if isinstance(e, ast.Starred):
                        v = self.eval(e.value, env)
                        if isinstance(v, ListObj) and v.symbolic:
                            sym, elem = True, v.elem
                            parts.append(("seq", v.term))
                        else:
                            parts.extend(("one", x) for x in self.iterate(v))
                    else:
                        parts.append(("one", self.eval(e, env)))
                if not sym:
                    return ListObj([x for _, x in parts])
                ts = [t if kind == "seq" else z3.Unit(self.to_val(t)) for kind, t in parts]
                return ListObj(term=z3.Concat(*ts) if len(ts) > 1 else ts[0], elem=elem)
            return ListObj(self.eval_elts(node.elts, env))
        if k is ast.Dict:
            d = DictObj()
            for kn, vn in zip(node.keys, node.values):
                if kn is None:
                    src = self.eval(vn, env)
                    d.d.update(src.d)
                else:
                    d.d[natives.hashable(self, self.eval(kn, env))] = self.eval(vn, env)
            return d
        if k is ast.Set:
            return SetObj(self.eval_elts(node.elts, env))
        if k is ast.Subscript:
            base = self.eval(node.value, env)
            if isinstance(base, (ClassRef, NativeClass)):
                return base  # Generic subscription
            if isinstance(base, Sentinel) and base.name.startswith("<typing"):
                return base
            return natives.getitem(self, base, self.eval_slice(node.slice, env))
        if k is ast.Lambda:
            fn = Closure(node, env, env.module, self.qualname(env, "<lambda>"))
            fn.defaults = [self.eval(d, env) for d in node.args.defaults]
            fn.kw_defaults = {
                a.arg: self.eval(d, env)
                for a, d in zip(node.args.kwonlyargs, node.args.kw_defaults)
                if d is not None
            }
            return fn
        if k is ast.GeneratorExp and getattr(self, "genexp_hook", None) is not None:
            r = self.genexp_hook(self, node, env)
            if r is not NOTSET:
                return r
        if k in (ast.ListComp, ast.GeneratorExp, ast.SetComp):
            out = []
            self.eval_comp(node, 0, Env(env, env.module), out)
            if k is ast.GeneratorExp:
                return IterVal(out)
            if k is ast.SetComp:
                return SetObj(out)
            return ListObj(out)
        if k is ast.DictComp:
            raise Unsupported("dict comprehension")
        if k is ast.JoinedStr:
            parts = []
            for v in node.values:
                if isinstance(v, ast.Constant):
                    parts.append(str(v.value))
                else:
                    parts.append("{?}")
            return "".join(parts)
        if k is ast.Starred:
            raise Unsupported("starred outside call")
        if k is ast.NamedExpr:
            v = self.eval(node.value, env)
            self.assign(node.target, v, env)
            return v
        raise Unsupported(f"expression {k.__name__}")

    def eval_comp(self, node, gi, env, out):
        if gi == len(node.generators):
            out.append(self.eval(node.elt, env))
            return
        g = node.generators[gi]
        for x in self.iterate(self.eval(g.iter, env)):
            self.assign(g.target, x, env)
            if all(self.truth(self.eval(c, env)) for c in g.ifs):
                self.eval_comp(node, gi + 1, env, out)

    def eval_elts(self, elts, env):
        out = []
        for e in elts:
            if isinstance(e, ast.Starred):
                out.extend(self.iterate(self.eval(e.value, env)))
            else:
                out.append(self.eval(e, env))
        return out

    def eval_call(self, node, env):
        # super() needs the defining class
        if isinstance(node.func, ast.Name) and node.func.id == "super" and not node.args:
            fn = None
            e = env
            while e is not None and fn is None:
                if e.fn is not None and e.fn.owner_cls is not None:
                    fn = e.fn
                e = e.parent
            if fn is None:
                raise Unsupported("super() outside method")
            # first positional parameter of that method
            a = fn.node.args
            first = (a.posonlyargs + a.args)[0].arg
            ee = env.lookup_env(first)
            return SuperProxy(ee.vars[first], fn.owner_cls)
        f = self.eval(node.func, env)
        if len(node.args) == 1 and isinstance(node.args[0], ast.Starred):
            sv = self.eval(node.args[0].value, env)
            if isinstance(sv, SV) and sv.kind == "val":
                # f(*x) for an arbitrary element x: one abstract argument "x unpacked" (same on both sides of a contract)
                args = [ValSV(z3.Function("val_unpacked", smt.Val, smt.Val)(sv.t))]
            else:
                args = list(self.iterate(sv))
        else:
            args = self.eval_elts(node.args, env)
        kwargs = {}
        for kw in node.keywords:
            if kw.arg is None:
                d = self.eval(kw.value, env)
                if not isinstance(d, DictObj):
                    raise Unsupported("** of non-dict")
                kwargs.update(d.d)
            else:
                kwargs[kw.arg] = self.eval(kw.value, env)
        return self.call(f, args, kwargs)


def _is_generator(fnode):
    for n in ast.walk(fnode):
        if isinstance(n, (ast.Yield, ast.YieldFrom)) and _owner_is(fnode, n):
            return True
    return False


def _owner_is(fnode, target):
    """is `target` directly inside fnode (not inside a nested def/lambda/class)?"""
    stack = list(ast.iter_child_nodes(fnode))
    while stack:
        n = stack.pop()
        if n is target:
            return True
        if isinstance(n, (ast.FunctionDef, ast.AsyncFunctionDef, ast.Lambda, ast.ClassDef)):
            continue
        stack.extend(ast.iter_child_nodes(n))
    return False


def _load(target):
    import copy

    t = copy.copy(target)
    t.ctx = ast.Load()
    return t


def _src(node):
    try:
        return ast.unparse(node)[:80]
    except Exception:  # pragma: no cover
        return type(node).__name__
