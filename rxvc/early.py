"""C14 - early termination cancels synchronous never-ending sources: the composition unit.

The property is a bounded-work claim over whole pipelines.  The family decides it as a chain of per-function contracts,
each proved in its own unit of this check (the registry adds them to C14):
  (a) producers           srcfac.py (C37 contracts): from_iterable's loop runs only while its stop flag is clear and the
                          disposable it returns sets that flag; range / generate / repeat (concat engine) emit ONE element
                          per scheduled action and re-schedule through a slot of the returned disposable
  (b) early terminators   K1 contracts of take_, take_while_, first_, element_at_or_default_, ...: completion right after the
                          deciding element
  (c) the wrapper         AutoDetachObserver (K2): the terminal notification disposes the subscription
  (d) ownership           own.py (K5): that disposal reaches the producer's flag / slot through every stage
  (e) the bootstrap       Observable.subscribe: `_subscribe_core` runs inside a trampoline item whenever the current-thread
                          trampoline is idle, whatever scheduler was given; Trampoline (C30): an action scheduled while an
                          item runs is queued and runs after that item returned - so the producer's first action runs only
                          after the subscription has been assigned
  (f) THIS unit           every producer schedules on `scheduler or scheduler_ or CurrentThreadScheduler.singleton()`:
                          without an explicit scheduler it is the bootstrapped trampoline of (e).
Composition (L14, argued in DESIGN.md, not machine-checked as one theorem): with the default scheduler or the singleton
given explicitly, work after the deciding element is at most one producer step per level.

What the chain does NOT cover is decided by the bounded native run (c14run.py, never counted as proved): an explicit
ImmediateScheduler or a fresh CurrentThreadScheduler() instance (hypothesis of (e) fails: the producer runs inside
`_subscribe_core`, before any disposable exists), and starvation (a producer that never leaves its trampoline item
while an inner source waits in the queue behind it)."""
from __future__ import annotations

import ast
import json
import os
import time

from .loader import Loader

PRODUCERS = [
    ("reactivex/observable/fromiterable.py", "from_iterable_"),
    ("reactivex/observable/range.py", "range_"),
    ("reactivex/observable/generate.py", "generate_"),
    ("reactivex/observable/returnvalue.py", "return_value_"),
    ("reactivex/observable/concat.py", "concat_with_iterable_"),
    ("reactivex/observable/catch.py", "catch_with_iterable_"),
    ("reactivex/observable/onerrorresumenext.py", "on_error_resume_next_"),
]


def default_scheduler_ok(fn):
    """every schedule* receiver inside fn is a name bound to `[scheduler or] [scheduler_ or] CurrentThreadScheduler.singleton()`"""
    bound = {}
    for n in ast.walk(fn):
        if isinstance(n, ast.Assign) and len(n.targets) == 1 and isinstance(n.targets[0], ast.Name):
            v = n.value
            ok = False
            if isinstance(v, ast.BoolOp) and isinstance(v.op, ast.Or):
                last = v.values[-1]
                ok = (ast.unparse(last) == "CurrentThreadScheduler.singleton()"
                      and all(isinstance(x, ast.Name) and x.id in ("scheduler", "scheduler_") for x in v.values[:-1]))
            if ok:
                bound[n.targets[0].id] = n.lineno
    sites, bad = 0, []
    for n in ast.walk(fn):
        if isinstance(n, ast.Call) and isinstance(n.func, ast.Attribute) and n.func.attr in ("schedule", "schedule_relative", "schedule_absolute"):
            r = n.func.value
            sites += 1
            if not (isinstance(r, ast.Name) and (r.id in bound or r.id in ("scheduler", "sched", "_") and _is_action_param(fn, n, r.id))):
                bad.append(f"line {n.lineno}: `{ast.unparse(n)[:60]}`")
    return sites, bad, bound


def _is_action_param(fn, call, name):
    """the receiver is the scheduler parameter of the action the call sits in (rescheduling on the scheduler that runs it)"""
    for f in ast.walk(fn):
        if isinstance(f, ast.FunctionDef) and f is not fn and any(c is call for c in ast.walk(f)):
            if f.args.args and f.args.args[0].arg == name:
                return True
    return False


def run_unit(desc):
    from .report import REPLAY_DIR, VERIF, native
    t0 = time.time()
    tier = desc.get("tier", "quick")
    loader = Loader()
    results, functions = [], {}
    for rel, fname in PRODUCERS:
        fn = loader.find(rel, fname)
        functions[f"{rel}::{fname}"] = loader.sha(rel, fname)
        sites, bad, bound = default_scheduler_ok(fn)
        results.append({"id": f"{rel}::{fname}/early/schedules-on-the-current-thread-singleton-unless-a-scheduler-is-given",
                        "verdict": "proved" if (sites and not bad and bound) else "refuted", "backend": "ast-contract", "model": {}, "path": [],
                        "detail": "" if (sites and not bad) else f"scheduling calls on something else than `scheduler or scheduler_ or CurrentThreadScheduler.singleton()`: {bad or 'none found'}",
                        "seconds": 0.0, "kind": "early"})
    rep = {"unit": "early-termination/C14", "kind": "C14 composition: producers schedule on the bootstrapped trampoline (AST contract) + bounded native run of what the chain does not cover",
           "functions": functions, "results": results, "unsupported": None, "spec_validation": [], "bounded": [], "seconds": 0.0}
    # the bounded part: never counted as proved; a failing configuration is a violation with its concrete pipeline
    scheds = ["default", "singleton"] if tier == "quick" else None
    args = [os.path.join(VERIF, "rxvc", "c14run.py"), "list"] + ([json.dumps(scheds)] if scheds else [])
    import subprocess
    import sys
    try:
        out = subprocess.run(["/venv/bin/python"] + args, capture_output=True, text=True, timeout=900,
                             env=dict(os.environ, RXVC_REPO=loader.repo))
        rows = [json.loads(ln) for ln in out.stdout.splitlines() if ln.startswith("{")]
    except Exception as e:  # noqa: BLE001
        rows = []
        rep["crash"] = f"c14run.py did not run: {e!r}"
    if not rows and "crash" not in rep:
        rep["crash"] = "c14run.py produced no cases: " + out.stderr[-400:]
    if tier == "quick":
        # the two explicit-scheduler configurations: two representative pipelines each (all of them in the thorough tier)
        for s in ("immediate", "fresh_current_thread"):
            for src in ("from_iterable", "range"):
                c = {"source": src, "through": "-", "terminator": "take", "scheduler": s}
                r = subprocess.run(["/venv/bin/python", os.path.join(VERIF, "rxvc", "c14run.py"), "case", json.dumps(c)], capture_output=True, text=True,
                                   timeout=60, env=dict(os.environ, RXVC_REPO=loader.repo))
                try:
                    v = json.loads(r.stdout.strip().splitlines()[-1])["violation"]
                except Exception:  # noqa: BLE001
                    v = {"what": "runner error: " + r.stderr[-200:]}
                rows.append({"id": f"{src}|-|take[{s}]", "case": c, "violation": v})
    by_cfg = {}
    for row in rows:
        by_cfg.setdefault(row["case"]["scheduler"], []).append(row)
    for cfg, rs in sorted(by_cfg.items()):
        failing = [r for r in rs if r["violation"]]
        rep["bounded"].append({"function": f"c14run.py [{cfg}]", "bound": f"{len(rs)} pipelines (5 never-ending sources x pass-through stages x early terminators), "
                               f"work budget 3000 source steps, at most 60 steps allowed", "cases": len(rs), "mismatches": len(failing),
                               "role": "bounded stand-in for what the contract chain does not cover" if cfg in ("immediate", "fresh_current_thread")
                               else "cross-check of the contract chain against CPython + decides starvation"})
        if cfg in ("immediate", "fresh_current_thread"):
            # one finding per configuration: the hypothesis of (e) fails for all of its pipelines alike
            if failing:
                f0 = failing[0]
                results.append({"id": f"c14run/explicit-{cfg}-scheduler/subscribe-returns-after-bounded-work", "verdict": "refuted", "backend": "native-bounded",
                                "model": {}, "path": [], "seconds": 0.0, "kind": "bounded",
                                "detail": f"{len(failing)} of {len(rs)} pipelines, e.g. {f0['id']}: {f0['violation']['what'][:300]}",
                                "replay_info": {"runner": "c14run.py", "module": "-", "name": f0["id"], "mode": "replay"}})
        else:
            for f in failing:
                results.append({"id": f"c14run/{f['id']}/subscribe-returns-after-bounded-work", "verdict": "refuted", "backend": "native-bounded",
                                "model": {}, "path": [], "seconds": 0.0, "kind": "bounded", "detail": f["violation"]["what"][:400],
                                "replay_info": {"runner": "c14run.py", "module": "-", "name": f["id"], "mode": "replay"}})
    rep["seconds"] = time.time() - t0
    _ = (REPLAY_DIR, native, sys)
    return rep
