"""SMT layer of rxvc: sorts, term helpers, discharge (z3 first, cvc5 on unknown).

Sorts (DESIGN §2.4):
  Int   - Python ints (unbounded: mathematical integers are exact); also virtual time (A-time)
  Bool
  Val   - uninterpreted: arbitrary user elements, constant NONE, uninterpreted truthy/py_eq,
          injections int2val/bool2val/ref2val/str2val and tuple constructors
  Ev    - datatype N(Val) | E(Val) | C   (one downstream notification)
  Seq[Val], Seq[Ev]
"""
from __future__ import annotations

import os
import subprocess
import tempfile
import time

import z3

Val = z3.DeclareSort("Val")
NONE = z3.Const("NONE", Val)
truthy = z3.Function("truthy", Val, z3.BoolSort())
py_eq = z3.Function("py_eq", Val, Val, z3.BoolSort())
int2val = z3.Function("int2val", z3.IntSort(), Val)
val2int = z3.Function("val2int", Val, z3.IntSort())
bool2val = z3.Function("bool2val", z3.BoolSort(), Val)
ref2val = z3.Function("ref2val", z3.IntSort(), Val)
str2val = z3.Function("str2val", z3.IntSort(), Val)
tup2 = z3.Function("tup2", Val, Val, Val)
tup2_0 = z3.Function("tup2_0", Val, Val)
tup2_1 = z3.Function("tup2_1", Val, Val)
tup3 = z3.Function("tup3", Val, Val, Val, Val)
is_int = z3.Function("is_int", Val, z3.BoolSort())

Ev = z3.Datatype("Ev")
Ev.declare("N", ("val", Val))
Ev.declare("E", ("err", Val))
Ev.declare("C")
Ev = Ev.create()

SeqVal = z3.SeqSort(Val)
SeqEv = z3.SeqSort(Ev)
SeqInt = z3.SeqSort(z3.IntSort())

#: axioms that are always assumed (ground facts about the Val sort)
BASE_AXIOMS = [z3.Not(truthy(NONE))]

Z3_TIMEOUT_MS = int(os.environ.get("RXVC_Z3_TIMEOUT_MS", "10000"))
CVC5_TIMEOUT_S = int(os.environ.get("RXVC_CVC5_TIMEOUT_S", "30"))

_str_ids: dict[str, int] = {}


def str_const(s: str):
    """distinct Python strings map to distinct Val constants (str2val is only applied to
    distinct integers and we add injectivity on the ids we use through distinctness axioms
    emitted lazily by callers that need it)."""
    if s not in _str_ids:
        _str_ids[s] = len(_str_ids)
    return str2val(z3.IntVal(_str_ids[s]))


class Stats:
    def __init__(self):
        self.z3_queries = 0
        self.z3_time = 0.0
        self.cvc5_queries = 0
        self.cvc5_time = 0.0
        self.by_backend = {"z3": 0, "cvc5": 0}

    def merge(self, o: "Stats"):
        self.z3_queries += o.z3_queries
        self.z3_time += o.z3_time
        self.cvc5_queries += o.cvc5_queries
        self.cvc5_time += o.cvc5_time
        for k, v in o.by_backend.items():
            self.by_backend[k] = self.by_backend.get(k, 0) + v

    def as_dict(self):
        return {
            "z3_queries": self.z3_queries,
            "z3_seconds": round(self.z3_time, 3),
            "cvc5_queries": self.cvc5_queries,
            "cvc5_seconds": round(self.cvc5_time, 3),
            "discharged_by": dict(self.by_backend),
        }


STATS = Stats()


def _cvc5_check(assertions, timeout_s=None) -> str:
    """Export to SMT-LIB and ask cvc5. Returns 'unsat' | 'sat' | 'unknown'."""
    timeout_s = timeout_s or CVC5_TIMEOUT_S
    s = z3.Solver()
    for a in assertions:
        s.add(a)
    text = s.to_smt2()
    if "seq.nth_i" in text or "seq.nth_u" in text:
        return "unknown"
    # z3 prints (set-info ...) first; cvc5 needs a logic
    text = "(set-logic ALL)\n" + text
    fd, path = tempfile.mkstemp(suffix=".smt2", prefix="rxvc_")
    try:
        with os.fdopen(fd, "w") as f:
            f.write(text)
        t0 = time.time()
        try:
            r = subprocess.run(
                ["/usr/bin/cvc5", "--strings-exp", f"--tlimit={timeout_s * 1000}", path],
                capture_output=True,
                text=True,
                timeout=timeout_s + 5,
            )
            out = r.stdout.strip().splitlines()
            res = out[0].strip() if out else "unknown"
        except subprocess.TimeoutExpired:
            res = "unknown"
        STATS.cvc5_queries += 1
        STATS.cvc5_time += time.time() - t0
    finally:
        try:
            os.unlink(path)
        except OSError:
            pass
    return res if res in ("sat", "unsat") else "unknown"


#: seconds this process has spent in queries that ended `unknown`.  On the unchanged tree there are none; a changed tree can produce
#: dozens (each costs the z3 budget plus the cvc5 budget).  Once the allowance is used up the remaining queries of the process get
#: a short z3 budget and no second solver: the unit ends undecided (or violated) in minutes instead of a quarter of an hour.
UNKNOWN_SPENT = [0.0]
UNKNOWN_ALLOWANCE_S = float(os.environ.get("RXVC_UNKNOWN_ALLOWANCE_S", "45"))


def check_sat(assertions, timeout_ms=None, use_cvc5=True):
    """Returns (verdict, model_or_None, backend). verdict in sat/unsat/unknown."""
    s = z3.Solver()
    exhausted = UNKNOWN_SPENT[0] > UNKNOWN_ALLOWANCE_S
    if exhausted:
        timeout_ms, use_cvc5 = min(timeout_ms or Z3_TIMEOUT_MS, 2000), False
    t_query = time.time()
    s.set("timeout", timeout_ms or Z3_TIMEOUT_MS)
    for a in BASE_AXIOMS:
        s.add(a)
    for a in assertions:
        s.add(a)
    t0 = time.time()
    r = s.check()
    STATS.z3_queries += 1
    STATS.z3_time += time.time() - t0
    if r == z3.unsat:
        return "unsat", None, "z3"
    if r == z3.sat:
        return "sat", s.model(), "z3"
    if use_cvc5:
        r2 = _cvc5_check(list(BASE_AXIOMS) + list(assertions))
        if r2 == "unsat":
            return "unsat", None, "cvc5"
        if r2 == "sat":
            return "sat", None, "cvc5"
    UNKNOWN_SPENT[0] += time.time() - t_query
    return "unknown", None, "none"


def prove(pc, goal, timeout_ms=None):
    """Is pc => goal valid?  Returns (verdict, model, backend) with verdict in
    'proved' | 'refuted' | 'unknown'."""
    v, m, b = check_sat(list(pc) + [z3.Not(goal)], timeout_ms)
    if v == "unsat":
        STATS.by_backend[b] = STATS.by_backend.get(b, 0) + 1
        return "proved", None, b
    if v == "sat":
        return "refuted", m, b
    return "unknown", None, b


def model_to_dict(model, limit=60):
    if model is None:
        return {}
    out = {}
    for d in model.decls():
        if len(out) >= limit:
            break
        try:
            out[d.name()] = str(model[d])[:200]
        except Exception:  # pragma: no cover
            pass
    return out


def py_floordiv(a, b):
    if isinstance(b, int) or z3.is_int_value(b):
        bv = b if isinstance(b, int) else b.as_long()
        if bv > 0:
            return a / b
        if bv < 0:
            return (-a) / (-b)
    return z3.If(b > 0, a / b, (-a) / (-b))


def py_mod(a, b):
    if isinstance(b, int) or z3.is_int_value(b):
        bv = b if isinstance(b, int) else b.as_long()
        if bv > 0:
            return a % b
        if bv < 0:
            return -((-a) % (-b))
    return z3.If(b > 0, a % b, -((-a) % (-b)))
