"""C32: rely/guarantee contracts for ScheduledObserver / ObserveOnObserver / observe_on, discharged on the real code.

Two roles touch a ScheduledObserver: the PRODUCER (whoever calls on_next/on_error/on_completed - serial by the
notification grammar) appends a thunk and calls ensure_active; the RUNNER is whoever executes a scheduled `run`.
Ghost: one OWNER TOKEN.  It exists iff `is_acquired` and not `has_faulted`; it is minted by the critical section of
ensure_active that flips `is_acquired` to True, travels with every `scheduler.schedule(self.run)` call, and is given up by the
critical section of run that sets `is_acquired` to False (or destroyed by a fault).  Each method of the REAL class is
executed as one thread of its role against an ARBITRARY environment of the other role: whenever the thread does not hold
the object's lock (before acquiring it, at every unlocked access of a shared field, at exit) the other role may have run
any of its atomic steps any number of times - the fields are havocked subject to that role's guarantee:
     producer's guarantee (what the runner relies on):  queue only grows at the tail; has_faulted unchanged;
                                                        is_acquired only False -> True;
     runner's guarantee (what the producer relies on):  queue only loses elements at the head, or becomes empty together
                                                        with has_faulted := True; is_acquired only True -> False and only
                                                        in a critical section that saw the queue empty; has_faulted only grows.
Obligations, for every interleaving and any number of queued notifications:
  ensure_active   decides under the lock; its critical section keeps the producer's guarantee; it schedules `self.run` -
                  exactly once, outside the lock, keeping the handle in `self.disposable` - iff that section minted the
                  token (not faulted, queue non-empty, not acquired); afterwards "not faulted and queue non-empty implies
                  acquired" (no lost wake-up: a received notification is never left without an owner).
  run             (entered with the token) its first critical section either takes the HEAD of the queue or - only when the
                  queue is empty in that very section - gives the token up and returns without delivering or scheduling;
                  the thunk taken is invoked exactly once, outside the lock, by the token holder (never two deliveries at
                  once, in the order received); on normal return it schedules `self.run` exactly once, keeping the token;
                  when the thunk raises, the queue is emptied and has_faulted set in one critical section, nothing is
                  scheduled and the same exception propagates (after a delivery raises nothing further is delivered).
  thunks          _on_next_core / _on_error_core / _on_completed_core append exactly one thunk at the tail (one atomic
                  list.append, A-gil) which, when invoked, makes exactly that one call on the downstream observer.
  ObserveOnObserver   each core is the inherited core followed by ensure_active.
  observe_on_     subscribes the source once with an ObserveOnObserver over (the given scheduler, the observer).
  dispose         stops the observer and cancels the pending run.
"""
from __future__ import annotations

import time

import z3

from . import smt
from .interp import NOTSET, Interp, World, explore
from .loader import Loader, all_functions
from .refine import Result
from .values import SV, BoolSV, BoundMethod, Closure, ListObj, Native, Obj, Opaque, PathEnd, PyExc, Unsupported
from .catchsched import conj, same

SFILE = "reactivex/observer/scheduledobserver.py"
OFILE = "reactivex/observer/observeonobserver.py"
PFILE = "reactivex/operators/_observeon.py"
SHARED = ("queue", "is_acquired", "has_faulted")


class OWorld(World):
    def __init__(self, h):
        super().__init__()
        self.h = h
        self.log = []
        self.depth = 0
        self.n = 0

    def enter(self, it, o):
        if o.kind == "lock" and o.name != "so.lock":
            return o  # some other object's lock (the SerialDisposable's): not this monitor
        if o.kind == "lock":
            if self.depth == 0:
                self.h.interfere(it, "acquire")
            self.depth += 1
            self.log.append(("acquire",))
            return o
        return super().enter(it, o)

    def exit(self, it, o):
        if o.kind == "lock" and o.name != "so.lock":
            return
        if o.kind == "lock":
            self.depth -= 1
            post = self.h.snapshot(it)
            self.log.append(("release", post))
            if self.depth == 0:
                self.h.guarantee_at_release(it, post)
            return
        return super().exit(it, o)

    def call(self, it, o, method, args, kwargs):
        ctx = it.ctx
        if o.kind == "scheduler":
            self.n += 1
            d = Opaque("disposable", f"handle#{self.n}")
            self.log.append(("schedule", method, list(args), dict(kwargs), d, self.depth))
            return d
        if o.kind == "callback" and o.name == "thunk":
            self.log.append(("work", o.attrs["term"], self.depth))
            if ctx.choose(2, "the delivery raises") == 1:
                e = SV(ctx.fresh("delivery_exc", "val").t, "val", tag="exc")
                self.log.append(("work_raised", e))
                raise PyExc(e)
            return None
        if o.kind == "observer":
            self.log.append(("down", method, list(args)))
            return None
        if o.kind == "disposable":
            self.log.append(("dispose", o))
            return None
        if o.kind in ("lock", "logger"):
            return None
        return super().call(it, o, method, args, kwargs)


class SchedObsHarness:
    def __init__(self, loader=None):
        self.loader = loader or Loader()
        self.results = []
        self.unsupported = None
        self.functions = {}

    def rec(self, ctx, oid, goal, detail=""):
        t0 = time.time()
        if isinstance(goal, bool):
            goal = z3.BoolVal(goal)
        v, m, b = smt.prove(ctx.pc, goal)
        ctx.results.append(Result(oid, v, b, smt.model_to_dict(m), list(ctx.branch_log), detail, time.time() - t0, "post"))

    # -- shared state ------------------------------------------------------------------------------------
    def snapshot(self, it):
        o = self.obj
        return {"queue": it.seq_term(o.fields["queue"]), "acq": self.bt(it, o.fields["is_acquired"]), "flt": self.bt(it, o.fields["has_faulted"])}

    def bt(self, it, v):
        t = it.truth_term(v)
        return z3.BoolVal(t) if isinstance(t, bool) else t

    def set_state(self, it, q, acq, flt):
        o = self.obj
        o.fields["queue"] = ListObj(term=q, elem="thunk")
        o.fields["is_acquired"] = BoolSV(acq)
        o.fields["has_faulted"] = BoolSV(flt)

    def interfere(self, it, where):
        """the other role ran any number of its atomic steps: havoc the shared fields under its guarantee"""
        if self.role is None or self.w.depth > 0:
            return
        ctx = it.ctx
        old = self.snapshot(it)
        q = ctx.fresh(f"queue_{where}", "seq").t
        if self.role == "runner":
            # environment = the producer: appends at the tail; may (re)assert is_acquired; never faults
            extra = ctx.fresh(f"appended_{where}", "seq").t
            ctx.assume(q == z3.Concat(old["queue"], extra))
            acq = z3.Or(old["acq"], ctx.fresh(f"acq_{where}", "bool").t)
            self.set_state(it, q, z3.simplify(acq) if self.holds_token else acq, old["flt"])
            if self.holds_token:
                # while this thread owns the token nobody can mint another: is_acquired stays True
                o = self.obj
                o.fields["is_acquired"] = BoolSV(old["acq"])
        else:
            # environment = the runner(s): pops at the head, may release when it saw the queue empty, may fault
            taken = ctx.fresh(f"taken_{where}", "seq").t
            flt = ctx.fresh(f"flt_{where}", "bool").t
            acq = ctx.fresh(f"acq_{where}", "bool").t
            ctx.assume(z3.Implies(old["flt"], flt))
            ctx.assume(z3.Or(old["queue"] == z3.Concat(taken, q), z3.And(flt, z3.Length(q) == 0)))
            # only an owner acts: without a token (not acquired) nothing changes
            ctx.assume(z3.Implies(z3.Not(old["acq"]), z3.And(q == old["queue"], flt == old["flt"], z3.Not(acq))))
            # release only after having seen the queue empty; no minting by the runner
            ctx.assume(z3.Implies(z3.And(old["acq"], z3.Not(acq)), z3.Or(z3.Length(q) == 0, flt)))
            self.set_state(it, q, acq, flt)
        self.w.log.append(("interference", where))

    def guarantee_at_release(self, it, post):
        """rely / guarantee: every critical section of a role keeps THAT role's guarantee - checked where the lock is released, whatever the
        method goes on to do (the other role relies on it from this moment on: a producer that loaded `self.queue` before this section appends
        to the list object it loaded)"""
        if self.role is None or not getattr(self, "cs_pre", None) or getattr(self, "cs_uid", None) is None:
            return
        pre = self.cs_pre
        n = sum(1 for e in self.w.log if e[0] == "release")
        if self.role == "runner":
            q_ok = z3.Or(post["queue"] == pre["queue"],
                         z3.And(z3.Length(pre["queue"]) > 0, pre["queue"] == z3.Concat(z3.Unit(pre["queue"][0]), post["queue"])),
                         z3.And(z3.Length(post["queue"]) == 0, post["flt"]))
            a_ok = z3.Or(post["acq"] == pre["acq"], z3.And(pre["acq"], z3.Not(post["acq"]), z3.Length(pre["queue"]) == 0, z3.Length(post["queue"]) == 0))
            f_ok = z3.Implies(pre["flt"], post["flt"])
            self.rec(it.ctx, self.cs_uid + f"/critical-section#{n}/keeps-the-runner's-guarantee (the queue loses at most its head - or everything together with the fault latch; "
                     "the token is given up only over an empty queue)", z3.And(q_ok, a_ok, f_ok))
            # the list OBJECT producers append to (lock-free, A-gil) stays the same one unless the fault latch is set in this very section
            same_obj = self.obj.fields.get("queue") is getattr(self, "cs_queue_obj", None)
            if not same_obj:
                self.rec(it.ctx, self.cs_uid + f"/critical-section#{n}/replaces-the-queue-object-only-together-with-the-fault-latch", post["flt"],
                         detail="producers append without the lock to the list object they loaded: an append racing with this section lands on the detached list")

    def read_hook(self, it, obj, name):
        if obj is self.obj and name in SHARED:
            if self.w.depth == 0:
                self.unlocked.append(("read", name))
                self.interfere(it, f"read_{name}")

    def write_hook(self, it, obj, name, old, new):
        if obj is self.obj and name in SHARED and self.w.depth == 0:
            self.unlocked.append(("write", name))
        obj.fields[name] = new

    def setup(self, ctx, cls_name="ScheduledObserver", mod="reactivex.observer.scheduledobserver"):
        self.cs_uid = None
        w = self.w = OWorld(self)
        it = Interp(self.loader, ctx, w)
        base = it.elem_from_term

        def elem_from_term(kind, t):
            if kind == "thunk":
                return Opaque("callback", "thunk", term=t)
            return base(kind, t)
        it.elem_from_term = elem_from_term
        self.role = None
        self.holds_token = False
        self.unlocked = []
        self.sched = Opaque("scheduler", "target_scheduler")
        self.observer = Opaque("observer", "downstream")
        cls = it.module_get(mod, cls_name)
        self.cls = cls
        o = self.obj = Obj(cls)
        sd = it.call(it.module_get("reactivex.disposable.serialdisposable", "SerialDisposable"), [], {})
        o.fields.update({"scheduler": self.sched, "observer": self.observer, "lock": Opaque("lock", "so.lock", reentrant=True),
                         "is_stopped": False, "disposable": sd})
        it.attr_read_hook = self.read_hook
        it.attr_write_hook = self.write_hook
        return it

    def arbitrary_state(self, it, ctx, acquired=None, faulted=None):
        q = ctx.fresh("queue0", "seq").t
        acq = ctx.fresh("acq0", "bool").t if acquired is None else z3.BoolVal(acquired)
        flt = ctx.fresh("flt0", "bool").t if faulted is None else z3.BoolVal(faulted)
        self.set_state(it, q, acq, flt)

    # -- scenarios -------------------------------------------------------------------------------------------
    def run_init(self, ctx):
        w = self.w = OWorld(self)
        it = Interp(self.loader, ctx, w)
        self.role = None
        self.obj = None
        it.externals["threading.RLock"] = Native("RLock", lambda it_, a, k: Opaque("lock", "rlock", reentrant=True))
        cls = it.module_get("reactivex.observer.scheduledobserver", "ScheduledObserver")
        s, d = Opaque("scheduler", "s"), Opaque("observer", "d")
        o = it.call(cls, [s, d], {})
        uid = f"{SFILE}::ScheduledObserver.__init__"
        q = o.fields.get("queue")
        self.rec(ctx, uid + "/starts-idle-with-an-empty-queue", isinstance(q, ListObj) and not q.symbolic and not q.items
                 and o.fields.get("is_acquired") is False and o.fields.get("has_faulted") is False)
        self.rec(ctx, uid + "/keeps-the-scheduler-and-the-observer", o.fields.get("scheduler") is s and o.fields.get("observer") is d)
        self.rec(ctx, uid + "/has-a-reentrant-lock-and-a-serial-disposable", isinstance(o.fields.get("lock"), Opaque)
                 and isinstance(o.fields.get("disposable"), Obj) and o.fields["disposable"].cls.name == "SerialDisposable")

    def run_thunks(self, ctx):
        it = self.setup(ctx)
        o, w = self.obj, self.w
        which = ("_on_next_core", "_on_error_core", "_on_completed_core")[ctx.choose(3, "notification")]
        uid = f"{SFILE}::ScheduledObserver.{which}"
        o.fields["queue"] = ListObj([Opaque("callback", "earlier")])
        o.fields["is_acquired"], o.fields["has_faulted"] = False, False
        v = ctx.fresh("payload", "val")
        w.log.clear()
        it.call(it.get_attr(o, which), [v] if which != "_on_completed_core" else [], {})
        q = o.fields["queue"]
        ok = isinstance(q, ListObj) and not q.symbolic and len(q.items) == 2 and isinstance(q.items[0], Opaque) and isinstance(q.items[1], Closure)
        self.rec(ctx, uid + "/appends-exactly-one-thunk-at-the-tail", ok)
        self.rec(ctx, uid + "/delivers-and-schedules-nothing-itself", not [e for e in w.log if e[0] in ("down", "schedule")])
        if ok:
            w.log.clear()
            it.call(q.items[1], [], {})
            ds = [e for e in w.log if e[0] == "down"]
            want = {"_on_next_core": "on_next", "_on_error_core": "on_error", "_on_completed_core": "on_completed"}[which]
            self.rec(ctx, uid + "/the-thunk-makes-exactly-that-one-downstream-call",
                     len(ds) == 1 and ds[0][1] == want and (which == "_on_completed_core" or same(ds[0][2][0], v)))

    def run_ensure_active(self, ctx):
        it = self.setup(ctx)
        o, w = self.obj, self.w
        uid = f"{SFILE}::ScheduledObserver.ensure_active"
        self.arbitrary_state(it, ctx)
        self.role = "producer"
        w.log.clear()
        self.unlocked = []
        it.call(it.get_attr(o, "ensure_active"), [], {})
        self.role = None
        self.rec(ctx, uid + "/decides-under-the-lock", not self.unlocked, detail=f"unlocked accesses of shared fields: {self.unlocked}")
        rel = [e for e in w.log if e[0] == "release"]
        acqs = [i for i, e in enumerate(w.log) if e[0] == "acquire"]
        inter = [i for i, e in enumerate(w.log) if e[0] == "interference"]
        sch = [e for e in w.log if e[0] == "schedule"]
        if len(rel) != 1 or not inter:
            self.rec(ctx, uid + "/one-critical-section", False, detail=f"{len(rel)} critical sections")
            return
        # state seen by the critical section = after the interference at acquire; state left = at release
        post = rel[0][1]
        pre = self.cs_pre
        minted = z3.And(z3.Not(pre["flt"]), z3.Length(pre["queue"]) > 0, z3.Not(pre["acq"]))
        self.rec(ctx, uid + "/critical-section/keeps-the-queue-and-the-fault-flag", z3.And(post["queue"] == pre["queue"], post["flt"] == pre["flt"]))
        self.rec(ctx, uid + "/critical-section/is_acquired-only-rises", z3.Implies(pre["acq"], post["acq"]))
        self.rec(ctx, uid + "/critical-section/no-lost-wake-up", z3.Implies(z3.And(z3.Not(post["flt"]), z3.Length(post["queue"]) > 0), post["acq"]),
                 detail="a queued notification always has an owner once ensure_active has run its critical section")
        if ctx.branch(minted, "this call mints the owner token"):
            ok = len(sch) == 1 and sch[0][1] == "schedule" and sch[0][5] == 0
            self.rec(ctx, uid + "/owner/schedules-run-exactly-once-outside-the-lock", ok)
            if ok:
                f = sch[0][2][0] if sch[0][2] else None
                self.rec(ctx, uid + "/owner/what-is-scheduled-is-this-observer's-run",
                         isinstance(f, BoundMethod) and f.self_val is o and getattr(f.func, "qualname", "").endswith(".run"))
                self.rec(ctx, uid + "/owner/the-pending-run-can-be-cancelled", o.fields["disposable"].fields.get("current") is sch[0][4])
        else:
            self.rec(ctx, uid + "/not-owner/schedules-nothing", not sch)

    def interfere_and_mark(self, it, where):
        pass

    def run_run(self, ctx):
        it = self.setup(ctx)
        o, w = self.obj, self.w
        uid = f"{SFILE}::ScheduledObserver.run"
        # entered with the token: acquired, not faulted, any queue
        self.arbitrary_state(it, ctx, acquired=True, faulted=False)
        self.role, self.holds_token = "runner", True
        self.cs_uid = uid
        w.log.clear()
        self.unlocked = []
        raised = None
        slot = o.fields.get("disposable")
        slot0 = slot.fields.get("current") if isinstance(slot, Obj) else None
        try:
            it.call(it.get_attr(o, "run"), [self.sched, None], {})
        except PyExc as e:
            raised = e.value
        self.role, self.holds_token = None, False
        self.rec(ctx, uid + "/touches-shared-state-only-under-the-lock", not self.unlocked, detail=f"{self.unlocked}")
        # frame: the handle slot `self.disposable` is the producer's - ensure_active writes it outside the lock, AFTER the run it
        # scheduled may already have executed on the scheduler's thread.  With run as a second writer, that late write would dispose
        # (cancel) the drain run has just queued while is_acquired stays True: notifications left undelivered with an idle scheduler
        slot1 = slot.fields.get("current") if isinstance(slot, Obj) else None
        self.rec(ctx, uid + "/frame/leaves-the-producer's-handle-slot-alone-and-cancels-nothing",
                 slot is o.fields.get("disposable") and slot1 is slot0 and not [e for e in w.log if e[0] == "dispose"],
                 detail="self.disposable is written by ensure_active (unlocked, possibly after the scheduled run already ran): run must not write it too")
        rel = [e for e in w.log if e[0] == "release"]
        work = [e for e in w.log if e[0] == "work"]
        sch = [e for e in w.log if e[0] == "schedule"]
        pre = self.cs_pre_all[0] if self.cs_pre_all else None
        if pre is None or not rel:
            self.rec(ctx, uid + "/has-a-critical-section", False)
            return
        post = rel[0][1]
        if ctx.branch(z3.Length(pre["queue"]) > 0, "something is queued when run takes the lock"):
            self.rec(ctx, uid + "/take/removes-exactly-the-head", z3.And(z3.Length(pre["queue"]) > 0, pre["queue"] == z3.Concat(z3.Unit(pre["queue"][0]), post["queue"])))
            self.rec(ctx, uid + "/take/keeps-the-token", z3.And(post["acq"], z3.Not(post["flt"])))
            ok = len(work) == 1 and work[0][2] == 0
            self.rec(ctx, uid + "/take/invokes-exactly-one-thunk-outside-the-lock", ok)
            if ok:
                self.rec(ctx, uid + "/take/the-thunk-invoked-is-the-head-of-the-queue", work[0][1] == pre["queue"][0])
            failed = [e for e in w.log if e[0] == "work_raised"]
            if failed:
                self.rec(ctx, uid + "/fault/the-same-exception-propagates", raised is not None and same(raised, failed[0][1]))
                self.rec(ctx, uid + "/fault/nothing-is-scheduled", not sch)
                last = rel[-1][1]
                self.rec(ctx, uid + "/fault/queue-emptied-and-fault-latched-in-one-critical-section",
                         len(rel) == 2 and z3.And(z3.Length(last["queue"]) == 0, last["flt"]))
            else:
                self.rec(ctx, uid + "/continue/returns-normally", raised is None)
                ok = len(sch) == 1 and sch[0][1] == "schedule" and sch[0][5] == 0
                self.rec(ctx, uid + "/continue/schedules-run-exactly-once-outside-the-lock", ok)
                if ok:
                    f = sch[0][2][0] if sch[0][2] else None
                    self.rec(ctx, uid + "/continue/what-is-scheduled-is-this-observer's-run",
                             isinstance(f, BoundMethod) and f.self_val is o and getattr(f.func, "qualname", "").endswith(".run"))
                    self.rec(ctx, uid + "/continue/the-delivery-precedes-the-next-run", w.log.index(work[0]) < w.log.index(sch[0]))
                self.rec(ctx, uid + "/continue/one-critical-section-only", len(rel) == 1)
        else:
            self.rec(ctx, uid + "/release/gives-the-token-up-only-with-an-empty-queue", z3.And(z3.Not(post["acq"]), z3.Length(post["queue"]) == 0, z3.Not(post["flt"])))
            self.rec(ctx, uid + "/release/delivers-nothing-and-schedules-nothing", not work and not sch and raised is None)

    def run_observe_on_cores(self, ctx):
        it = self.setup(ctx, "ObserveOnObserver", "reactivex.observer.observeonobserver")
        o = self.obj
        which = ("_on_next_core", "_on_error_core", "_on_completed_core")[ctx.choose(3, "notification")]
        uid = f"{OFILE}::ObserveOnObserver.{which}"
        calls = []

        def hook(it_, f, args, kwargs):
            fn = f.func if isinstance(f, BoundMethod) else f
            q = getattr(fn, "qualname", None) if isinstance(fn, Closure) else None
            if q in (f"ScheduledObserver.{which}", "ScheduledObserver.ensure_active"):
                calls.append((q.split(".")[1], list(args)))
                return None
            return NOTSET
        it.call_hook = hook
        v = ctx.fresh("payload", "val")
        it.call(it.get_attr(o, which), [v] if which != "_on_completed_core" else [], {})
        ok = [c[0] for c in calls] == [which, "ensure_active"]
        self.rec(ctx, uid + "/is-the-inherited-core-followed-by-ensure_active", ok, detail=f"{[c[0] for c in calls]}")
        if ok and which != "_on_completed_core":
            self.rec(ctx, uid + "/passes-the-payload-on", len(calls[0][1]) == 1 and same(calls[0][1][0], v))

    def run_observe_on(self, ctx):
        w = self.w = OWorld(self)
        it = Interp(self.loader, ctx, w)
        self.role, self.obj = None, None
        it.externals["threading.RLock"] = Native("RLock", lambda it_, a, k: Opaque("lock", "rlock", reentrant=True))
        uid = f"{PFILE}::observe_on_"
        subs = []
        src = Opaque("source", "source")
        orig = w.call

        def wcall(it_, o, method, args, kwargs):
            if o.kind == "source" and method == "subscribe":
                subs.append((list(args), dict(kwargs)))
                return Opaque("disposable", "sub")
            return orig(it_, o, method, args, kwargs)
        w.call = wcall
        f = it.module_get("reactivex.operators._observeon", "observe_on_")
        target, subsched, observer = Opaque("scheduler", "target"), Opaque("scheduler", "subscribe_scheduler"), Opaque("observer", "observer")
        obs = it.call(it.call(f, [target], {}), [src], {})
        sub = obs.fields.get("_subscribe")
        r = it.call(sub, [observer, subsched], {})
        ok = len(subs) == 1 and len(subs[0][0]) == 1 and isinstance(subs[0][0][0], Obj) and subs[0][0][0].cls.name == "ObserveOnObserver"
        self.rec(ctx, uid + "/subscribes-the-source-once-with-an-ObserveOnObserver", ok)
        if ok:
            oo = subs[0][0][0]
            self.rec(ctx, uid + "/that-observer-delivers-to-the-subscriber-on-the-target-scheduler", oo.fields.get("scheduler") is target and oo.fields.get("observer") is observer)
            self.rec(ctx, uid + "/the-subscribe-scheduler-is-passed-to-the-source", subs[0][1].get("scheduler") is subsched)
            self.rec(ctx, uid + "/returns-the-source's-subscription", isinstance(r, Opaque) and r.name == "sub")

    def run_dispose(self, ctx):
        it = self.setup(ctx)
        o, w = self.obj, self.w
        uid = f"{SFILE}::ScheduledObserver.dispose"
        self.arbitrary_state(it, ctx)
        pending = Opaque("disposable", "pending_run")
        o.fields["disposable"].fields["current"] = pending
        w.log.clear()
        it.call(it.get_attr(o, "dispose"), [], {})
        self.rec(ctx, uid + "/stops-the-observer-and-cancels-the-pending-run", o.fields.get("is_stopped") is True and [e[1] for e in w.log if e[0] == "dispose"] == [pending])

    def run(self):
        t0 = time.time()
        try:
            for rel, c in ((SFILE, "ScheduledObserver"), (OFILE, "ObserveOnObserver"), (PFILE, "observe_on_")):
                node = self.loader.find(rel, c)
                self.functions[f"{rel}::{c}"] = self.loader.sha(rel, c)
                for q, n in all_functions(node, c):
                    self.functions[f"{rel}::{q}"] = self.loader.sha(rel, q)
            for f in (self.run_init, self.run_thunks, self.run_ensure_active, self.run_run, self.run_observe_on_cores, self.run_observe_on, self.run_dispose):
                self.cs_pre, self.cs_pre_all = None, []
                for p in explore(f):
                    self.results.extend(p.results)
        except Unsupported as e:
            self.unsupported = str(e)
        except PyExc as e:
            self.unsupported = f"interpreter-level exception: {e.value!r} {getattr(e.value, 'fields', '')}"
        self.seconds = time.time() - t0
        return self


# the state a critical section starts from is the one left by the interference at `acquire`
_orig_interfere = SchedObsHarness.interfere


def _interfere(self, it, where):
    _orig_interfere(self, it, where)
    if where == "acquire" and self.role is not None and self.w.depth == 0:
        snap = self.snapshot(it)
        self.cs_pre = snap
        self.cs_pre_all.append(snap)
        self.cs_queue_obj = self.obj.fields.get("queue")


SchedObsHarness.interfere = _interfere


MUTANTS = {
    SFILE: {
        "emptiness tested outside the lock": ("        with self.lock:\n            if parent.queue:\n                work = parent.queue.pop(0)\n            else:\n                parent.is_acquired = False\n                return",
                                              "        if not parent.queue:\n            with self.lock:\n                parent.is_acquired = False\n            return\n\n        with self.lock:\n            work = parent.queue.pop(0)"),
        "takes the newest notification": ("                work = parent.queue.pop(0)", "                work = parent.queue.pop()"),
        "run does not reschedule": ("            raise\n\n        self.scheduler.schedule(self.run)", "            raise"),
        "reschedules before delivering": ("        try:\n            work()\n        except Exception:", "        self.scheduler.schedule(self.run)\n        try:\n            work()\n        except Exception:"),
        "fault not latched": ("                parent.queue = []\n                parent.has_faulted = True", "                parent.queue = []"),
        "schedules while faulted": ("            if not self.has_faulted and self.queue:", "            if self.queue:"),
        "schedules under the lock": ("                self.is_acquired = True\n\n        if is_owner:\n            self.disposable.disposable = self.scheduler.schedule(self.run)",
                                     "                self.is_acquired = True\n                if is_owner:\n                    self.disposable.disposable = self.scheduler.schedule(self.run)\n                    is_owner = False"),
        "every caller becomes owner": ("                is_owner = not self.is_acquired", "                is_owner = True"),
        "error delivered as completion": ("        def action() -> None:\n            self.observer.on_error(error)", "        def action() -> None:\n            self.observer.on_completed()"),
    },
    OFILE: {
        "completion not scheduled": ("        super()._on_completed_core()\n        self.ensure_active()", "        super()._on_completed_core()"),
    },
    PFILE: {
        "delivers on the subscribe scheduler": ("ObserveOnObserver(scheduler, observer)", "ObserveOnObserver(subscribe_scheduler, observer)"),
    },
}


def must_fail():
    out = {"mutants": 0, "killed": 0, "survivors": []}
    for rel, ms in MUTANTS.items():
        src = Loader().load_file(rel).src
        for name, (a, b) in ms.items():
            if a not in src:
                continue
            ld = Loader()
            ld.overrides = {rel: src.replace(a, b, 1)}
            h = SchedObsHarness(ld).run()
            out["mutants"] += 1
            if h.unsupported or any(r.verdict == "refuted" for r in h.results):
                out["killed"] += 1
            else:
                out["survivors"].append(f"{rel}: {name}")
    return out


def run_unit(desc):
    import json
    import os
    h = SchedObsHarness().run()
    res = [r.as_dict() for r in h.results]
    rep = {
        "unit": f"{SFILE}::ScheduledObserver",
        "kind": "rely/guarantee contracts with an owner token (producer vs runner), symbolic execution of the real methods",
        "functions": h.functions,
        "results": res,
        "unsupported": h.unsupported,
        "spec_validation": [],
        "bounded": [],
        "replayable": {"runner": "obsrun.py", "module": "-", "name": "C32"},
    }
    if desc.get("tier") == "thorough" and not h.unsupported:
        mf = must_fail()
        rep["must_fail"] = dict(mf, unit=rep["unit"])
        if mf["mutants"] and mf["killed"] < mf["mutants"]:
            rep["crash"] = f"vacuity: must-fail mutants survived: {mf['survivors']}"
    if h.unsupported or desc.get("tier") == "thorough":
        from .report import native, VERIF, REPLAY_DIR
        r, err = native([os.path.join(VERIF, "rxvc", "obsrun.py"), "replay", "-", "C32",
                         json.dumps({"replay_path": os.path.join(REPLAY_DIR, "C32-standin.py"), "prop": "C32",
                                     "oid": rep["unit"] + "/bounded-standin"})], timeout=280)
        st = r if r is not None else {"found": [], "error": err, "cases": 0}
        rep["bounded"].append({"function": rep["unit"], "bound": "obsrun.py: 5 producer/scheduler-thread scenarios, all line-level interleavings with <= 2 preemptions",
                               "cases": st.get("cases", 0), "mismatches": len(st.get("found", [])),
                               "role": "stand-in (out of subset)" if h.unsupported else "cross-check of the contracts against CPython"})
        if h.unsupported:
            rep["standin"] = st
        elif st.get("found") and all(x["verdict"] == "proved" for x in res):
            rep["crash"] = f"cross-check failed: contracts proved but the native run disagrees: {st['found'][0]}"
    return rep
