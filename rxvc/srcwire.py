"""C37 (also C14): source factories that are COMPOSITIONS of other factories and operators - function contracts of the wiring, on the real
code.  Their sequences follow from the contracts of the parts (return_value: C37 srcfac unit; repeat: the concat engine of C10):

  repeat_value_(value, n)   ==  return_value(value) piped through exactly ops.repeat(n'),  n' = None when n is None or -1, else n
                                - built when the factory is called, from nothing but its two arguments (so every subscription of the result,
                                and every re-subscription by repeat / retry / concat, sees the same v, v, ... n times: no one-shot iterator or
                                other per-call state stands behind it).

The operators module is not executed: `ops.<name>(...)` is the operator TERM with its bound arguments (as in the forwarding contracts of
C39), `x.pipe(t)` is the chain, `reactivex.return_value(v)` is the source term return_value(v)."""
from __future__ import annotations

import ast
import time

import z3

from . import smt
from .forward import FwdWorld, OpTerm, OPS_MODULE
from .interp import NOTSET, Env, Interp, explore
from .loader import Loader
from .refine import Result
from .values import SV, Closure, Opaque, PyExc, Unsupported

RFILE = "reactivex/observable/repeat.py"


class SrcWireHarness:
    def __init__(self, loader=None):
        self.loader = loader or Loader()
        self.results = []
        self.unsupported = None
        self.functions = {}

    def rec(self, ctx, oid, goal, detail=""):
        t0 = time.time()
        if isinstance(goal, bool):
            goal = z3.BoolVal(goal)
        v, m, b = smt.prove(ctx.pc, goal)
        ctx.results.append(Result(oid, v, b, smt.model_to_dict(m), list(ctx.branch_log), detail, time.time() - t0, "post"))

    def hook(self, it, f, args, kwargs):
        if isinstance(f, OpTerm):
            if len(args) == 1 and isinstance(args[0], Opaque) and args[0].kind == "source" and not kwargs:
                return it.world.call(it, args[0], "pipe", [f], {})
            raise Unsupported(f"operator term applied to {args!r}")
        if isinstance(f, Closure) and f.module is not None:
            if f.module.name == OPS_MODULE and isinstance(f.node, ast.FunctionDef) and "." not in f.qualname:
                env = Env(None, f.module, f)
                it.bind_args(f, args, kwargs, env)
                return OpTerm(f.node.name, dict(env.vars))
            if f.module.name == "reactivex" and isinstance(f.node, ast.FunctionDef) and "." not in f.qualname and f.node.name != "pipe":
                # another source factory of the package: the source TERM name(args)
                self.made.append((f.node.name, list(args), dict(kwargs)))
                return Opaque("source", f"{f.node.name}#{len(self.made)}", chain=(), factory=f.node.name, args=list(args), kwargs=dict(kwargs))
        return NOTSET

    def run_repeat_value(self, ctx):
        uid = f"{RFILE}::repeat_value_"
        w = World2(self)
        it = Interp(self.loader, ctx, w)
        it.call_hook = self.hook
        self.made = []
        f = it.module_get("reactivex.observable.repeat", "repeat_value_")
        value = ctx.fresh("value", "val")
        form = ctx.choose(3, "repeat_count is None / -1 / a number")
        if form == 0:
            n = None
        elif form == 1:
            n = -1
        else:
            n = ctx.fresh("n", "int")
            ctx.assume(n.t != -1)
        try:
            omitted = n is None and ctx.choose(2, "the count is omitted") == 1
            r = it.call(f, [value] if omitted else [value, n], {})
        except PyExc as e:
            self.rec(ctx, uid + "/no-exception", False, detail=repr(e.value))
            return
        ok_src = isinstance(r, Opaque) and r.kind == "source"
        self.rec(ctx, uid + "/is-a-pipeline-over-a-source-built-by-the-package's-own-factories", ok_src, detail=f"{r!r}")
        if not ok_src:
            return
        base = r.attrs.get("base")
        chain = list(r.attrs.get("chain", ()))
        ok_base = isinstance(base, Opaque) and base.attrs.get("factory") == "return_value" and len(base.attrs.get("args", [])) + len(base.attrs.get("kwargs", {})) == 1
        v0 = (base.attrs["args"] or list(base.attrs["kwargs"].values()))[0] if ok_base else None
        self.rec(ctx, uid + "/the-source-is-return_value-of-the-value", ok_base and v0 is value,
                 detail=f"source: {base!r} made by {self.made!r} - the element must come from a re-subscribable source built from the value alone")
        ok_chain = len(chain) == 1 and isinstance(chain[0], OpTerm) and chain[0].name == "repeat"
        self.rec(ctx, uid + "/piped-through-exactly-one-repeat", ok_chain, detail=f"{chain!r}")
        if ok_chain:
            got = chain[0].bound.get("repeat_count", NOTSET)
            if form in (0, 1):
                self.rec(ctx, uid + "/no-count-or-minus-one-means-for-ever", got is None, detail=f"repeat_count handed to repeat: {got!r}")
            else:
                self.rec(ctx, uid + "/repeats-the-requested-number-of-times", isinstance(got, SV) and got.t.eq(n.t) or (isinstance(got, SV) and got.t == n.t),
                         detail=f"repeat_count handed to repeat: {got!r}")

    def run_timer_dispatch(self, ctx):
        """timer_(duetime, period, scheduler): which of the four implementations runs, with which arguments; interval_(p, s) = timer(p, p, s)"""
        TFILE = "reactivex/observable/timer.py"
        uid = f"{TFILE}::timer_"
        w = World2(self)
        w.isinstance = lambda it_, o, cls: (getattr(cls, "name", "") or "").split(".")[-1] == "datetime" and o.kind == "abs_time"
        it = Interp(self.loader, ctx, w)
        calls = []

        def hook(it_, f, args, kwargs):
            if isinstance(f, Closure) and f.module is not None and f.module.name == "reactivex.observable.timer" and f.qualname.startswith("observable_timer_"):
                calls.append((f.qualname, list(args), dict(kwargs)))
                return Opaque("source", f.qualname)
            if isinstance(f, Closure) and f.module is not None and f.module.name == "reactivex" and f.qualname == "timer":
                calls.append(("rx.timer", list(args), dict(kwargs)))
                return Opaque("source", "rx.timer")
            return NOTSET
        it.call_hook = hook
        sched = Opaque("scheduler", "scheduler") if ctx.choose(2, "a scheduler is given") == 1 else None
        absolute = ctx.choose(2, "the due time is a datetime") == 1
        with_period = ctx.choose(2, "a period is given") == 1
        due = Opaque("abs_time", "duetime") if absolute else ctx.fresh("duetime", "int")
        period = ctx.fresh("period", "int") if with_period else None
        f = it.module_get("reactivex.observable.timer", "timer_")
        r = it.call(f, [due, period, sched], {})
        want = {(True, False): "observable_timer_date", (True, True): "observable_timer_duetime_and_period",
                (False, False): "observable_timer_timespan", (False, True): "observable_timer_timespan_and_period"}[(absolute, with_period)]
        ok = len(calls) == 1 and calls[0][0] == want and isinstance(r, Opaque) and r.name == want
        self.rec(ctx, uid + "/picks-the-implementation-for-the-kind-of-due-time-and-period", ok, detail=f"called {[c[0] for c in calls]}, expected {want}")
        if ok:
            a = calls[0][1] + list(calls[0][2].values())
            exp = [due] + ([period] if with_period else []) + [sched]
            self.rec(ctx, uid + "/hands-on-the-due-time-the-period-and-the-scheduler", len(a) == len(exp) and all(x is y for x, y in zip(a, exp)), detail=f"{a!r}")
        # interval_
        calls.clear()
        IFILE = "reactivex/observable/interval.py"
        g = it.module_get("reactivex.observable.interval", "interval_")
        p2 = ctx.fresh("p", "int")
        r2 = it.call(g, [p2, sched], {})
        a2 = (calls[0][1] + list(calls[0][2].values())) if calls else []
        self.rec(ctx, f"{IFILE}::interval_/is-the-timer-with-due-time-and-period-both-the-period", len(calls) == 1 and calls[0][0] == "rx.timer" and len(a2) == 3
                 and a2[0] is p2 and a2[1] is p2 and a2[2] is sched and isinstance(r2, Opaque) and r2.name == "rx.timer", detail=f"{calls!r}")

    def run_amb(self, ctx):
        """amb_(s1, ..., sn) = the fold of the binary operator over never(): acc0 = never(), acc_k = s_k | amb(acc_{k-1}).  Every given source
        appears exactly once (so, by the binary contract - the first to notify wins, the other is unsubscribed - and never() never
        notifying, the result mirrors exactly the first of ALL the sources to notify)"""
        AFILE = "reactivex/observable/amb.py"
        uid = f"{AFILE}::amb_"
        w = World2(self)
        it = Interp(self.loader, ctx, w)
        it.call_hook = self.hook
        self.made = []
        n = ctx.choose(4, "number of sources")
        srcs = [Opaque("source", f"s{i + 1}", chain=()) for i in range(n)]
        f = it.module_get("reactivex.observable.amb", "amb_")
        try:
            r = it.call(f, list(srcs), {})
        except PyExc as e:
            self.rec(ctx, uid + "/no-exception", False, detail=repr(e.value))
            return
        # unfold
        seen = []
        cur = r
        ok = True
        for k in range(n, 0, -1):
            base = cur.attrs.get("base") if isinstance(cur, Opaque) else None
            chain = list(cur.attrs.get("chain", ())) if isinstance(cur, Opaque) else []
            if not (base is srcs[k - 1] and len(chain) == 1 and isinstance(chain[0], OpTerm) and chain[0].name == "amb" and len(chain[0].bound) == 1):
                ok = False
                break
            seen.append(base)
            cur = list(chain[0].bound.values())[0]
        is_never = isinstance(cur, Opaque) and cur.attrs.get("factory") == "never" and not cur.attrs.get("args")
        self.rec(ctx, uid + "/is-the-fold-of-the-binary-operator-over-never-with-every-source-exactly-once-in-order", ok and is_never and len(seen) == n,
                 detail=f"result: {r!r}; innermost: {cur!r}")

    def run(self):
        t0 = time.time()
        try:
            self.functions["reactivex/observable/amb.py::amb_"] = self.loader.sha("reactivex/observable/amb.py", "amb_")
            for p in explore(self.run_amb):
                self.results.extend(p.results)
            self.functions[f"{RFILE}::repeat_value_"] = self.loader.sha(RFILE, "repeat_value_")
            self.functions["reactivex/observable/timer.py::timer_"] = self.loader.sha("reactivex/observable/timer.py", "timer_")
            self.functions["reactivex/observable/interval.py::interval_"] = self.loader.sha("reactivex/observable/interval.py", "interval_")
            for p in explore(self.run_timer_dispatch):
                self.results.extend(p.results)
            for p in explore(self.run_repeat_value):
                self.results.extend(p.results)
        except Unsupported as e:
            self.unsupported = str(e)
        except PyExc as e:
            self.unsupported = f"interpreter-level exception: {e.value!r} {getattr(e.value, 'fields', '')}"
        self.seconds = time.time() - t0
        return self


class World2(FwdWorld):
    """pipe keeps the source term it started from"""

    def call(self, it, o, method, args, kwargs):
        if o.kind == "source" and method == "pipe":
            chain = list(o.attrs.get("chain", ()))
            for a in args:
                chain.extend(self.flatten(a))
            return Opaque("source", o.name + "|pipe", chain=tuple(chain), base=o.attrs.get("base", o))
        return super().call(it, o, method, args, kwargs)


AMB_MUTANTS = {
    "the last source is dropped": ("    for source in sources:\n", "    for source in sources[:-1] if len(sources) > 1 else sources:\n"),
    "folds over the first source instead of never": ("    acc: Observable[_T] = never()\n", "    acc: Observable[_T] = sources[0] if sources else never()\n"),
}
TIMER_MUTANTS = {
    "a datetime with a period goes to the one-shot timer": ("        if period is None:\n            return observable_timer_date(duetime, scheduler)\n        else:\n            return observable_timer_duetime_and_period(duetime, period, scheduler)",
                                                            "        return observable_timer_date(duetime, scheduler)"),
    "the scheduler is dropped": ("    if period is None:\n        return observable_timer_timespan(duetime, scheduler)", "    if period is None:\n        return observable_timer_timespan(duetime)"),
}
MUTANTS = {
    "count not normalised": ("    if repeat_count == -1:\n        repeat_count = None\n", ""),
    "repeats one time less": ("ops.repeat(repeat_count)", "ops.repeat(repeat_count - 1 if repeat_count else repeat_count)"),
    "one-shot iterator behind the source": ("    xs = reactivex.return_value(value)\n    return xs.pipe(ops.repeat(repeat_count))",
                                            "    import itertools\n    if repeat_count is None:\n        return reactivex.return_value(value).pipe(ops.repeat())\n"
                                            "    return reactivex.from_iterable(itertools.repeat(value, repeat_count))"),
}


def must_fail():
    out = {"mutants": 0, "killed": 0, "survivors": []}
    src = Loader().load_file(RFILE).src
    asrc = Loader().load_file("reactivex/observable/amb.py").src
    for name, (a, b) in AMB_MUTANTS.items():
        if a not in asrc:
            continue
        ld = Loader()
        ld.overrides = {"reactivex/observable/amb.py": asrc.replace(a, b, 1)}
        h = SrcWireHarness(ld).run()
        out["mutants"] += 1
        if h.unsupported or any(r.verdict == "refuted" for r in h.results):
            out["killed"] += 1
        else:
            out["survivors"].append(name)
    tsrc = Loader().load_file("reactivex/observable/timer.py").src
    for name, (a, b) in TIMER_MUTANTS.items():
        if a not in tsrc:
            continue
        ld = Loader()
        ld.overrides = {"reactivex/observable/timer.py": tsrc.replace(a, b, 1)}
        h = SrcWireHarness(ld).run()
        out["mutants"] += 1
        if h.unsupported or any(r.verdict == "refuted" for r in h.results):
            out["killed"] += 1
        else:
            out["survivors"].append(name)
    for name, (a, b) in MUTANTS.items():
        if a not in src:
            continue
        ld = Loader()
        ld.overrides = {RFILE: src.replace(a, b, 1)}
        h = SrcWireHarness(ld).run()
        out["mutants"] += 1
        if h.unsupported or any(r.verdict == "refuted" for r in h.results):
            out["killed"] += 1
        else:
            out["survivors"].append(name)
    return out


def run_unit(desc):
    import json
    import os
    from .report import REPLAY_DIR, VERIF, native
    h = SrcWireHarness().run()
    prop = desc.get("prop", "C37")
    rep = {"unit": f"{RFILE}::repeat_value_+timer_+interval_", "kind": "function contract of a composed source factory (wiring over the contracts of its parts)",
           "functions": h.functions, "results": [r.as_dict() for r in h.results], "unsupported": h.unsupported, "spec_validation": [], "bounded": [],
           "replayable": {"runner": "srcrun.py", "module": "-", "name": "repeat_value"}}
    if h.unsupported:
        # out of subset: the native source-factory table decides (bounded)
        r, err = native([os.path.join(VERIF, "rxvc", "srcrun.py"), "replay", "-", "repeat_value",
                         json.dumps({"replay_path": os.path.join(REPLAY_DIR, f"{prop}-standin-repeat_value.py"), "prop": prop, "oid": rep["unit"] + "/bounded-standin"})], timeout=300)
        st = r if r is not None else {"found": [], "error": err, "cases": 0}
        rep["standin"] = st
        rep["bounded"].append({"function": rep["unit"], "bound": "srcrun.py repeat_value cases (counts 0..3, None with take, two subscriptions)", "cases": st.get("cases", 0),
                               "mismatches": len(st.get("found", [])), "role": "stand-in (out of subset)"})
    if desc.get("tier") == "thorough" and not h.unsupported:
        mf = must_fail()
        rep["must_fail"] = dict(mf, unit=rep["unit"])
        if mf["mutants"] and mf["killed"] < mf["mutants"]:
            rep["crash"] = f"vacuity: must-fail mutants survived: {mf['survivors']}"
    return rep
