"""K-guard (C09): every user-supplied function called while a notification is processed is called under a guard
that turns its exception into the subscriber's on_error.  Decided on the real AST, modularly:

  may_raise(f)   a function of the module (nested or top-level, or a method of a module-level helper class) may let a
                 user-callback exception escape iff, outside every `try` whose handlers catch Exception, it calls
                   - a user callback: a parameter of the operator factory chain that is called, or an alias of one
                     (`comparer_ = comparer or default_comparer`), or one of ITS OWN parameters / a `self.<attr>` bound
                     from a constructor parameter (helpers that are handed the callback), or
                   - another function of the module with may_raise (least fixpoint over the call graph; methods by name).
  entry points   functions and lambdas handed to `.subscribe(...)`, `.schedule*(...)`, observer constructors: they are run
                 by whoever emits the notification / by the scheduler.
  obligation     no entry point has may_raise;  and every guard that protects a user-callback call delivers the exception:
                 its handler calls `<x>.on_error(<the exception>)` (or re-raises inside an outer guard that does).
Admitted without a guard: calls made by the subscribe function itself (Observable.subscribe's `fail()` clause, C01,
routes them to on_error), calls made at dispose time, callbacks handed on to another operator (`ops.map(mapper)` -
that operator's own obligation), and `do_action`-style side-effect observers whose contract is the opposite.
Sound under A-static; path-insensitive (a call guarded on one path only is reported).
"""
from __future__ import annotations

import ast
import time

from .loader import Loader, repo_py_files

SUBSCRIBE_SINKS = {"subscribe", "subscribe_", "schedule", "schedule_relative", "schedule_absolute", "schedule_periodic",
                   "invoke_rec_immediate", "invoke_rec_date"}
OBSERVER_CTORS = {"Observer", "AnonymousObserver", "AutoDetachObserver"}
NOT_CALLBACKS = {"source", "sources", "observer", "scheduler", "scheduler_", "_scheduler", "self", "cls", "args", "kwargs",
                 "observable", "other", "second", "subject", "connectable", "xs"}
CATCH_ALL = {"Exception", "BaseException"}


class F:
    def __init__(self, node, parent, name, cls=None):
        self.node = node
        self.parent = parent
        self.name = name
        self.cls = cls
        self.children = {}
        self.lambdas = []
        self.params = set()
        self.aliases = {}  # local name -> True when it may hold a user callback
        self.unguarded_calls = []  # (kind, name, line)
        self.guarded_sites = []  # (callee name, try node, line)
        self.calls_local = []  # (name, guarded, line, is_method)
        self.is_entry = False
        self.entry_why = None
        self.may_raise = False
        self.why = None

    def qual(self):
        parts, f = [], self
        while f is not None:
            parts.append(f.name)
            f = f.parent
        return ".".join(reversed(parts))


def catches_all(handler):
    t = handler.type
    if t is None:
        return True
    names = []
    if isinstance(t, ast.Tuple):
        names = [getattr(e, "id", getattr(e, "attr", None)) for e in t.elts]
    else:
        names = [getattr(t, "id", getattr(t, "attr", None))]
    return any(n in CATCH_ALL for n in names)


def params_of(node):
    a = node.args
    out = [x.arg for x in a.posonlyargs + a.args + a.kwonlyargs]
    return out


class ModuleAnalysis:
    def __init__(self, rel, tree):
        self.rel = rel
        self.tree = tree
        self.top = {}  # module-level functions
        self.classes = {}  # module-level classes: name -> {method: F}
        self.all = []
        for st in tree.body:
            if isinstance(st, ast.FunctionDef):
                self.top[st.name] = self.build(st, None, st.name, user_scope=set())
            elif isinstance(st, ast.ClassDef):
                ms = {}
                ctor_bound = set()
                for m in st.body:
                    if isinstance(m, ast.FunctionDef) and m.name == "__init__":
                        ps = set(params_of(m)[1:])
                        for n in ast.walk(m):
                            if (isinstance(n, ast.Assign) and len(n.targets) == 1 and isinstance(n.targets[0], ast.Attribute)
                                    and isinstance(n.targets[0].value, ast.Name) and n.targets[0].value.id == "self"
                                    and isinstance(n.value, ast.Name) and n.value.id in ps):
                                ctor_bound.add(n.targets[0].attr)
                for m in st.body:
                    if isinstance(m, ast.FunctionDef):
                        ms[m.name] = self.build(m, None, f"{st.name}.{m.name}", user_scope=set(), cls=st.name, self_attrs=ctor_bound)
                self.classes[st.name] = ms

    # -- construction ------------------------------------------------------------------------------------
    def build(self, node, parent, name, user_scope, cls=None, self_attrs=frozenset()):
        f = F(node, parent, name, cls)
        self.all.append(f)
        f.self_attrs = set(self_attrs)
        own = set(params_of(node)) if not isinstance(node, ast.Lambda) else set(x.arg for x in node.args.args)
        f.params = own
        # the user-callback namespace visible here: parameters of every enclosing function that is not a handler
        f.user_scope = set(user_scope) | {p for p in own if p not in NOT_CALLBACKS}
        body = [node.body] if isinstance(node, ast.Lambda) else node.body
        for st in body:
            self.walk(f, st, guards=[])
        return f

    def is_user_callable(self, f, name):
        g = f
        while g is not None:
            if name in g.aliases:
                return True
            if name in g.children:
                return False
            if name in g.params:
                return name not in NOT_CALLBACKS
            g = g.parent
        return False

    def walk(self, f, node, guards):
        if isinstance(node, (ast.FunctionDef, ast.AsyncFunctionDef)):
            child = self.build(node, f, node.name, f.user_scope)
            f.children[node.name] = child
            for d in node.decorator_list:
                self.walk(f, d, guards)
            return
        if isinstance(node, ast.Lambda):
            lam = self.build(node, f, f"<lambda:{node.lineno}>", f.user_scope)
            f.lambdas.append((node, lam))
            return
        if isinstance(node, ast.ClassDef):
            return
        if isinstance(node, ast.Try):
            g = [node] if any(catches_all(h) for h in node.handlers) else []
            if node.handlers and not g:
                # a try with SPECIFIC clauses only (except KeyError: ...): not a guard, but a clause that does not deliver swallows an
                # exception of that class when the user's function raises it - recorded for the handler-delivers obligation
                self.specific = getattr(self, "specific", [])
                self.specific.append(node)
                try:
                    for st in node.body:
                        self.walk(f, st, guards)
                finally:
                    self.specific.pop()
                for h in node.handlers:
                    for st in h.body:
                        self.walk(f, st, guards)
                for st in node.orelse + node.finalbody:
                    self.walk(f, st, guards)
                return
            for st in node.body:
                self.walk(f, st, guards + g)
            for h in node.handlers:
                for st in h.body:
                    self.walk(f, st, guards)
            for st in node.orelse + node.finalbody:
                self.walk(f, st, guards)
            return
        if isinstance(node, ast.Assign) and len(node.targets) == 1 and isinstance(node.targets[0], ast.Name):
            # alias of a user callback: x = cb / cb or default / cb if .. else ..
            v = node.value
            names = []
            if isinstance(v, ast.Name):
                names = [v]
            elif isinstance(v, ast.BoolOp):
                names = [x for x in v.values if isinstance(x, ast.Name)]
            elif isinstance(v, ast.IfExp):
                names = [x for x in (v.body, v.orelse) if isinstance(x, ast.Name)]
            elif isinstance(v, ast.Call) and getattr(v.func, "id", None) == "cast" and len(v.args) == 2 and isinstance(v.args[1], ast.Name):
                names = [v.args[1]]
            if any(self.is_user_callable(f, n.id) for n in names):
                f.aliases[node.targets[0].id] = True
            if isinstance(v, ast.Call) and getattr(v.func, "id", None) == "next":
                # an item taken from an iterator of user-supplied things (sources, source FACTORIES): calling it is calling user code
                f.aliases[node.targets[0].id] = True
        if isinstance(node, ast.AnnAssign) and isinstance(node.target, ast.Name) and node.value is not None:
            v = node.value
            names = [v] if isinstance(v, ast.Name) else ([x for x in v.values if isinstance(x, ast.Name)] if isinstance(v, ast.BoolOp) else [])
            if any(self.is_user_callable(f, n.id) for n in names):
                f.aliases[node.target.id] = True
        if isinstance(node, ast.Call):
            fn = node.func
            guarded = bool(guards)
            if isinstance(fn, ast.Name):
                if self.is_user_callable(f, fn.id):
                    for tr in getattr(self, "specific", []):
                        f.guarded_sites.append((fn.id, tr, node.lineno))
                    if guarded:
                        f.guarded_sites.append((fn.id, guards[-1], node.lineno))
                    else:
                        f.unguarded_calls.append(("callback", fn.id, node.lineno))
                else:
                    f.calls_local.append((fn.id, guarded, node.lineno, False, guards[-1] if guards else None))
            elif isinstance(fn, ast.Attribute):
                if isinstance(fn.value, ast.Name) and fn.value.id == "self" and fn.attr in getattr(f, "self_attrs", ()):
                    if guarded:
                        f.guarded_sites.append((f"self.{fn.attr}", guards[-1], node.lineno))
                    else:
                        f.unguarded_calls.append(("callback", f"self.{fn.attr}", node.lineno))
                else:
                    f.calls_local.append((fn.attr, guarded, node.lineno, True, guards[-1] if guards else None))
                # entry points: callables handed to subscribe / schedule
                if fn.attr in SUBSCRIBE_SINKS:
                    for a in list(node.args) + [k.value for k in node.keywords]:
                        self.mark_entry(f, a, f"handed to .{fn.attr}(...) at line {node.lineno}")
            if isinstance(fn, ast.Name) and fn.id in OBSERVER_CTORS:
                for a in list(node.args) + [k.value for k in node.keywords]:
                    self.mark_entry(f, a, f"handed to {fn.id}(...) at line {node.lineno}")
        for ch in ast.iter_child_nodes(node):
            self.walk(f, ch, guards)

    def mark_entry(self, f, a, why):
        self.pending = getattr(self, "pending", [])
        self.pending.append((f, a, why))

    def resolve_local(self, f, name):
        g = f
        while g is not None:
            if name in g.children:
                return g.children[name]
            g = g.parent
        return self.top.get(name)

    def finish(self):
        # entry points
        for (f, a, why) in getattr(self, "pending", []):
            if isinstance(a, ast.Name):
                g = self.resolve_local(f, a.id)
                if g is not None and g.parent is not None:
                    g.is_entry, g.entry_why = True, why
            elif isinstance(a, ast.Lambda):
                for (n, lam) in f.lambdas:
                    if n is a:
                        lam.is_entry, lam.entry_why = True, why
        # may_raise: least fixpoint
        for f in self.all:
            if f.unguarded_calls:
                k, n, ln = f.unguarded_calls[0]
                f.may_raise, f.why = True, f"calls the user callback `{n}` outside any guard (line {ln})"
        changed = True
        while changed:
            changed = False
            for f in self.all:
                if f.may_raise:
                    continue
                for (name, guarded, ln, is_method, _g) in f.calls_local:
                    if guarded:
                        continue
                    callee = None
                    if is_method:
                        for cname, ms in self.classes.items():
                            if name in ms and ms[name].may_raise:
                                callee = ms[name]
                    else:
                        callee = self.resolve_local(f, name)
                        if callee is None and name in self.classes and "__init__" in self.classes[name]:
                            callee = self.classes[name]["__init__"]
                    if callee is not None and callee is not f and callee.may_raise and not callee.is_entry:
                        f.may_raise, f.why = True, f"calls `{callee.qual()}` outside any guard (line {ln}), which {callee.why}"
                        changed = True
                        break


def handler_delivers(try_node):
    """the guard's catch-all handler hands the exception to an on_error (or re-raises / returns a throw)"""
    for h in try_node.handlers:
        if not catches_all(h):
            # a more specific clause in front of the catch-all: an exception of that class raised BY THE USER CALLBACK lands
            # there too, so it has to deliver as well (classes that are not Exceptions - cancellation, interpreter exit - excepted)
            t = h.type
            names = [getattr(e, "id", getattr(e, "attr", None)) for e in t.elts] if isinstance(t, ast.Tuple) else [getattr(t, "id", getattr(t, "attr", None))]
            if all(n in ("CancelledError", "KeyboardInterrupt", "SystemExit", "GeneratorExit") for n in names):
                continue
        ok = False
        for n in ast.walk(h):
            if isinstance(n, ast.Call) and isinstance(n.func, ast.Attribute) and n.func.attr in ("on_error", "fail"):
                ok = True
            if isinstance(n, ast.Call) and getattr(n.func, "id", getattr(n.func, "attr", None)) in ("throw", "throw_"):
                ok = True
            if isinstance(n, ast.Raise):
                ok = True
        if not ok:
            return False, h.lineno
    return True, None


def target_files(loader):
    return sorted(repo_py_files(loader.repo, "reactivex/operators") + repo_py_files(loader.repo, "reactivex/observable"))


def analyse_file(loader, rel):
    m = loader.load_file(rel)
    ma = ModuleAnalysis(rel, m.tree)
    ma.finish()
    return ma


def run_unit(desc):
    t0 = time.time()
    loader = Loader()
    results, functions = [], {}
    for rel in target_files(loader):
        if rel.endswith("__init__.py") or "/mixins/" in rel:
            continue
        try:
            ma = analyse_file(loader, rel)
        except RecursionError:
            continue
        for f in ma.all:
            top = f
            while top.parent is not None:
                top = top.parent
            label = f"{rel}::{f.qual()}"
            if f.is_entry:
                try:
                    functions[f"{rel}::{top.name}"] = loader.sha(rel, top.name)
                except Exception:  # noqa: BLE001
                    pass
                results.append({"id": f"{label}/guard/no-user-exception-escapes-this-handler", "verdict": "refuted" if f.may_raise else "proved",
                                "backend": "guard-analysis", "model": {}, "path": [],
                                "detail": (f"entry point ({f.entry_why}) {f.why}: the exception escapes into whoever emitted the notification "
                                           f"or into the scheduler instead of reaching on_error") if f.may_raise else f.entry_why,
                                "seconds": 0.0, "kind": "guard"})
            seen = set()
            for (cb, tr, ln) in f.guarded_sites:
                if id(tr) in seen:
                    continue
                seen.add(id(tr))
                ok, hl = handler_delivers(tr)
                results.append({"id": f"{label}/guard/try@{cb}#{len(seen)}/handler-delivers-the-exception", "verdict": "proved" if ok else "refuted",
                                "backend": "guard-analysis", "model": {}, "path": [],
                                "detail": "" if ok else f"the handler at line {hl} that guards `{cb}` neither calls on_error nor re-raises: the exception is swallowed",
                                "seconds": 0.0, "kind": "guard"})
    for r in results:
        if r["verdict"] == "refuted":
            r["replay_info"] = {"runner": "guardrun.py", "module": "-", "name": r["id"].split("/guard/")[0], "mode": "replay"}
    rep = {
        "unit": "guard-conditions/C09",
        "kind": "K-guard: user callbacks are called under a delivering guard (AST, modular)",
        "functions": functions,
        "results": results,
        "unsupported": None,
        "spec_validation": [],
        "bounded": [],
        "seconds": time.time() - t0,
    }
    if desc.get("tier") == "thorough":
        # bounded cross-check: inject an exception at the k-th call of every callback of the operators in guardrun's table
        import json
        import os
        from .report import native, VERIF
        res, err = native([os.path.join(VERIF, "rxvc", "guardrun.py"), "replay", "-", "all", json.dumps({})], timeout=200)
        if res is None:
            rep["bounded"].append({"function": "guardrun table", "bound": "did not run: " + str(err)[:200], "cases": 0})
        else:
            rep["bounded"].append({"function": "guardrun table", "bound": "operators x callbacks of the table, exception at call k = 1..3, fixed hot input",
                                   "cases": res.get("cases", 0), "mismatches": len(res.get("found", [])),
                                   "role": "cross-check of the guard analysis against CPython"})
            if res.get("found") and all(r["verdict"] == "proved" for r in results):
                rep["crash"] = f"cross-check failed: the guard analysis passed but the native fault injection found {res['found'][0]}"
    return rep
