"""C35: function, closure and loop contracts for periodic scheduling, discharged on the real code.

Time is integer ticks (A-time); the scheduler clock is an opaque monotone reading; user actions are opaque call-outs
that return a new state or raise; the scheduling primitives of the scheduler under a periodic closure are recorded.

  PeriodicScheduler.schedule_periodic(period, action, state) -> D
        one call self.schedule_relative(period, P, state=state); D holds that subscription.
        P(scheduler, st), by FRAME INDUCTION (no cell is named):
          live      calls action(st) exactly once; with st' its result, makes exactly one call
                    scheduler.schedule_relative(t, P, state=st') with the SAME closure P and
                    t = seconds - (now_after - now_before)   (next tick due at now_before + seconds: exactly one period
                    after this tick started, whatever the action took - k-th tick at k times the period in virtual time);
                    stores that subscription in D (so disposing D cancels the pending tick); changes no other cell or
                    field: it stays live after any number of ticks;
          raise     the action's exception propagates, D is disposed, nothing is rescheduled;
          disposed  (D disposed - by the user or by a raise): returns without calling the action or scheduling; changes
                    nothing: it stays stopped.
  NewThreadScheduler.schedule_periodic(period, action, state) -> Disposable
        starts exactly one thread (thread_factory(run).start()) and returns a Disposable whose action sets the `disposed`
        event.  run(): the loop is cut at its invariant; ONE arbitrary iteration from an arbitrary (state, timeout):
          waits for the remaining time iff it is positive; then reads the disposed flag and returns without calling the
          action when it is set (in EVERY iteration, also when no wait was due); otherwise calls action(state) exactly once,
          keeps its result as the next state and sets timeout = seconds - elapsed; an exception of the action leaves run().
  EventLoopScheduler.schedule_periodic    raises DisposedException when disposed, else is PeriodicScheduler's.
  timer / interval (reactivex/observable/timer.py)
        duetime == period:  one call schedule_periodic(period, A, state=0) on the scheduler, its result returned;
                            A(c) emits exactly on_next(c) and returns c + 1 (so 0, 1, 2, ... at the ticks by the contract
                            above); A(None) emits nothing.
        otherwise:          first tick scheduled at the due time; the tick closure emits the running count, increments it
                            and schedules itself once at dt + p (or now + p when that is already past).
"""
from __future__ import annotations

import time

import z3

from . import smt
from .interp import NOTSET, Interp, World, explore, _Break, _Continue
from .loader import Loader, all_functions
from .refine import Result
from .values import SV, BoundMethod, Closure, IntSV, Native, Obj, Opaque, PathEnd, PyExc, Unsupported
from .catchsched import conj, same

PFILE = "reactivex/scheduler/periodicscheduler.py"
NFILE = "reactivex/scheduler/newthreadscheduler.py"
EFILE = "reactivex/scheduler/eventloopscheduler.py"
TFILE = "reactivex/observable/timer.py"


class PWorld(World):
    def __init__(self):
        super().__init__()
        self.log = []
        self.clock = None
        self.n = 0
        self.flag = {}

    def now(self, it):
        t = it.ctx.fresh("now", "int")
        if self.clock is not None:
            it.ctx.assume(t.t >= self.clock)
        self.clock = t.t
        self.log.append(("now", t.t))
        return t

    def getattr(self, it, o, name):
        if o.kind == "scheduler" and name == "now":
            return self.now(it)
        return super().getattr(it, o, name)

    def isinstance(self, it, o, cls):
        if o.kind == "scheduler" and getattr(cls, "name", None) == "PeriodicScheduler":
            return True
        return super().isinstance(it, o, cls)

    def call(self, it, o, method, args, kwargs):
        ctx = it.ctx
        if o.kind == "scheduler":
            if method in ("to_seconds", "to_timedelta", "to_datetime"):
                return args[0]
            self.n += 1
            d = Opaque("disposable", f"{o.name}.{method}#{self.n}")
            self.log.append(("sched", o, method, list(args), dict(kwargs), d))
            return d
        if o.kind == "callback":
            if ctx.choose(2, f"{o.name} raises") == 1:
                e = SV(ctx.fresh("exc", "val").t, "val", tag="exc")
                self.log.append(("action", o, list(args), ("raise", e)))
                raise PyExc(e)
            v = ctx.fresh("ret", "val")
            self.log.append(("action", o, list(args), ("return", v)))
            return v
        if o.kind == "disposable":
            self.log.append(("dispose", o))
            return None
        if o.kind == "event":
            if method == "wait":
                self.log.append(("wait", args[0] if args else None))
                # the flag may have been set meanwhile; once set it stays set
                if not self.flag.get("set"):
                    self.flag["set"] = ctx.choose(2, "disposed while waiting") == 1
                return self.flag["set"]
            if method == "is_set":
                if not self.flag.get("set"):
                    self.flag["set"] = ctx.choose(2, "disposed meanwhile") == 1
                self.log.append(("is_set", self.flag["set"]))
                return self.flag["set"]
            if method == "set":
                self.flag["set"] = True
                self.log.append(("set",))
                return None
        if o.kind == "thread":
            self.log.append(("thread." + method,))
            return None
        if o.kind == "observer":
            self.log.append(("down", method, list(args)))
            return None
        if o.kind in ("lock", "logger"):
            return None
        return super().call(it, o, method, args, kwargs)


class PeriodicHarness:
    def __init__(self, loader=None):
        self.loader = loader or Loader()
        self.results = []
        self.unsupported = None
        self.functions = {}

    def rec(self, ctx, oid, goal, detail=""):
        t0 = time.time()
        if isinstance(goal, bool):
            goal = z3.BoolVal(goal)
        v, m, b = smt.prove(ctx.pc, goal)
        ctx.results.append(Result(oid, v, b, smt.model_to_dict(m), list(ctx.branch_log), detail, time.time() - t0, "post"))

    def base_hook(self, it, f, args, kwargs):
        fn = f.func if isinstance(f, BoundMethod) else f
        q = getattr(fn, "qualname", None) if isinstance(fn, Closure) else None
        if q in ("Scheduler.to_seconds", "Scheduler.to_timedelta", "Scheduler.to_datetime"):
            return args[-1] if args else kwargs.get("value")
        if q == "Scheduler.now" or (q or "").endswith(".now"):
            return self.w.now(it)
        return NOTSET

    # -- PeriodicScheduler.schedule_periodic --------------------------------------------------------------
    def snapshot(self, P, D, o):
        snap = {}
        if isinstance(P, Closure) and P.env is not None:
            for k, v in P.env.vars.items():
                snap[f"cell:{k}"] = v
        if isinstance(D, Obj):
            for k, v in D.fields.items():
                snap[f"disp.{k}"] = v
        if isinstance(o, Obj):
            for k, v in o.fields.items():
                snap[f"self.{k}"] = v
        return snap

    def unchanged(self, a, b, ignore=()):
        parts, diff = [], []
        for k in set(a) | set(b):
            if k in ignore:
                continue
            if k not in a or k not in b:
                parts.append(False)
                diff.append(k)
                continue
            r = same(a[k], b[k])
            parts.append(r)
            if r is False:
                diff.append(k)
        return conj(parts), diff

    def run_periodic(self, ctx, disposed_first):
        w = self.w = PWorld()
        it = Interp(self.loader, ctx, w)
        uid = f"{PFILE}::PeriodicScheduler.schedule_periodic"
        cls = it.module_get("reactivex.scheduler.periodicscheduler", "PeriodicScheduler")
        o = Obj(cls)
        own_calls = []

        def hook(it_, f, args, kwargs):
            fn = f.func if isinstance(f, BoundMethod) else f
            q = getattr(fn, "qualname", None) if isinstance(fn, Closure) else None
            if isinstance(f, BoundMethod) and f.self_val is o and q and q.split(".")[-1] in ("schedule", "schedule_relative", "schedule_absolute"):
                w.n += 1
                d = Opaque("disposable", f"self.{q.split('.')[-1]}#{w.n}")
                own_calls.append((q.split(".")[-1], list(args), dict(kwargs), d))
                return d
            return self.base_hook(it_, f, args, kwargs)
        it.call_hook = hook
        action = Opaque("callback", "action")
        st0 = ctx.fresh("state", "val")
        period = ctx.fresh("period", "int")
        D = it.call(it.get_attr(o, "schedule_periodic"), [period, action, st0], {})
        ok = len(own_calls) == 1 and own_calls[0][0] == "schedule_relative"
        self.rec(ctx, uid + "/one-schedule_relative-call-on-itself", ok, detail=f"{[c[0] for c in own_calls]}")
        self.rec(ctx, uid + "/invokes-nothing-while-scheduling", not [e for e in w.log if e[0] == "action"])
        if not ok:
            return
        a, kw, d0 = own_calls[0][1], own_calls[0][2], own_calls[0][3]
        got = dict(zip(["duetime", "action", "state"], a))
        got.update(kw)
        self.rec(ctx, uid + "/first-tick-one-period-from-now-with-the-initial-state",
                 set(got) == {"duetime", "action", "state"} and conj([same(got.get("duetime"), period), same(got.get("state"), st0)]))
        self.rec(ctx, uid + "/returns-a-disposable-holding-the-pending-tick", isinstance(D, Obj) and D.fields.get("current") is d0
                 and D.fields.get("is_disposed") is False)
        P = got.get("action")
        if not isinstance(P, Closure):
            self.rec(ctx, uid + "/periodic/is-a-function", False)
            return
        sched = Opaque("scheduler", "sched")
        if disposed_first:
            # the user disposes D (real MultipleAssignmentDisposable.dispose), then a tick that was already due still runs
            w.log.clear()
            it.call(it.get_attr(D, "dispose"), [], {})
            self.rec(ctx, uid + "/dispose/cancels-the-pending-tick", [e[1] for e in w.log if e[0] == "dispose"] == [d0])
            s_before = self.snapshot(P, D, o)
            w.log.clear()
            res, raised = None, None
            try:
                res = it.call(P, [sched, ctx.fresh("s", "val")], {})
            except PyExc as e:
                raised = e.value
            self.rec(ctx, uid + "/periodic/disposed/never-calls-the-action-or-schedules", not [e for e in w.log if e[0] in ("action", "sched")],
                     detail="a tick whose timer could not be cancelled any more (it had fired, or its handle was overwritten by a late assignment) "
                            "must find the disposable disposed and do nothing")
            self.rec(ctx, uid + "/periodic/disposed/returns-None", res is None and raised is None)
            un, diff = self.unchanged(s_before, self.snapshot(P, D, o))
            self.rec(ctx, uid + "/periodic/disposed/frame-nothing-changed-so-it-stays-stopped", un, detail=f"changed: {diff}")
            return
        # ---- a live tick
        s_before = self.snapshot(P, D, o)
        st = ctx.fresh("st", "val")
        w.log.clear()
        raised, res = None, None
        try:
            res = it.call(P, [sched, st], {})
        except PyExc as e:
            raised = e.value
        log = list(w.log)
        acts = [(i, e) for i, e in enumerate(log) if e[0] == "action"]
        ok = len(acts) == 1 and acts[0][1][1] is action and len(acts[0][1][2]) == 1
        self.rec(ctx, uid + "/periodic/live/calls-the-action-exactly-once-with-the-state", ok and same(acts[0][1][2][0], st))
        if not ok:
            return
        i_a, ev = acts[0]
        outcome = ev[3]
        scheds = [e for e in log if e[0] == "sched"]
        if outcome[0] == "raise":
            self.rec(ctx, uid + "/periodic/live/raise/the-exception-propagates", raised is not None and same(raised, outcome[1]))
            self.rec(ctx, uid + "/periodic/live/raise/nothing-is-rescheduled", not scheds)
            self.rec(ctx, uid + "/periodic/live/raise/the-periodic-disposable-is-disposed", D.fields.get("is_disposed") is True)
            # stopped afterwards
            s2 = self.snapshot(P, D, o)
            w.log.clear()
            res2 = None
            try:
                res2 = it.call(P, [sched, ctx.fresh("s2", "val")], {})
            except PyExc:
                pass
            self.rec(ctx, uid + "/periodic/after-a-raise/never-calls-the-action-or-schedules", not [e for e in w.log if e[0] in ("action", "sched")])
            un, diff = self.unchanged(s2, self.snapshot(P, D, o))
            self.rec(ctx, uid + "/periodic/after-a-raise/frame-nothing-changed-so-it-stays-stopped", un, detail=f"changed: {diff}")
            _ = res2
            return
        self.rec(ctx, uid + "/periodic/live/returns-None-and-does-not-raise", raised is None and res is None)
        ok = len(scheds) == 1 and scheds[0][1] is sched and scheds[0][2] == "schedule_relative"
        self.rec(ctx, uid + "/periodic/live/reschedules-exactly-once-on-the-scheduler-it-was-given", ok, detail=f"{[(e[1].name, e[2]) for e in scheds]}")
        if not ok:
            return
        a, kw, d1 = scheds[0][3], scheds[0][4], scheds[0][5]
        got = dict(zip(["duetime", "action", "state"], a))
        got.update(kw)
        self.rec(ctx, uid + "/periodic/live/reschedules-the-same-closure", got.get("action") is P)
        self.rec(ctx, uid + "/periodic/live/threads-the-state-the-action-returned", "state" in got and same(got["state"], outcome[1]))
        nows_before = [e[1] for e in log[:i_a] if e[0] == "now"]
        nows_after = [e[1] for e in log[i_a:] if e[0] == "now"]
        if nows_before and nows_after and "duetime" in got:
            self.rec(ctx, uid + "/periodic/live/next-tick-exactly-one-period-after-this-one-started",
                     nows_after[-1] + it.to_int(got["duetime"]) == nows_before[-1] + it.to_int(period),
                     detail="due = now_after + t must equal now_before + seconds (drift correction)")
        else:
            self.rec(ctx, uid + "/periodic/live/reads-the-clock-before-and-after-the-action", False)
        self.rec(ctx, uid + "/periodic/live/the-new-tick-replaces-the-old-one-in-the-disposable", D.fields.get("current") is d1)
        un, diff = self.unchanged(s_before, self.snapshot(P, D, o), ignore=("disp.current",))
        self.rec(ctx, uid + "/periodic/live/frame-nothing-else-changed-so-it-stays-live", un, detail=f"changed: {diff}")

    # -- NewThreadScheduler.schedule_periodic -------------------------------------------------------------
    def run_newthread(self, ctx):
        w = self.w = PWorld()
        it = Interp(self.loader, ctx, w)
        it.call_hook = self.base_hook
        uid = f"{NFILE}::NewThreadScheduler.schedule_periodic"
        ev = Opaque("event", "disposed")
        it.externals["threading.Event"] = Native("Event", lambda it_, a, k: ev)
        cls = it.module_get("reactivex.scheduler.newthreadscheduler", "NewThreadScheduler")
        o = Obj(cls)
        started = []
        thread = Opaque("thread", "thread")

        def factory(it_, a, k):
            started.append(a[0])
            return thread
        o.fields["thread_factory"] = Native("thread_factory", factory)
        action = Opaque("callback", "action")
        st0 = ctx.fresh("state", "val")
        period = ctx.fresh("period", "int")
        it.loop_contracts = {("NewThreadScheduler.schedule_periodic.run", 0): {"name": "run"}}
        self.loop_info = {"action": action, "period": period, "uid": uid}
        it.on_loop = self.on_loop_newthread
        D = it.call(it.get_attr(o, "schedule_periodic"), [period, action, st0], {})
        self.rec(ctx, uid + "/starts-exactly-one-thread-running-the-loop", len(started) == 1 and isinstance(started[0], Closure)
                 and [e for e in w.log if e[0] == "thread.start"] == [("thread.start",)])
        self.rec(ctx, uid + "/invokes-nothing-on-the-calling-thread", not [e for e in w.log if e[0] == "action"])
        # the returned disposable sets the event
        w.log.clear()
        if isinstance(D, Obj):
            it.call(it.get_attr(D, "dispose"), [], {})
        self.rec(ctx, uid + "/dispose-sets-the-disposed-event", [e for e in w.log if e[0] == "set"] == [("set",)])
        if started:
            w.flag.clear()
            w.log.clear()
            self.run_env = None
            try:
                it.call(started[0], [], {})
            except PyExc:
                pass

    def on_loop_newthread(self, it, st, env, key, lc, iterable=None):
        ctx = it.ctx
        w = self.w
        uid = self.loop_info["uid"] + "/run"
        action, period = self.loop_info["action"], self.loop_info["period"]
        # arbitrary iteration: any state, any remaining time, the flag possibly already set
        e_state = env.lookup_env("state")
        e_timeout = env.lookup_env("timeout")
        if e_state is None or e_timeout is None:
            raise Unsupported("run(): no `state` / `timeout` cells (drift)")
        state_i = ctx.fresh("state_i", "val")
        timeout_i = ctx.fresh("timeout_i", "int")
        e_state.vars["state"] = state_i
        e_timeout.vars["timeout"] = timeout_i
        w.flag.clear()
        w.flag["set"] = ctx.choose(2, "already disposed at the loop head") == 1
        was_set = w.flag["set"]
        w.log.clear()
        returned = False
        raised = None
        from .interp import _Return
        try:
            it.exec_block(st.body, env)
        except _Return:
            returned = True
        except PyExc as e:
            raised = e.value
        except (_Break, _Continue):
            pass
        log = list(w.log)
        waits = [(i, e) for i, e in enumerate(log) if e[0] == "wait"]
        acts = [(i, e) for i, e in enumerate(log) if e[0] == "action"]
        if ctx.branch(timeout_i.t > 0, "time remains"):
            self.rec(ctx, uid + "/iteration/waits-for-the-remaining-time-before-the-tick",
                     len(waits) == 1 and (not acts or waits[0][0] < acts[0][0]) and same(waits[0][1][1], timeout_i))
        else:
            self.rec(ctx, uid + "/iteration/does-not-wait-when-the-period-is-already-over", not waits)
        final_flag = w.flag.get("set")
        # the flag as last observed by the code before a possible action
        if acts:
            i_a, ev = acts[0]
            seen = [e for e in log[:i_a] if e[0] in ("is_set", "wait")]
            self.rec(ctx, uid + "/iteration/checks-the-disposed-flag-before-every-tick", bool(seen),
                     detail="also when no wait was due (the action overran the period): otherwise a disposed timer keeps ticking")
            self.rec(ctx, uid + "/iteration/never-ticks-once-disposed", not was_set,
                     detail="the flag was already set at the loop head and the action was still called")
            self.rec(ctx, uid + "/iteration/calls-the-action-exactly-once-with-the-current-state",
                     len(acts) == 1 and ev[1] is action and len(ev[2]) == 1 and same(ev[2][0], state_i))
            if ev[3][0] == "return" and raised is None and not returned:
                self.rec(ctx, uid + "/iteration/keeps-the-returned-state-for-the-next-tick", same(e_state.vars["state"], ev[3][1]))
                nows_before = [e[1] for e in log[:i_a] if e[0] == "now"]
                nows_after = [e[1] for e in log[i_a:] if e[0] == "now"]
                if nows_before and nows_after:
                    self.rec(ctx, uid + "/iteration/next-wait-is-the-period-minus-what-the-tick-took",
                             it.to_int(e_timeout.vars["timeout"]) == it.to_int(period) - (nows_after[-1] - nows_before[-1]))
                else:
                    self.rec(ctx, uid + "/iteration/reads-the-clock-before-and-after-the-action", False)
            if ev[3][0] == "raise":
                self.rec(ctx, uid + "/iteration/an-exception-of-the-action-ends-the-loop", raised is not None and same(raised, ev[3][1]))
        else:
            self.rec(ctx, uid + "/iteration/without-a-tick-the-loop-is-left-only-when-disposed", returned and final_flag is True)
        if was_set:
            self.rec(ctx, uid + "/iteration/returns-when-already-disposed", returned and not acts)
        raise PathEnd()

    # -- EventLoopScheduler.schedule_periodic --------------------------------------------------------------
    def run_eventloop(self, ctx):
        w = self.w = PWorld()
        it = Interp(self.loader, ctx, w)
        uid = f"{EFILE}::EventLoopScheduler.schedule_periodic"
        cls = it.module_get("reactivex.scheduler.eventloopscheduler", "EventLoopScheduler")
        o = Obj(cls)
        disposed = ctx.choose(2, "scheduler disposed") == 1
        o.fields["_is_disposed"] = disposed
        delegated = []

        def hook(it_, f, args, kwargs):
            fn = f.func if isinstance(f, BoundMethod) else f
            q = getattr(fn, "qualname", None) if isinstance(fn, Closure) else None
            if q == "PeriodicScheduler.schedule_periodic":
                delegated.append((list(args), dict(kwargs)))
                return Opaque("disposable", "periodic")
            return self.base_hook(it_, f, args, kwargs)
        it.call_hook = hook
        action = Opaque("callback", "action")
        st0, period = ctx.fresh("state", "val"), ctx.fresh("period", "int")
        raised, res = None, None
        try:
            res = it.call(it.get_attr(o, "schedule_periodic"), [period, action, st0], {})
        except PyExc as e:
            raised = e.value
        if disposed:
            self.rec(ctx, uid + "/disposed/raises-DisposedException", isinstance(raised, Obj) and raised.cls.name == "DisposedException" and not delegated)
        else:
            ok = raised is None and len(delegated) == 1
            self.rec(ctx, uid + "/delegates-to-the-generic-periodic-closure", ok)
            if ok:
                a, kw = delegated[0]
                got = dict(zip(["self", "period", "action", "state"], a)) if a and a[0] is o else dict(zip(["period", "action", "state"], a))
                got.update(kw)
                self.rec(ctx, uid + "/same-arguments", conj([same(got.get("period"), period), same(got.get("state"), st0)]) and got.get("action") is action)

    # -- timer / interval -------------------------------------------------------------------------------------
    def run_timer_periodic(self, ctx):
        w = self.w = PWorld()
        it = Interp(self.loader, ctx, w)
        it.call_hook = self.base_hook
        uid = f"{TFILE}::observable_timer_timespan_and_period[duetime == period]"
        f = it.module_get("reactivex.observable.timer", "observable_timer_timespan_and_period")
        sched = Opaque("scheduler", "sched")
        period = ctx.fresh("period", "int")
        obs = it.call(f, [period, period, sched], {})
        sub = obs.fields.get("_subscribe") if isinstance(obs, Obj) else None
        if not isinstance(sub, Closure):
            raise Unsupported("timer: no subscribe function on the result")
        observer = Opaque("observer", "observer")
        res = it.call(sub, [observer, Opaque("scheduler", "subscribe_time_scheduler")], {})
        calls = [e for e in w.log if e[0] == "sched"]
        self.rec(ctx, uid + "/ticks-on-the-scheduler-the-factory-was-given (the subscribe-time scheduler is only the fallback)", all(e[1] is sched for e in calls),
                 detail=f"{[(e[1].name, e[2]) for e in calls]}")
        ok = len(calls) == 1 and calls[0][2] == "schedule_periodic"
        self.rec(ctx, uid + "/one-schedule_periodic-call", ok)
        self.rec(ctx, uid + "/emits-nothing-at-subscription", not [e for e in w.log if e[0] == "down"])
        if not ok:
            return
        a, kw, d = calls[0][3], calls[0][4], calls[0][5]
        got = dict(zip(["period", "action", "state"], a))
        got.update(kw)
        self.rec(ctx, uid + "/with-the-period-and-state-0", same(got.get("period"), period) is not False and got.get("state") == 0
                 and conj([same(got.get("period"), period)]))
        self.rec(ctx, uid + "/returns-the-scheduler's-disposable", res is d)
        A = got.get("action")
        c = ctx.fresh("c", "int")
        w.log.clear()
        r = it.call(A, [c], {})
        downs = [e for e in w.log if e[0] == "down"]
        self.rec(ctx, uid + "/tick/emits-exactly-the-count", len(downs) == 1 and downs[0][1] == "on_next" and same(downs[0][2][0], c))
        self.rec(ctx, uid + "/tick/returns-count-plus-one", isinstance(r, SV) and it.to_int(r) == c.t + 1)
        w.log.clear()
        r2 = it.call(A, [None], {})
        self.rec(ctx, uid + "/tick/without-a-state-emits-nothing", not w.log and r2 is None)

    def run_timer_absolute(self, ctx):
        w = self.w = PWorld()
        it = Interp(self.loader, ctx, w)
        it.call_hook = self.base_hook
        uid = f"{TFILE}::observable_timer_duetime_and_period"
        f = it.module_get("reactivex.observable.timer", "observable_timer_duetime_and_period")
        sched = Opaque("scheduler", "sched")
        duetime, period = ctx.fresh("duetime", "int"), ctx.fresh("period", "int")
        ctx.assume(period.t >= 0)
        base_isinstance = it.externals["builtins.isinstance"]
        is_dt = ctx.choose(2, "duetime is a datetime") == 1

        def my_isinstance(it_, a, k):
            if str(getattr(a[1], "name", "")).endswith("datetime"):
                return is_dt
            return base_isinstance.fn(it_, a, k)
        it.externals["builtins.isinstance"] = Native("isinstance", my_isinstance)
        obs = it.call(f, [duetime, period, sched], {})
        sub = obs.fields.get("_subscribe") if isinstance(obs, Obj) else None
        if not isinstance(sub, Closure):
            raise Unsupported("timer: no subscribe function on the result")
        observer = Opaque("observer", "observer")
        res = it.call(sub, [observer, Opaque("scheduler", "subscribe_time_scheduler")], {})
        calls = [e for e in w.log if e[0] == "sched"]
        self.rec(ctx, uid + "/ticks-on-the-scheduler-the-factory-was-given (the subscribe-time scheduler is only the fallback)", all(e[1] is sched for e in calls),
                 detail=f"{[(e[1].name, e[2]) for e in calls]}")
        nows = [e[1] for e in w.log if e[0] == "now"]
        ok = len(calls) == 1 and calls[0][2] == "schedule_absolute"
        self.rec(ctx, uid + "/first-tick-scheduled-once-at-an-absolute-time", ok)
        if not ok:
            return
        first_due = it.to_int(calls[0][3][0])
        want = duetime.t if is_dt else (nows[-1] + duetime.t if nows else None)
        self.rec(ctx, uid + "/first-tick-at-the-due-time", want is not None and first_due == want)
        A = calls[0][3][1]
        self.rec(ctx, uid + "/returns-a-disposable-holding-the-pending-tick", isinstance(res, Obj) and res.fields.get("current") is calls[0][5])
        # an arbitrary tick: count and dt arbitrary
        env = A.env
        e_count, e_dt = env.lookup_env("count"), env.lookup_env("dt")
        if e_count is None or e_dt is None:
            raise Unsupported("timer tick: no `count` / `dt` cells (drift)")
        from .cells import require_known
        require_known(A, {"count", "dt"}, uid)
        n, dt = ctx.fresh("n", "int"), ctx.fresh("dt", "int")
        e_count.vars["count"], e_dt.vars["dt"] = n, dt
        w.log.clear()
        it.call(A, [sched, None], {})
        downs = [e for e in w.log if e[0] == "down"]
        scheds = [e for e in w.log if e[0] == "sched"]
        nows = [e[1] for e in w.log if e[0] == "now"]
        self.rec(ctx, uid + "/tick/emits-exactly-the-running-count", len(downs) == 1 and downs[0][1] == "on_next" and same(downs[0][2][0], n))
        self.rec(ctx, uid + "/tick/increments-the-count", it.to_int(e_count.vars["count"]) == n.t + 1)
        ok = len(scheds) == 1 and scheds[0][2] == "schedule_absolute" and scheds[0][3][1] is A
        self.rec(ctx, uid + "/tick/schedules-itself-exactly-once", ok)
        if ok:
            nxt = it.to_int(scheds[0][3][0])
            if ctx.branch(period.t > 0, "period > 0"):
                now = nows[-1] if nows else None
                self.rec(ctx, uid + "/tick/next-tick-one-period-later-or-one-period-from-now-when-late",
                         now is not None and nxt == z3.If(dt.t + period.t <= now, now + period.t, dt.t + period.t))
            self.rec(ctx, uid + "/tick/the-new-tick-replaces-the-old-one-in-the-disposable", res.fields.get("current") is scheds[0][5])

    def run(self):
        t0 = time.time()
        try:
            for f, c in ((PFILE, "PeriodicScheduler.schedule_periodic"), (NFILE, "NewThreadScheduler.schedule_periodic"),
                         (EFILE, "EventLoopScheduler.schedule_periodic"), (TFILE, "observable_timer_timespan_and_period"),
                         (TFILE, "observable_timer_duetime_and_period"), (TFILE, "timer_")):
                node = self.loader.find(f, c)
                self.functions[f"{f}::{c}"] = self.loader.sha(f, c)
                for q, n in all_functions(node, c):
                    self.functions[f"{f}::{q}"] = self.loader.sha(f, q)
            scen = [lambda ctx: self.run_periodic(ctx, False), lambda ctx: self.run_periodic(ctx, True), self.run_newthread,
                    self.run_eventloop, self.run_timer_periodic, self.run_timer_absolute]
            for f in scen:
                for p in explore(f):
                    self.results.extend(p.results)
        except Unsupported as e:
            self.unsupported = str(e)
        except PyExc as e:
            self.unsupported = f"interpreter-level exception: {e.value!r} {getattr(e.value, 'fields', '')}"
        self.seconds = time.time() - t0
        return self


#: must-fail mutants (thorough tier, in memory)
MUTANTS = {
    PFILE: {
        "disposed check dropped": ("            if disp.is_disposed:\n                return None\n", ""),
        "no drift correction": ("            time = seconds - (scheduler.now - now).total_seconds()", "            time = seconds"),
        "state not threaded": ("disp.disposable = scheduler.schedule_relative(time, periodic, state=state)",
                               "disp.disposable = scheduler.schedule_relative(time, periodic)"),
        "raise keeps the timer": ("            except Exception:\n                disp.dispose()\n                raise", "            except Exception:\n                raise"),
        "pending tick not tracked": ("            disp.disposable = scheduler.schedule_relative(time, periodic, state=state)",
                                     "            scheduler.schedule_relative(time, periodic, state=state)"),
    },
    NFILE: {
        "flag tested only after a wait": ("                if timeout > 0.0:\n                    disposed.wait(timeout)\n                if disposed.is_set():\n                    return",
                                          "                if timeout > 0.0 and disposed.wait(timeout):\n                    return"),
        "state not kept": ("                state = action(state)", "                action(state)"),
        "no wait": ("                if timeout > 0.0:\n                    disposed.wait(timeout)\n", ""),
        "dispose does nothing": ("            disposed.set()", "            pass"),
    },
    TFILE: {
        "interval starts at 1": ("return _scheduler.schedule_periodic(period, action, state=0)", "return _scheduler.schedule_periodic(period, action, state=1)"),
        "count not incremented": ("                    return count + 1", "                    return count"),
    },
}


def must_fail():
    out = {"mutants": 0, "killed": 0, "survivors": []}
    for rel, ms in MUTANTS.items():
        src = Loader().load_file(rel).src
        for name, (a, b) in ms.items():
            if a not in src:
                continue
            ld = Loader()
            ld.overrides = {rel: src.replace(a, b, 1)}
            h = PeriodicHarness(ld).run()
            out["mutants"] += 1
            if h.unsupported or any(r.verdict == "refuted" for r in h.results):
                out["killed"] += 1
            else:
                out["survivors"].append(f"{rel}: {name}")
    return out


def run_unit(desc):
    import json
    import os
    h = PeriodicHarness().run()
    res = [r.as_dict() for r in h.results]
    rep = {
        "unit": f"{PFILE}::PeriodicScheduler.schedule_periodic",
        "kind": "function / closure contracts (frame induction) and a loop invariant for periodic scheduling",
        "functions": h.functions,
        "results": res,
        "unsupported": h.unsupported,
        "spec_validation": [],
        "bounded": [],
        "replayable": {"runner": "periodicrun.py", "module": "-", "name": "C35"},
    }
    if desc.get("tier") == "thorough" and not h.unsupported:
        mf = must_fail()
        rep["must_fail"] = dict(mf, unit=rep["unit"])
        if mf["mutants"] and mf["killed"] < mf["mutants"]:
            rep["crash"] = f"vacuity: must-fail mutants survived: {mf['survivors']}"
    if h.unsupported or desc.get("tier") == "thorough":
        from .report import native, VERIF, REPLAY_DIR
        r, err = native([os.path.join(VERIF, "rxvc", "periodicrun.py"), "replay", "-", "C35",
                         json.dumps({"replay_path": os.path.join(REPLAY_DIR, "C35-standin.py"), "prop": "C35",
                                     "oid": rep["unit"] + "/bounded-standin"})], timeout=200)
        st = r if r is not None else {"found": [], "error": err, "cases": 0}
        rep["bounded"].append({"function": rep["unit"], "bound": "virtual time: periods {1,2} x dispose times x raise positions, interval; real threads: "
                               "NewThread / EventLoop with a 20 ms period, with and without an overrunning action", "cases": st.get("cases", 0),
                               "mismatches": len(st.get("found", [])),
                               "role": "stand-in (out of subset)" if h.unsupported else "cross-check of the contracts against CPython"})
        if h.unsupported:
            rep["standin"] = st
        elif st.get("found") and all(x["verdict"] == "proved" for x in res):
            rep["crash"] = f"cross-check failed: contracts proved but the native run disagrees: {st['found'][0]}"
    return rep
