"""Native runner for resources and finally-actions (replay of C40 violations; bounded).

Runs under /venv/bin/python.  using(): resources of several kinds (a plain disposable, an EMPTY CompositeDisposable -
falsy -, None), inner timelines (complete / error / never), disposal before or after termination, raising factories:
the resource's dispose count must be exactly 1 once the subscription ended (0 when there is no resource).
finally_action / do_finally: the action count must be exactly 1 after termination and/or disposal in any order.
do_action & co.: the sequence passes unchanged and each callback sees each notification once.  BOUNDED.

usage: resrun.py replay - C40 '<json opts>'
       resrun.py case '<json case>'
"""
from __future__ import annotations

import itertools
import json
import os
import sys

VERIF = os.path.dirname(os.path.dirname(os.path.abspath(__file__)))
REPO = os.environ.get("RXVC_REPO", "/repo")
if REPO not in sys.path:
    sys.path.insert(0, REPO)


class Boom(Exception):
    pass


def hot():
    from reactivex import Observable
    from reactivex.disposable import Disposable

    class Raw(Observable):
        def __init__(self):
            self.observers = []
            self.unsubscribed = 0
            super().__init__(self._sub)

        def _sub(self, observer, scheduler=None):
            self.observers.append(observer)

            def un():
                self.unsubscribed += 1
                if observer in self.observers:
                    self.observers.remove(observer)
            return Disposable(un)

        def send(self, kind, v=None):
            for o in list(self.observers):
                getattr(o, kind)(*([v] if kind != "on_completed" else []))
    return Raw()


def using_case(c):
    import reactivex as rx
    from reactivex.disposable import CompositeDisposable, Disposable
    count = {"n": 0}

    class Res(CompositeDisposable):
        """an empty CompositeDisposable: len() == 0, so it is falsy"""

        def dispose(self):
            count["n"] += 1
            super().dispose()
    kind = c["resource"]

    def rf():
        if c.get("rf_raises"):
            raise Boom("rf")
        if kind == "none":
            return None
        if kind == "falsy":
            return Res()
        return Disposable(lambda: count.__setitem__("n", count["n"] + 1))
    src = hot()

    def of(r):
        if c.get("of_raises"):
            raise Boom("of")
        return src
    got = []
    d = rx.using(rf, of).subscribe(lambda v: got.append(("N", v)), lambda e: got.append(("E", type(e).__name__)), lambda: got.append(("C",)))
    for step in c["steps"]:
        if step == "dispose":
            d.dispose()
        elif step == "next":
            src.send("on_next", 1)
        elif step == "complete":
            src.send("on_completed")
        elif step == "error":
            src.send("on_error", Boom("src"))
    ended = any(s in ("dispose", "complete", "error") for s in c["steps"]) or c.get("rf_raises") or c.get("of_raises")
    has_res = kind != "none" and not c.get("rf_raises")
    want = 1 if (has_res and ended) else 0
    if count["n"] != want:
        return {"what": f"the resource was disposed {count['n']} time(s), expected {want}", "events": got}
    if (c.get("rf_raises") or c.get("of_raises")) and got[:1] != [("E", "Boom")]:
        return {"what": "a failing factory was not delivered as on_error", "events": got}
    return None


def finally_case(c):
    from reactivex import operators as ops
    n = {"a": 0}
    src = hot()
    from reactivex.operators import _do
    act = lambda: n.__setitem__("a", n["a"] + 1)  # noqa: E731
    op = ops.finally_action(act) if c["op"] == "finally_action" else _do.do_finally(act)
    got = []

    def term(ev):
        got.append(ev)
        if c.get("subscriber_raises"):
            raise Boom("subscriber")  # the subscriber's own terminal handler fails (the default on_error handler re-raises, too)
    d = src.pipe(op).subscribe(lambda v: got.append(("N", v)), lambda e: term(("E", type(e).__name__)), lambda: term(("C",)))
    for step in c["steps"]:
        try:
            if step == "dispose":
                d.dispose()
            elif step == "next":
                src.send("on_next", 1)
            elif step == "complete":
                src.send("on_completed")
            elif step == "error":
                src.send("on_error", Boom("src"))
        except Boom:
            if not c.get("subscriber_raises"):
                raise
    ended = any(s in ("dispose", "complete", "error") for s in c["steps"])
    want = 1 if ended else 0
    if n["a"] != want:
        return {"what": f"the action ran {n['a']} time(s), expected {want}", "events": got}
    return None


def do_case(c):
    from reactivex import operators as ops
    seen = []
    src = hot()
    raise_at = c.get("raise_at")

    def cb(tag):
        def f(*a):
            seen.append((tag,) + a)
            if raise_at is not None and len(seen) == raise_at:
                raise Boom("cb")
        return f
    got = []
    src.pipe(ops.do_action(cb("N"), cb("E"), cb("C"))).subscribe(lambda v: got.append(("N", v)), lambda e: got.append(("E", type(e).__name__)), lambda: got.append(("C",)))
    sent = []
    for step in c["steps"]:
        if step == "next":
            src.send("on_next", len(sent))
            sent.append(("N", len(sent)))
        elif step == "complete":
            src.send("on_completed")
            sent.append(("C",))
        elif step == "error":
            src.send("on_error", Boom("src"))
            sent.append(("E", "Boom"))
    if raise_at is None:
        if got != sent:
            return {"what": "do_action changed the sequence", "got": got, "sent": sent}
        if [s[0] for s in seen] != [s[0] for s in sent]:
            return {"what": "the callbacks did not see every notification exactly once", "seen": [s[0] for s in seen], "sent": sent}
    else:
        if len(seen) >= raise_at and ("E", "Boom") not in got:
            return {"what": "a raising callback did not end the sequence with on_error", "got": got}
    return None


def cases():
    tails = [["dispose"], ["complete"], ["error"], ["complete", "dispose"], ["dispose", "complete"], ["error", "dispose"], ["dispose", "dispose"], []]
    for res in ("plain", "falsy", "none"):
        for t in tails:
            for pre in ([], ["next"]):
                yield {"k": "using", "resource": res, "steps": pre + t}
        yield {"k": "using", "resource": res, "steps": [], "rf_raises": True}
        yield {"k": "using", "resource": res, "steps": [], "of_raises": True}
        yield {"k": "using", "resource": res, "steps": ["dispose"], "of_raises": True}
    for op in ("finally_action", "do_finally"):
        for t in tails:
            for pre in ([], ["next"]):
                yield {"k": "finally", "op": op, "steps": pre + t}
                if t and t[0] in ("complete", "error"):
                    yield {"k": "finally", "op": op, "steps": pre + t, "subscriber_raises": True}
    for t in (["next", "next", "complete"], ["next", "error"], ["complete"], ["next"]):
        yield {"k": "do", "steps": t, "raise_at": None}
        for r in range(1, len(t) + 1):
            yield {"k": "do", "steps": t, "raise_at": r}
    _ = itertools


def run(c):
    return {"using": using_case, "finally": finally_case, "do": do_case}[c["k"]](c)


REPLAY_TEMPLATE = '''#!/venv/bin/python
"""Replay of a violation of property {prop} (resources / finally-actions).
obligation: {oid}
case: {case}
{what}
Exit 1 when it reproduces on the tree under RXVC_REPO (default /repo)."""
import subprocess, sys
r = subprocess.run(["/venv/bin/python", "{verif}/rxvc/resrun.py", "case", {case!r}])
sys.exit(r.returncode)
'''


def main(argv):
    if argv[0] == "case":
        r = run(json.loads(argv[1]))
        print(json.dumps({"violation": r}, default=repr))
        sys.exit(1 if r else 0)
    opts = json.loads(argv[3]) if len(argv) > 3 else {}
    n, found = 0, None
    for c in cases():
        n += 1
        r = run(c)
        if r:
            found = {"case": c, "disagreement": r}
            break
    res = {"cases": n, "found": [found] if found else []}
    if found and "replay_path" in opts:
        os.makedirs(os.path.dirname(opts["replay_path"]), exist_ok=True)
        with open(opts["replay_path"], "w") as f:
            f.write(REPLAY_TEMPLATE.format(prop=opts.get("prop", "C40"), oid=opts.get("oid", "?"), verif=VERIF,
                                           case=json.dumps(found["case"]), what=json.dumps(found["disagreement"], default=repr)[:600]))
        res["replay"] = opts["replay_path"]
    print(json.dumps(res, default=repr))


if __name__ == "__main__":
    main(sys.argv[1:])
