"""C10: contracts for sequential composition, discharged on the real code.

Three engines do the work - concat_with_iterable_, catch_with_iterable_, on_error_resume_next_ (reactivex/observable) - and
everything else (concat, concat operator, start_with, for_in, repeat, retry, catch with a fallback observable,
on_error_resume_next operator, while_do, do_while) is shown to hand one of them the right iterable of sources.

Engine contract (subscribe + one arbitrary tick + the continuation handler).  The scheduler is opaque (scheduling calls are
recorded and the tick is run by the harness), the iterable of sources follows the iterator protocol over an arbitrary
sequence, each source is opaque (its subscribe call is recorded):
  subscribe      takes ONE iterator, schedules ONE tick, subscribes nothing and emits nothing itself; disposing the result
                 stops future ticks and disposes the current source's subscription and the pending tick;
  tick           (arbitrary iterator position, disposed or not, anything held in the serial disposables)
                 disposed: does nothing.  Otherwise asks the iterator exactly once:
                   an item  -> subscribes exactly THAT source, once, with the subscriber's own on_next, with the subscriber's
                               own handler for the terminal the operator does NOT continue on, and with the continuation
                               handler for the one it continues on; the new subscription replaces (disposes) the previous one;
                               nothing is emitted, nothing is scheduled;
                   exhausted -> concat / on_error_resume_next: on_completed;  catch: the last error if there was one, else
                               on_completed;
                   iterator raises -> on_error with that exception;
  continuation   (the handler of the terminal the operator continues on) schedules exactly one tick - the same closure - and
                 does nothing else: no subscription, no emission.
Hence sources are subscribed strictly one after another, the next only after the previous one ended the continuing way;
the output is the concatenation of their elements (they pass through the subscriber's own on_next); a non-continuing
terminal ends the output at once.  Counts: the iterable handed over by repeat(n) / retry(n) yields the source exactly n
times (forever for None), so repeat subscribes exactly n times when every run completes and retry at most n times.
"""
from __future__ import annotations

import time

import z3

from . import smt
from .interp import NOTSET, Interp, explore
from .loader import Loader, all_functions
from .refine import Result
from .values import SV, BoundMethod, Closure, IntSV, ListObj, Native, Obj, Opaque, OpaqueMethod, PathEnd, PyExc, RangeVal, Unsupported, ValSV
from .catchsched import conj, same
from .srcfac import SWorld

OBS = "reactivex/observable/"
OPS = "reactivex/operators/"
ENGINES = {
    "concat": (OBS + "concat.py", "reactivex.observable.concat", "concat_with_iterable_", "on_completed"),
    "catch": (OBS + "catch.py", "reactivex.observable.catch", "catch_with_iterable_", "on_error"),
    "resume": (OBS + "onerrorresumenext.py", "reactivex.observable.onerrorresumenext", "on_error_resume_next_", "both"),
}


class QWorld(SWorld):
    """iterables of sources: `next` yields an opaque source identified by its position term"""

    def call(self, it, o, method, args, kwargs):
        ctx = it.ctx
        if o.kind == "iterator" and method == "__next__" and o.attrs["of"].attrs.get("sources"):
            seq, pos = o.attrs["seq"], it.to_int(o.attrs["pos"])
            k = ctx.choose(2 if o.attrs["of"].attrs.get("no_raise") else 3, "next: item / exhausted / raises")
            if k == 0:
                ctx.assume(z3.And(pos >= 0, pos < z3.Length(seq)))
                src = Opaque("source", f"source@{len(self.log)}", term=seq[pos])
                o.attrs["pos"] = IntSV(pos + 1)
                self.log.append(("next", o, "item", src))
                if o.attrs["of"].attrs.get("factories") and ctx.choose(2, "the entry is a source / a factory taking the previous error") == 1:
                    # on_error_resume_next takes, in place of a source, a function from the previous error to the source to go on with
                    return Opaque("callback", f"factory@{len(self.log)}", produces=src)
                return src
            if k == 1:
                ctx.assume(pos == z3.Length(seq))
                self.log.append(("next", o, "stop", None))
                raise PyExc(it.make_exc("StopIteration"))
            e = SV(ctx.fresh("iter_exc", "val").t, "val", tag="exc")
            ctx.assume(z3.Not(z3.Function("exc_isinstance_StopIteration", smt.Val, z3.BoolSort())(e.t)))
            self.log.append(("next", o, "raise", e))
            raise PyExc(e)
        if o.kind == "callback" and "produces" in o.attrs:
            if ctx.choose(2, "the source factory returns / raises") == 1:
                e = SV(ctx.fresh("factory_exc", "val").t, "val", tag="exc")
                self.log.append(("factory", o, list(args), ("raise", e)))
                raise PyExc(e)
            self.log.append(("factory", o, list(args), ("return", o.attrs["produces"])))
            return o.attrs["produces"]
        if o.kind == "source" and method == "subscribe":
            self.n += 1
            d = Opaque("disposable", f"sub:{o.name}#{self.n}")
            self.log.append(("subscribe", o, list(args), dict(kwargs), d))
            return d
        return super().call(it, o, method, args, kwargs)


class SeqHarness:
    def __init__(self, loader=None):
        self.loader = loader or Loader()
        self.results = []
        self.unsupported = None
        self.functions = {}

    def rec(self, ctx, oid, goal, detail=""):
        t0 = time.time()
        if isinstance(goal, bool):
            goal = z3.BoolVal(goal)
        v, m, b = smt.prove(ctx.pc, goal)
        ctx.results.append(Result(oid, v, b, smt.model_to_dict(m), list(ctx.branch_log), detail, time.time() - t0, "post"))

    def setup(self, ctx):
        w = self.w = QWorld()
        it = Interp(self.loader, ctx, w)
        self.sched = Opaque("scheduler", "sched")
        self.observer = Opaque("observer", "observer")
        return it

    def ev(self, kind):
        return [e for e in self.w.log if e[0] == kind]

    # -- the three engines -------------------------------------------------------------------------------------
    def run_engine(self, ctx, which):
        rel, mod, fn, cont = ENGINES[which]
        it = self.setup(ctx)
        w = self.w
        uid = f"{rel}::{fn}"
        xs = Opaque("iterable", "sources", seq=ctx.fresh("sources", "seq").t, sources=True, no_raise=(which == "resume"), factories=(which == "resume"))
        f = it.module_get(mod, fn)
        obs = it.call(f, [xs] if which != "resume" else [xs], {}) if which != "resume" else None
        if which == "resume":
            # on_error_resume_next_(*sources): the engine iterates its own argument tuple; give it the abstract iterable
            # through the one place it is used: iter(sources)
            base_iter = it.externals["builtins.iter"]

            def my_iter(it_, a, k):
                if isinstance(a[0], tuple):
                    return w.call(it_, xs, "__iter__", [], {})
                return base_iter.fn(it_, a, k)
            it.externals["builtins.iter"] = Native("iter", my_iter)
            obs = it.call(f, [], {})
        sub = obs.fields.get("_subscribe") if isinstance(obs, Obj) else None
        if not isinstance(sub, Closure):
            raise Unsupported(f"{fn} did not return Observable(subscribe)")
        w.log.clear()
        D = it.call(sub, [self.observer, self.sched], {})
        sc, iters = self.ev("sched"), self.ev("iter")
        ok = len(sc) == 1 and sc[0][2] == "schedule" and len(iters) == 1 and not self.ev("down") and not self.ev("subscribe") and not self.ev("next")
        self.rec(ctx, uid + "/subscribe/one-iterator-one-scheduled-tick-nothing-subscribed-or-emitted", ok)
        if not ok:
            return
        A = (list(sc[0][3]) + [None])[0]
        env = A.env
        cells = {n: env.lookup_env(n) for n in ("sources_", "is_disposed", "subscription", "cancelable")}
        if which == "catch":
            cells["last_exception"] = env.lookup_env("last_exception")
        if any(v is None for v in cells.values()):
            raise Unsupported(f"{fn}: cells {[k for k, v in cells.items() if v is None]} not found (drift)")
        from .cells import require_known
        require_known(A, set(cells), uid)
        subscription, cancelable = cells["subscription"].vars["subscription"], cells["cancelable"].vars["cancelable"]
        self.rec(ctx, uid + "/subscribe/the-pending-tick-is-held-for-cancellation", isinstance(cancelable, Obj) and cancelable.fields.get("current") is sc[0][5])
        # dispose: stops future ticks, disposes the pending tick and the current subscription
        prev_sub = Opaque("disposable", "current_subscription")
        subscription.fields["current"] = prev_sub
        w.log.clear()
        it.call(it.get_attr(D, "dispose"), [], {})
        disposed = [e[1] for e in self.ev("dispose")]
        self.rec(ctx, uid + "/dispose/stops-the-ticks-and-disposes-the-current-subscription-and-the-pending-tick",
                 cells["is_disposed"].vars["is_disposed"] is True and any(d is prev_sub for d in disposed) and any(d is sc[0][5] for d in disposed))
        # ---- an arbitrary tick
        cells["is_disposed"].vars["is_disposed"] = ctx.choose(2, "disposed") == 1
        dflag = cells["is_disposed"].vars["is_disposed"]
        for sd, nm in ((subscription, "prev_subscription"), (cancelable, "prev_tick")):
            sd.fields["is_disposed"] = False
            sd.fields["current"] = Opaque("disposable", nm) if ctx.choose(2, f"{nm} held") == 0 else None
        prev = subscription.fields["current"]
        pos = ctx.fresh("i", "int")
        ctx.assume(z3.And(pos.t >= 0, pos.t <= z3.Length(xs.attrs["seq"])))
        itr = w.new_iterator(it, xs, pos)
        cells["sources_"].vars["sources_"] = itr
        last = None
        if which == "catch":
            last = None if ctx.choose(2, "an earlier source failed") == 1 else SV(ctx.fresh("last_exc", "val").t, "val", tag="exc")
            if last is not None:
                ctx.assume(last.t != smt.NONE)  # A-exc: an exception instance is not None (its truth value is arbitrary)
            cells["last_exception"].vars["last_exception"] = last
        w.log.clear()
        try:
            it.call(A, [self.sched, None], {})
        except PyExc as e:
            self.rec(ctx, uid + "/tick/no-exception-escapes-into-the-scheduler", False, detail=f"{e.value!r}")
            return
        nx, subs, downs, sch = self.ev("next"), self.ev("subscribe"), self.ev("down"), self.ev("sched")
        if dflag:
            self.rec(ctx, uid + "/tick/disposed/does-nothing", not (nx or subs or downs or sch))
            return
        self.rec(ctx, uid + "/tick/asks-the-iterator-exactly-once", len(nx) == 1)
        if not nx:
            return
        kind = nx[0][2]
        fac = self.ev("factory")
        if fac and fac[0][3][0] == "raise":
            # the entry was a factory and it failed: the sequence fails with that exception - nothing is subscribed, nothing scheduled (the operator
            # "continues on" terminations of SOURCES; a factory that cannot say which source comes next leaves nothing to continue with)
            self.rec(ctx, uid + "/tick/factory-raises/the-factory-was-called-once-with-the-previous-error", len(fac) == 1 and len(fac[0][2]) == 1 and fac[0][2][0] is None)
            self.rec(ctx, uid + "/tick/factory-raises/ends-with-exactly-that-error-and-nothing-else",
                     len(downs) == 1 and downs[0][1] == "on_error" and same(downs[0][2][0], fac[0][3][1]) is True and not subs and not sch,
                     detail=f"downstream: {[d[1] for d in downs]}, subscribed: {len(subs)}, scheduled: {len(sch)}")
            return
        if fac:
            self.rec(ctx, uid + "/tick/factory/called-once-with-the-previous-error", len(fac) == 1 and len(fac[0][2]) == 1 and fac[0][2][0] is None)
        if kind == "item":
            src = nx[0][3]
            ok = len(subs) == 1 and subs[0][1] is src
            self.rec(ctx, uid + "/tick/item/subscribes-exactly-that-source-once", ok)
            self.rec(ctx, uid + "/tick/item/emits-nothing-and-schedules-nothing", not downs and not sch)
            if not ok:
                return
            hs = (list(subs[0][2]) + [None, None, None])[:3]
            kw = subs[0][3]
            on_next, on_error, on_completed = hs[0], kw.get("on_error", hs[1]), kw.get("on_completed", hs[2])
            mine = lambda h, m: isinstance(h, OpaqueMethod) and h.obj is self.observer and h.name == m  # noqa: E731
            self.rec(ctx, uid + "/tick/item/elements-go-straight-to-the-subscriber", mine(on_next, "on_next"))
            if cont == "on_completed":
                self.rec(ctx, uid + "/tick/item/an-error-goes-straight-to-the-subscriber", mine(on_error, "on_error"))
                C = [on_completed]
            elif cont == "on_error":
                self.rec(ctx, uid + "/tick/item/a-completion-goes-straight-to-the-subscriber", mine(on_completed, "on_completed"))
                C = [on_error]
            else:
                C = [on_error, on_completed]
            self.rec(ctx, uid + "/tick/item/the-continuing-terminal-gets-a-continuation-handler", all(isinstance(c, Closure) for c in C))
            # the new subscription replaces the previous one
            cur = subscription.fields.get("current")
            held = isinstance(cur, Obj) and cur.fields.get("current") is subs[0][4]
            self.rec(ctx, uid + "/tick/item/the-new-subscription-is-held-and-the-previous-one-disposed",
                     held and (prev is None or any(e[1] is prev for e in self.ev("dispose"))))
            for k, c in enumerate(C):
                if not isinstance(c, Closure):
                    continue
                w.log.clear()
                args = [SV(ctx.fresh("exn", "val").t, "val", tag="exc")] if (cont == "on_error" or (cont == "both" and k == 0)) else []
                it.call(c, args, {})
                s2 = self.ev("sched")
                ok2 = len(s2) == 1 and s2[0][2] == "schedule" and (list(s2[0][3]) + [None])[0] is A
                self.rec(ctx, uid + f"/continuation#{k}/schedules-exactly-one-tick-of-the-same-closure", ok2)
                self.rec(ctx, uid + f"/continuation#{k}/subscribes-nothing-and-emits-nothing", not self.ev("subscribe") and not self.ev("down") and not self.ev("next"))
                if ok2:
                    self.rec(ctx, uid + f"/continuation#{k}/the-pending-tick-is-held-for-cancellation", cancelable.fields.get("current") is s2[0][5])
                # frame: holding the new tick must not release the subscription that is (or, when the scheduler runs the tick inside schedule(),
                # has just been) installed - only an earlier tick's handle may be disposed here
                gone = [e[1] for e in self.ev("dispose")]
                cur2 = subscription.fields.get("current")
                self.rec(ctx, uid + f"/continuation#{k}/leaves-the-source-subscription-slot-alone", cur2 is cur and not any(g is subs[0][4] or g is cur for g in gone),
                         detail=f"disposed: {[getattr(g, 'name', g) for g in gone]!r}")
                if which == "catch" and args:
                    self.rec(ctx, uid + f"/continuation#{k}/remembers-the-error", same(cells["last_exception"].vars["last_exception"], args[0]))
        elif kind == "stop":
            self.rec(ctx, uid + "/tick/exhausted/subscribes-nothing-and-schedules-nothing", not subs and not sch)
            if which == "catch" and last is not None:
                ok = len(downs) == 1 and downs[0][1] == "on_error" and same(downs[0][2][0], last)
                self.rec(ctx, uid + "/tick/exhausted/after-a-failure-the-last-error-is-the-terminal", ok)
            else:
                self.rec(ctx, uid + "/tick/exhausted/emits-exactly-on_completed", len(downs) == 1 and downs[0][1] == "on_completed")
        else:
            ok = len(downs) == 1 and downs[0][1] == "on_error" and same(downs[0][2][0], nx[0][3])
            self.rec(ctx, uid + "/tick/iterator-raises/emits-exactly-on_error-with-that-exception", ok if ok is not True else True)
            self.rec(ctx, uid + "/tick/iterator-raises/subscribes-nothing-and-schedules-nothing", not subs and not sch)

    # -- wrappers: which iterable reaches which engine ------------------------------------------------------------
    def capture(self, it):
        """replace the engines by recorders"""
        calls = []

        def hook(it_, f, args, kwargs):
            fn = f.func if isinstance(f, BoundMethod) else f
            q = getattr(fn, "qualname", None) if isinstance(fn, Closure) else None
            for name, (_rel, emod, efn, _c) in ENGINES.items():
                if q == efn and getattr(getattr(fn, "module", None), "name", None) == emod:
                    r = Opaque("observable", f"{name}#{len(calls)}")
                    calls.append((name, list(args), dict(kwargs), r))
                    return r
            if q in ("from_iterable_",):
                r = Opaque("observable", f"from_iterable#{len(calls)}", items=args[0])
                return r
            if q == "defer_":
                # defer(factory): the factory runs once per subscription (C04); look at what it builds
                self.deferred = True
                r = it_.call(args[0], [Opaque("scheduler", "sched")], {})
                self.deferred = False
                self.built_in_defer = bool(calls)
                return r
            return NOTSET
        it.call_hook = hook

        def genexp(it_, node, env):
            if len(node.generators) != 1 or node.generators[0].ifs:
                return NOTSET
            src = it_.eval(node.generators[0].iter, env)
            count = None
            if isinstance(src, RangeVal):
                count = src.stop if (src.start == 0 and src.step == 1) else None
                if count is None:
                    return NOTSET
            elif isinstance(src, Obj) and src.cls.name == "_Infinite":
                count = "forever"
            else:
                return NOTSET
            from .interp import Env
            e2 = Env(env, env.module)
            it_.assign(node.generators[0].target, it_.ctx.fresh("k", "int"), e2)
            item = it_.eval(node.elt, e2)
            return Opaque("iterable", "copies", item=item, count=count)
        it.genexp_hook = genexp

        def takewhile(it_, a, k):
            return Opaque("iterable", "takewhile", cond=a[0], base=a[1])
        it.externals["itertools.takewhile"] = Native("takewhile", takewhile)
        return calls

    def run_wrappers(self, ctx):
        it = self.setup(ctx)
        calls = self.capture(it)
        a, b, c = Opaque("source", "a"), Opaque("source", "b"), Opaque("source", "c")
        uid = "reactivex::"
        # reactivex.concat / catch / on_error_resume_next
        r = it.call(it.module_get("reactivex", "concat"), [a, b, c], {})
        ok = len(calls) == 1 and calls[0][0] == "concat" and calls[0][1] and tuple(calls[0][1][0]) == (a, b, c) and r is calls[0][3]
        self.rec(ctx, "reactivex/__init__.py::concat/hands-its-sources-in-order-to-concat_with_iterable", ok)
        calls.clear()
        r = it.call(it.module_get("reactivex", "catch"), [a, b], {})
        self.rec(ctx, "reactivex/__init__.py::catch/hands-its-sources-in-order-to-catch_with_iterable",
                 len(calls) == 1 and calls[0][0] == "catch" and tuple(calls[0][1][0]) == (a, b) and r is calls[0][3])
        calls.clear()
        r = it.call(it.module_get("reactivex", "on_error_resume_next"), [a, b], {})
        self.rec(ctx, "reactivex/__init__.py::on_error_resume_next/hands-its-sources-in-order-to-the-engine",
                 len(calls) == 1 and calls[0][0] == "resume" and tuple(calls[0][1]) == (a, b) and r is calls[0][3])
        # operators
        calls.clear()
        f = it.module_get("reactivex.operators._concat", "concat_")
        r = it.call(it.call(f, [b, c], {}), [a], {})
        self.rec(ctx, OPS + "_concat.py::concat_/is-concat-of-the-source-followed-by-the-others",
                 len(calls) == 1 and calls[0][0] == "concat" and tuple(calls[0][1][0]) == (a, b, c) and r is calls[0][3])
        calls.clear()
        f = it.module_get("reactivex.operators._startswith", "start_with_")
        x, y = ctx.fresh("x", "val"), ctx.fresh("y", "val")
        r = it.call(it.call(f, [x, y], {}), [a], {})
        ok = len(calls) == 1 and calls[0][0] == "concat" and len(calls[0][1][0]) == 2 and calls[0][1][0][1] is a
        first = calls[0][1][0][0] if ok else None
        self.rec(ctx, OPS + "_startswith.py::start_with_/is-concat-of-from_iterable(values)-then-the-source",
                 conj([same(first.attrs["items"][0], x), same(first.attrs["items"][1], y)]) if ok and isinstance(first, Opaque) and "items" in first.attrs
                 and len(first.attrs["items"]) == 2 else False)
        calls.clear()
        f = it.module_get("reactivex.operators._catch", "catch_")
        r = it.call(it.call(f, [b], {}), [a], {})
        self.rec(ctx, OPS + "_catch.py::catch_/with-a-fallback-observable-is-catch(source, fallback)",
                 len(calls) == 1 and calls[0][0] == "catch" and tuple(calls[0][1][0]) == (a, b) and r is calls[0][3])
        calls.clear()
        f = it.module_get("reactivex.operators._onerrorresumenext", "on_error_resume_next_")
        r = it.call(it.call(f, [b], {}), [a], {})
        self.rec(ctx, OPS + "_onerrorresumenext.py::on_error_resume_next_/is-the-engine-on-(source, second)",
                 len(calls) == 1 and calls[0][0] == "resume" and tuple(calls[0][1]) == (a, b) and r is calls[0][3])
        _ = uid

    def run_repeat(self, ctx, which):
        it = self.setup(ctx)
        calls = self.capture(it)
        a = Opaque("source", "a")
        n = ctx.fresh("n", "int")
        forever = ctx.choose(2, "count is None") == 1
        if which == "repeat":
            uid = OPS + "_repeat.py::repeat_"
            f = it.module_get("reactivex.operators._repeat", "repeat_")
            self.built_in_defer = False
            it.call(it.call(f, [None if forever else n], {}), [a], {})
            self.rec(ctx, uid + "/the-iterable-is-built-anew-for-every-subscription", self.built_in_defer,
                     detail="a generator of sources is one-shot: built once per application it would be empty for the second subscriber")
            engine = "concat"
        else:
            uid = OPS + "_retry.py::retry_"
            f = it.module_get("reactivex.operators._retry", "retry_")
            obs = it.call(it.call(f, [None if forever else n], {}), [a], {})
            sub = obs.fields.get("_subscribe") if isinstance(obs, Obj) else None
            if not isinstance(sub, Closure):
                raise Unsupported("retry_ did not return Observable(subscribe)")
            orig = self.w.call
            subscribed = []

            def wcall(it_, o, method, args, kwargs):
                if o.kind == "observable" and method == "subscribe":
                    subscribed.append((o, list(args), dict(kwargs)))
                    return Opaque("disposable", "inner")
                return orig(it_, o, method, args, kwargs)
            self.w.call = wcall
            r = it.call(sub, [self.observer, self.sched], {})
            self.rec(ctx, uid + "/subscribes-the-subscriber-to-the-engine's-observable-and-returns-that-subscription",
                     len(subscribed) == 1 and subscribed[0][1][0] is self.observer and isinstance(r, Opaque) and r.name == "inner")
            engine = "catch"
        ok = len(calls) == 1 and calls[0][0] == engine
        self.rec(ctx, uid + f"/builds-one-{engine}-engine", ok)
        if not ok:
            return
        xs = calls[0][1][0]
        ok = isinstance(xs, Opaque) and xs.name == "copies" and xs.attrs["item"] is a
        self.rec(ctx, uid + "/the-iterable-yields-the-source-itself", ok)
        if ok:
            if forever:
                self.rec(ctx, uid + "/count-None/forever", xs.attrs["count"] == "forever")
            else:
                self.rec(ctx, uid + "/count-n/exactly-n-times", xs.attrs["count"] != "forever" and same(xs.attrs["count"], n))

    def run_for_in(self, ctx):
        """for_in(values, mapper): one concat engine per subscription over the LAZY sequence mapper(v) for v in values - the user's
        mapper is not called when the sequence is built; the engine's k-th request calls it exactly once, with the k-th value (so a
        source is built only when the previous one has ended the continuing way, and a mapper that raises for a later value
        fails the output then, not at subscribe time)."""
        it = self.setup(ctx)
        calls = self.capture(it)
        mapper = Opaque("callback", "mapper")
        values = ListObj([ctx.fresh("v0", "val"), ctx.fresh("v1", "val")])
        mapped_by = []
        orig_call = self.w.call

        def wcall(it_, o, method, args, kwargs):
            if o is mapper and method == "__call__":
                mapped_by.append(list(args))
                return Opaque("source", f"mapper-result#{len(mapped_by)}")
            return orig_call(it_, o, method, args, kwargs)
        self.w.call = wcall
        # contract of the builtin map (assumed): a lazy one-shot iterator; nothing is called until an item is requested
        it.externals["builtins.map"] = Native("map", lambda it_, a, k: Opaque("iterable", "lazy-map", fn=a[0], base=a[1] if len(a) == 2 else None))
        import ast as _ast

        def lazy_genexp(it_, node, env):
            # (mapper(v) for v in values): as lazy as map(mapper, values) - nothing runs until an item is requested
            if len(node.generators) == 1 and not node.generators[0].ifs and isinstance(node.generators[0].target, _ast.Name):
                g = node.generators[0]
                e = node.elt
                if (isinstance(e, _ast.Call) and len(e.args) == 1 and not e.keywords and isinstance(e.args[0], _ast.Name) and e.args[0].id == g.target.id):
                    return Opaque("iterable", "lazy-map", fn=it_.eval(e.func, env), base=it_.eval(g.iter, env))
            return NOTSET
        it.genexp_hook = lazy_genexp
        uid = "reactivex/__init__.py::for_in"
        self.built_in_defer = False
        try:
            it.call(it.module_get("reactivex", "for_in"), [values, mapper], {})
        except (PyExc, Unsupported) as e:
            self.rec(ctx, uid + "/builds-one-concat-engine-per-subscription", False, detail=str(e))
            return
        ok = len(calls) == 1 and calls[0][0] == "concat" and self.built_in_defer
        self.rec(ctx, uid + "/builds-one-concat-engine-per-subscription", ok)
        if not ok:
            return
        xs = calls[0][1][0]
        self.rec(ctx, uid + "/the-mapper-is-not-called-while-the-sequence-of-sources-is-built", not mapped_by,
                 detail=f"mapper called {len(mapped_by)} time(s) before the engine asked for a source: a later source is built (and a failing "
                        f"mapper fails) before the earlier sources ran")
        self.rec(ctx, uid + "/the-sequence-is-the-lazy-image-of-the-values-under-the-mapper",
                 isinstance(xs, Opaque) and xs.name == "lazy-map" and xs.attrs.get("fn") is mapper and xs.attrs.get("base") is values,
                 detail=f"handed to concat_with_iterable: {xs}")

    def run_while(self, ctx):
        it = self.setup(ctx)
        calls = self.capture(it)
        a = Opaque("source", "a")
        cond = Opaque("callback", "condition")
        uid = OPS + "_whiledo.py::while_do_"
        f = it.module_get("reactivex.operators._whiledo", "while_do_")
        self.built_in_defer = False
        it.call(it.call(f, [cond], {}), [a], {})
        ok = len(calls) == 1 and calls[0][0] == "concat" and self.built_in_defer
        self.rec(ctx, uid + "/builds-one-concat-engine-per-subscription", ok)
        if ok:
            xs = calls[0][1][0]
            ok = (isinstance(xs, Opaque) and xs.name == "takewhile" and xs.attrs["cond"] is cond and isinstance(xs.attrs["base"], Opaque)
                  and xs.attrs["base"].name == "copies" and xs.attrs["base"].attrs["item"] is a and xs.attrs["base"].attrs["count"] == "forever")
            self.rec(ctx, uid + "/the-iterable-is-the-source-again-and-again-while-the-condition-holds", ok,
                     detail="itertools.takewhile(condition, (source for _ in infinite())): the condition is asked before each subscription")
        # do_while = source, then while_do
        calls.clear()
        uid = OPS + "_dowhile.py::do_while_"
        f = it.module_get("reactivex.operators._dowhile", "do_while_")
        piped = []
        orig = self.w.call

        def wcall(it_, o, method, args, kwargs):
            if o.kind == "source" and method == "pipe":
                r = o
                for op in args:
                    r = it_.call(op, [r], {})
                piped.append(list(args))
                return r
            return orig(it_, o, method, args, kwargs)
        self.w.call = wcall
        it.call(it.call(f, [cond], {}), [a], {})
        outer = [c for c in calls if c[0] == "concat" and isinstance(c[1][0], tuple)]
        inner = [c for c in calls if c[0] == "concat" and isinstance(c[1][0], Opaque)]
        ok = len(outer) == 1 and len(inner) == 1 and len(outer[0][1][0]) == 2 and outer[0][1][0][0] is a and outer[0][1][0][1] is inner[0][3]
        self.rec(ctx, uid + "/is-the-source-once-then-while_do-of-the-source", ok)

    def run(self):
        t0 = time.time()
        try:
            for name, (rel, mod, fn, _c) in ENGINES.items():
                node = self.loader.find(rel, fn)
                self.functions[f"{rel}::{fn}"] = self.loader.sha(rel, fn)
                for q, n in all_functions(node, fn):
                    self.functions[f"{rel}::{q}"] = self.loader.sha(rel, q)
            for rel, fn in ((OPS + "_repeat.py", "repeat_"), (OPS + "_retry.py", "retry_"), (OPS + "_whiledo.py", "while_do_"),
                            (OPS + "_dowhile.py", "do_while_"), (OPS + "_concat.py", "concat_"), (OPS + "_startswith.py", "start_with_"),
                            (OPS + "_catch.py", "catch_"), (OPS + "_onerrorresumenext.py", "on_error_resume_next_")):
                self.functions[f"{rel}::{fn}"] = self.loader.sha(rel, fn)
            scen = [lambda ctx, _w=w_: self.run_engine(ctx, _w) for w_ in ("concat", "catch", "resume")]
            scen += [self.run_wrappers, lambda ctx: self.run_repeat(ctx, "repeat"), lambda ctx: self.run_repeat(ctx, "retry"), self.run_while, self.run_for_in]
            for f in scen:
                for p in explore(f):
                    self.results.extend(p.results)
        except Unsupported as e:
            self.unsupported = str(e)
        except PyExc as e:
            self.unsupported = f"interpreter-level exception: {e.value!r} {getattr(e.value, 'fields', '')}"
        self.seconds = time.time() - t0
        return self


MUTANTS = {
    OBS + "concat.py": {
        "subscribes the next source without waiting": ("                d.disposable = current.subscribe(\n                    observer.on_next,\n                    observer.on_error,\n                    on_completed,\n                    scheduler=scheduler_,\n                )",
                                                       "                d.disposable = current.subscribe(\n                    observer.on_next,\n                    observer.on_error,\n                    on_completed,\n                    scheduler=scheduler_,\n                )\n                on_completed()"),
        "completion of a source reaches the subscriber": ("                    on_completed,\n                    scheduler=scheduler_,", "                    observer.on_completed,\n                    scheduler=scheduler_,"),
        "disposed flag ignored": ("            if is_disposed:\n                return\n\n            def on_completed", "            def on_completed"),
        "exhaustion is silent": ("            except StopIteration:\n                observer.on_completed()", "            except StopIteration:\n                pass"),
    },
    OBS + "catch.py": {
        "last error forgotten": ("                if last_exception:\n                    observer.on_error(last_exception)\n                else:\n                    observer.on_completed()",
                                 "                observer.on_completed()"),
        "continues on completion too": ("                    on_error,\n                    observer.on_completed,", "                    on_error,\n                    lambda: on_error(None),"),
    },
    OBS + "onerrorresumenext.py": {
        "errors reach the subscriber": ("observer.on_next, on_resume, on_resume, scheduler=scheduler", "observer.on_next, observer.on_error, on_resume, scheduler=scheduler"),
    },
    OPS + "_repeat.py": {
        "one run too many": ("        gen = range(repeat_count)", "        gen = range(repeat_count + 1)"),
        "built once": ("    return reactivex.defer(\n        lambda _: reactivex.concat_with_iterable((source for _ in gen))\n    )",
                       "    return reactivex.concat_with_iterable((source for _ in gen))"),
    },
    OPS + "_retry.py": {"retries on completion": ("return reactivex.catch_with_iterable(", "return reactivex.concat_with_iterable(")},
    OPS + "_whiledo.py": {"condition not consulted": ("            it = itertools.takewhile(condition, (obs for _ in infinite()))", "            it = (obs for _ in infinite())")},
    OPS + "_startswith.py": {"values after the source": ("    sequence = [start, source]", "    sequence = [source, start]")},
}


def must_fail():
    out = {"mutants": 0, "killed": 0, "survivors": []}
    for rel, ms in MUTANTS.items():
        src = Loader().load_file(rel).src
        for name, (a, b) in ms.items():
            if a not in src:
                continue
            ld = Loader()
            ld.overrides = {rel: src.replace(a, b, 1)}
            h = SeqHarness(ld).run()
            out["mutants"] += 1
            if h.unsupported or any(r.verdict == "refuted" for r in h.results):
                out["killed"] += 1
            else:
                out["survivors"].append(f"{rel}: {name}")
    return out


def run_unit(desc):
    import json
    import os
    h = SeqHarness().run()
    res = [r.as_dict() for r in h.results]
    rep = {
        "unit": f"{OBS}concat.py::sequential-composition",
        "kind": "function / closure contracts for sequential composition (engines: subscribe + tick + continuation; wrappers: which iterable)",
        "functions": h.functions,
        "results": res,
        "unsupported": h.unsupported,
        "spec_validation": [],
        "bounded": [],
        "replayable": {"runner": "seqrun.py", "module": "-", "name": "C10"},
    }
    if desc.get("tier") == "thorough" and not h.unsupported:
        mf = must_fail()
        rep["must_fail"] = dict(mf, unit=rep["unit"])
        if mf["mutants"] and mf["killed"] < mf["mutants"]:
            rep["crash"] = f"vacuity: must-fail mutants survived: {mf['survivors']}"
    if h.unsupported or desc.get("tier") == "thorough":
        from .report import native, VERIF, REPLAY_DIR
        r, err = native([os.path.join(VERIF, "rxvc", "seqrun.py"), "replay", "-", "C10",
                         json.dumps({"replay_path": os.path.join(REPLAY_DIR, "C10-standin.py"), "prop": "C10",
                                     "oid": rep["unit"] + "/bounded-standin"})], timeout=200)
        st = r if r is not None else {"found": [], "error": err, "cases": 0}
        rep["bounded"].append({"function": rep["unit"], "bound": "seqrun.py: 2-3 scripted cold sources (elements incl. None/0, completed / error / never) for concat, "
                               "catch, on_error_resume_next (function and operator forms), start_with; repeat / retry with n in 0..3; every "
                               "operator object subscribed twice", "cases": st.get("cases", 0), "mismatches": len(st.get("found", [])),
                               "role": "stand-in (out of subset)" if h.unsupported else "cross-check of the contracts against CPython"})
        if h.unsupported:
            rep["standin"] = st
        elif st.get("found") and all(x["verdict"] == "proved" for x in res):
            rep["crash"] = f"cross-check failed: contracts proved but the native run disagrees: {st['found'][0]}"
    return rep
