"""Native two-thread race runner for the combinators (replay of K7 violations; bounded stand-in).

Runs under /venv/bin/python against the real operators.  For one combinator, after a short single-threaded
prefix, thread A delivers one event of one source and is held INSIDE the downstream observer (or inside a
window handed downstream); thread B then delivers one event of another source (or fires the pending timer).
If B also gets inside the downstream observer while A is still there, the two threads overlap: the
violation, with the concrete schedule.  With correct locking B blocks on the operator's lock until A is
released.  BOUNDED (pairs of events after a few prefixes; B is given WAIT seconds to get in): finding nothing
proves nothing.

usage: racerun.py replay <ignored> <operator name> '<json opts>'      (search all pairs)
       racerun.py pair <operator name> '<json case>'                  (one pair; exit 1 on overlap)
"""
from __future__ import annotations

import json
import os
import sys
import threading

VERIF = os.path.dirname(os.path.dirname(os.path.abspath(__file__)))
REPO = os.environ.get("RXVC_REPO", "/repo")
if REPO not in sys.path:
    sys.path.insert(0, REPO)

WAIT = 0.15


class Timers:
    """a scheduler that only records relative timers; the harness fires them by hand"""

    def __init__(self):
        from reactivex.scheduler.scheduler import Scheduler
        from reactivex.disposable import Disposable
        import datetime
        outer = self
        self.pending = []

        class Manual(Scheduler):
            @property
            def now(self):
                return datetime.datetime.fromtimestamp(0, datetime.timezone.utc)

            def schedule(self, action, state=None):
                outer.pending.append((action, state))
                return Disposable()

            def schedule_relative(self, duetime, action, state=None):
                outer.pending.append((action, state))
                return Disposable()

            def schedule_absolute(self, duetime, action, state=None):
                outer.pending.append((action, state))
                return Disposable()

        self.scheduler = Manual()

    def fire(self):
        if self.pending:
            action, state = self.pending.pop(0)
            action(self.scheduler, state)


class Gate:
    """downstream observer that can hold one thread inside and sees who else gets in meanwhile"""

    def __init__(self):
        self.mu = threading.Lock()
        self.inside = {}  # thread name -> method
        self.log = []
        self.overlaps = []
        self.armed_for = None
        self.entered = threading.Event()
        self.release = threading.Event()

    def enter(self, method, where):
        me = threading.current_thread().name
        with self.mu:
            others = {t: m for t, m in self.inside.items() if t != me}
            if others:
                self.overlaps.append({"thread": me, "call": f"{where}.{method}", "while_inside": others})
            nested = me in self.inside
            if not nested:
                self.inside[me] = f"{where}.{method}"
            self.log.append((me, where, method))
        if me == self.armed_for and not nested:
            self.armed_for = None
            self.entered.set()
            self.release.wait(5)
        return nested

    def leave(self, nested):
        if not nested:
            with self.mu:
                self.inside.pop(threading.current_thread().name, None)

    def observer(self, where="observer", windows=False):
        from reactivex import Observable
        gate = self

        class Plain:
            """a plain object with the three methods (not the library's Observer: nothing is swallowed)"""

            def on_next(self, value):
                n = gate.enter("on_next", where)
                try:
                    if windows and isinstance(value, Observable):
                        value.subscribe(gate.observer(f"window{len(gate.log)}"))
                finally:
                    gate.leave(n)

            def on_error(self, error):
                gate.leave(gate.enter("on_error", where))

            def on_completed(self):
                gate.leave(gate.enter("on_completed", where))

        return Plain()


def raw_source():
    """a hot source WITHOUT a lock of its own in its notification path (a Subject would serialise some pairs by
    accident: its on_next/on_error take the same `source.lock` the operators use)"""
    from reactivex import Observable
    from reactivex.disposable import Disposable

    class Raw(Observable):
        def __init__(self):
            self.observers = []
            super().__init__(self._sub)

        def _sub(self, observer, scheduler=None):
            self.observers.append(observer)
            return Disposable(lambda: self.observers.remove(observer) if observer in self.observers else None)

        def on_next(self, v):
            for o in list(self.observers):
                o.on_next(v)

        def on_error(self, e):
            for o in list(self.observers):
                o.on_error(e)

        def on_completed(self):
            for o in list(self.observers):
                o.on_completed()

    return Raw()


def build(name):
    """-> (observable, sources, timers, prefixes, windows)"""
    import reactivex
    from reactivex import operators as ops
    Subject = raw_source
    t = Timers()
    if name in ("merge_all", "merge(max_concurrent)", "flat_map", "merge(*sources)"):
        outer, i0, i1 = Subject(), Subject(), Subject()
        if name == "merge_all":
            obs = outer.pipe(ops.merge_all())
            pre = [[("next", 0, i0), ("next", 0, i1)]]
        elif name == "merge(max_concurrent)":
            obs = outer.pipe(ops.merge(max_concurrent=2))
            pre = [[("next", 0, i0), ("next", 0, i1)]]
        elif name == "flat_map":
            inner = {0: i0, 1: i1}
            obs = outer.pipe(ops.flat_map(lambda k: inner[k]))
            pre = [[("next", 0, 0), ("next", 0, 1)]]
        else:
            obs = reactivex.merge(i0, i1)
            return obs, [Subject(), i0, i1], t, [[]], False
        return obs, [outer, i0, i1], t, pre, False
    a, b, c = Subject(), Subject(), Subject()
    if name == "zip":
        return reactivex.zip(a, b), [a, b], t, [[], [("next", 0, 1)], [("next", 1, 1)]], False
    if name == "combine_latest":
        return reactivex.combine_latest(a, b), [a, b], t, [[("next", 0, 1), ("next", 1, 2)], []], False
    if name == "with_latest_from":
        return a.pipe(ops.with_latest_from(b, c)), [a, b, c], t, [[("next", 1, 1), ("next", 2, 2)], []], False
    if name == "fork_join":
        return reactivex.fork_join(a, b, c), [a, b, c], t, [[("next", 0, 1), ("next", 1, 2), ("next", 2, 3), ("completed", 0, None)], []], False
    if name == "amb":
        return a.pipe(ops.amb(b)), [a, b], t, [[]], False
    if name == "window_with_time":
        return a.pipe(ops.window_with_time(1.0, scheduler=t.scheduler)), [a], t, [[], [("next", 0, 1)]], True
    if name == "window_with_time_or_count":
        return a.pipe(ops.window_with_time_or_count(1.0, 2, scheduler=t.scheduler)), [a], t, [[], [("next", 0, 1)]], True
    raise SystemExit(f"racerun: unknown operator {name}")


def deliver(sources, timers, ev):
    kind, i, v = ev
    if kind == "timer":
        timers.fire()
    elif kind == "next":
        sources[i].on_next(v)
    elif kind == "error":
        sources[i].on_error(RuntimeError(f"boom{i}"))
    else:
        sources[i].on_completed()


def events_of(name, sources, timers):
    evs = []
    for i in range(len(sources)):
        if name in ("merge_all", "merge(max_concurrent)", "flat_map") and i == 0:
            evs += [("error", 0, None), ("completed", 0, None)]
            continue
        if name == "merge(*sources)" and i == 0:
            continue
        evs += [("next", i, 7 + i), ("error", i, None), ("completed", i, None)]
    if name.startswith("window_with_time"):
        evs.append(("timer", -1, None))
    return evs


def show(ev):
    kind, i, v = ev
    return "timer" if kind == "timer" else f"source{i}.on_{kind}" + (f"({v!r})" if kind == "next" and not hasattr(v, "subscribe") else "()")


def run_pair(name, pre_idx, ea, eb):
    """-> overlap record or None"""
    obs, sources, timers, prefixes, windows = build(name)
    gate = Gate()
    obs.subscribe(gate.observer(windows=windows), scheduler=timers.scheduler if name.startswith("window_with_time") else None)
    for ev in prefixes[pre_idx]:
        deliver(sources, timers, ev)
    gate.overlaps.clear()
    gate.armed_for = "A"
    errs = []

    def run(ev):
        try:
            deliver(sources, timers, ev)
        except Exception as e:  # noqa: BLE001
            errs.append(repr(e))
    ta = threading.Thread(target=run, args=(ea,), name="A", daemon=True)
    ta.start()
    if not gate.entered.wait(WAIT * 2):
        gate.release.set()
        ta.join(2)
        return None  # A's event does not reach downstream in this state: nothing to hold
    tb = threading.Thread(target=run, args=(eb,), name="B", daemon=True)
    tb.start()
    tb.join(WAIT)
    found = list(gate.overlaps)
    gate.release.set()
    ta.join(2)
    tb.join(2)
    if found:
        return {"operator": name, "prefix": [show(e) for e in prefixes[pre_idx]], "A": show(ea), "B": show(eb), "overlap": found[0]}
    return None


def search(name, budget_s=60.0):
    import time
    t0 = time.time()
    obs, sources, timers, prefixes, _w = build(name)
    evs = events_of(name, sources, timers)
    cases = 0
    for p in range(len(prefixes)):
        for ia, ea in enumerate(evs):
            for ib, eb in enumerate(evs):
                if ea[1] == eb[1]:
                    continue  # the same source emits serially
                if time.time() - t0 > budget_s:
                    return cases, None
                cases += 1
                r = run_pair(name, p, ea, eb)
                if r:
                    r["case"] = {"prefix": p, "a": ia, "b": ib}
                    return cases, r
    return cases, None


REPLAY_TEMPLATE = '''#!/venv/bin/python
"""Replay of a violation of property {prop}: two source threads inside the downstream observer at once.
obligation: {oid}
operator: {name}
after the prefix {prefix}: thread A delivers {a} and is held inside the downstream observer;
thread B then delivers {b} and ALSO gets inside ({overlap}).
Exit 1 when the overlap reproduces on the tree under RXVC_REPO (default /repo)."""
import json, subprocess, sys
r = subprocess.run(["/venv/bin/python", "{verif}/rxvc/racerun.py", "pair", {name!r}, {case!r}])
sys.exit(r.returncode)
'''


def main(argv):
    mode = argv[0]
    if mode == "pair":
        name, case = argv[1], json.loads(argv[2])
        obs, sources, timers, prefixes, _w = build(name)
        evs = events_of(name, sources, timers)
        r = run_pair(name, case["prefix"], evs[case["a"]], evs[case["b"]])
        print(json.dumps({"overlap": r}, default=repr))
        sys.exit(1 if r else 0)
    name = argv[2]
    opts = json.loads(argv[3]) if len(argv) > 3 else {}
    cases, found = search(name, opts.get("budget_s", 60))
    res = {"cases": cases, "found": [found] if found else []}
    if found and "replay_path" in opts:
        os.makedirs(os.path.dirname(opts["replay_path"]), exist_ok=True)
        with open(opts["replay_path"], "w") as f:
            f.write(REPLAY_TEMPLATE.format(prop=opts.get("prop", "?"), oid=opts.get("oid", "?"), name=name, verif=VERIF,
                                           prefix=found["prefix"], a=found["A"], b=found["B"], overlap=found["overlap"],
                                           case=json.dumps(found["case"])))
        res["replay"] = opts["replay_path"]
    print(json.dumps(res, default=repr))


if __name__ == "__main__":
    main(sys.argv[1:])
