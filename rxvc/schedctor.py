"""C28 - C35: function contracts of the CONSTRUCTORS of the schedulers, on the real code.  The scheduler contracts (vts.py, tramp.py, evloop.py, aio.py)
start every method from an arbitrary state of the object's fields; that a NEW scheduler is in the state they call idle - nothing queued, not
running, not disposed, with queue / lock / condition objects of its own - is what these clauses add.

  VirtualTimeScheduler(t0)         clock = t0 (0 when omitted), not enabled, an empty queue and a (non-reentrant) lock of its own
  Trampoline()                     idle, an empty queue of its own, a lock of its own and a condition ON THAT LOCK
  TrampolineScheduler()            a new Trampoline of its own
  EventLoopScheduler(tf, e)        not disposed, no thread yet, an empty timer queue and ready list of its own, a condition over a lock of its
                                   own, exit_if_empty = e (False when omitted), the given thread factory (the default one when omitted)
  NewThreadScheduler(tf)           the given thread factory (the default one when omitted)
  AsyncIOScheduler(loop)           keeps exactly that loop
Nothing is called or started by any constructor."""
from __future__ import annotations

import time

import z3

from . import smt
from .interp import Interp, World, explore
from .loader import Loader
from .refine import Result
from .values import Closure, ListObj, Native, Obj, Opaque, PyExc, Unsupported

S = "reactivex/scheduler/"
CASES = [
    ("VirtualTimeScheduler", S + "virtualtimescheduler.py", "reactivex.scheduler.virtualtimescheduler"),
    ("Trampoline", S + "trampoline.py", "reactivex.scheduler.trampoline"),
    ("TrampolineScheduler", S + "trampolinescheduler.py", "reactivex.scheduler.trampolinescheduler"),
    ("EventLoopScheduler", S + "eventloopscheduler.py", "reactivex.scheduler.eventloopscheduler"),
    ("NewThreadScheduler", S + "newthreadscheduler.py", "reactivex.scheduler.newthreadscheduler"),
    ("AsyncIOScheduler", S + "eventloop/asyncioscheduler.py", "reactivex.scheduler.eventloop.asyncioscheduler"),
]


class SCWorld(World):
    def __init__(self):
        super().__init__()
        self.log = []

    def truthy(self, it, o):
        return True

    def call(self, it, o, method, args, kwargs):
        if o.kind in ("callback", "loop", "thread"):
            self.log.append((o, method))
            return None
        if o.kind in ("lock", "logger", "condition"):
            return None
        return super().call(it, o, method, args, kwargs)


class SchedCtorHarness:
    def __init__(self, loader=None):
        self.loader = loader or Loader()
        self.results = []
        self.unsupported = None
        self.functions = {}

    def rec(self, ctx, oid, goal, detail=""):
        t0 = time.time()
        if isinstance(goal, bool):
            goal = z3.BoolVal(goal)
        v, m, b = smt.prove(ctx.pc, goal)
        ctx.results.append(Result(oid, v, b, smt.model_to_dict(m), list(ctx.branch_log), detail, time.time() - t0, "post"))

    def run_case(self, ctx, name, rel, modname):
        uid = f"{rel}::{name}.__init__"
        w = SCWorld()
        it = Interp(self.loader, ctx, w)
        made = {"lock": [], "cond": [], "pq": [], "deque": []}

        def mk(kind, cls):
            def f(it_, a, k):
                o = Opaque(cls, f"{kind}#{len(made[kind]) + 1}", args=list(a), reentrant=False)
                made[kind].append(o)
                return o
            return f
        it.externals["threading.Lock"] = Native("Lock", mk("lock", "lock"))
        it.externals["threading.RLock"] = Native("RLock", lambda it_, a, k: made["lock"].append(Opaque("lock", "rlock", reentrant=True)) or made["lock"][-1])
        it.externals["threading.Condition"] = Native("Condition", mk("cond", "condition"))
        it.externals["collections.deque"] = Native("deque", lambda it_, a, k: made["deque"].append(ListObj([])) or made["deque"][-1])

        def hook(it_, f, args, kwargs):
            if getattr(f, "name", None) == "PriorityQueue" and hasattr(f, "node"):
                q = Opaque("pq", f"queue#{len(made['pq']) + 1}")
                made["pq"].append(q)
                return q
            return __import__("rxvc.interp", fromlist=["NOTSET"]).NOTSET
        it.call_hook = hook
        cls = it.module_get(modname, name)
        tf = Opaque("callback", "thread_factory")
        loop = Opaque("loop", "loop")
        form = 0
        if name == "VirtualTimeScheduler":
            form = ctx.choose(2, "an initial clock is given")
            t0v = ctx.fresh("t0", "int")
            args = [t0v] if form else []
        elif name == "EventLoopScheduler":
            form = ctx.choose(3, "no arguments / a thread factory / a thread factory and exit_if_empty")
            args = [] if form == 0 else ([tf] if form == 1 else [tf, True])
        elif name == "NewThreadScheduler":
            form = ctx.choose(2, "a thread factory is given")
            args = [tf] if form else []
        elif name == "AsyncIOScheduler":
            args = [loop]
        else:
            args = []
        try:
            o = it.call(cls, args, {})
        except PyExc as e:
            self.rec(ctx, uid + "/no-exception", False, detail=repr(e.value))
            return
        ok = isinstance(o, Obj)
        self.rec(ctx, uid + "/builds-an-object-and-calls-or-starts-nothing", ok and not w.log, detail=f"{w.log}")
        if not ok:
            return
        fl = o.fields
        default_tf = it.module_get("reactivex.internal.concurrency", "default_thread_factory")
        if name == "VirtualTimeScheduler":
            clk = fl.get("_clock")
            self.rec(ctx, uid + "/the-clock-starts-at-the-given-time-or-zero", (clk is t0v) if form else (clk == 0 and not isinstance(clk, bool)), detail=f"{clk!r}")
            self.rec(ctx, uid + "/starts-idle-with-an-empty-queue-and-a-lock-of-its-own", fl.get("_is_enabled") is False and len(made["pq"]) == 1 and fl.get("_queue") is made["pq"][0]
                     and len(made["lock"]) == 1 and fl.get("_lock") is made["lock"][0] and made["lock"][0].attrs.get("reentrant") is False, detail=f"{ {k: v for k, v in fl.items()} }")
        elif name == "Trampoline":
            self.rec(ctx, uid + "/starts-idle-with-an-empty-queue-of-its-own", fl.get("_idle") is True and len(made["pq"]) == 1 and fl.get("_queue") is made["pq"][0])
            self.rec(ctx, uid + "/its-condition-is-over-its-own-lock", len(made["lock"]) == 1 and fl.get("_lock") is made["lock"][0] and len(made["cond"]) == 1
                     and fl.get("_condition") is made["cond"][0] and made["cond"][0].attrs.get("args") == [made["lock"][0]],
                     detail="run() waits on the condition holding `_lock`: a condition over another lock would wait without releasing it")
        elif name == "TrampolineScheduler":
            t = fl.get("_tramp")
            self.rec(ctx, uid + "/has-a-new-trampoline-of-its-own", isinstance(t, Obj) and t.cls.name == "Trampoline" and t.fields.get("_idle") is True)
        elif name == "EventLoopScheduler":
            self.rec(ctx, uid + "/starts-live-without-a-thread", fl.get("_is_disposed") is False and "_thread" in fl and fl.get("_thread") is None)
            self.rec(ctx, uid + "/empty-timer-queue-and-ready-list-of-its-own", len(made["pq"]) == 1 and fl.get("_queue") is made["pq"][0] and len(made["deque"]) == 1
                     and fl.get("_ready_list") is made["deque"][0] and not made["deque"][0].items)
            self.rec(ctx, uid + "/a-condition-over-a-lock-of-its-own", len(made["cond"]) == 1 and fl.get("_condition") is made["cond"][0] and len(made["lock"]) == 1
                     and made["cond"][0].attrs.get("args") == [made["lock"][0]])
            self.rec(ctx, uid + "/exit_if_empty-and-thread-factory-as-given-or-their-defaults", fl.get("_exit_if_empty") is (form == 2)
                     and ((fl.get("_thread_factory") is tf) if form else (fl.get("_thread_factory") is default_tf)), detail=f"{fl.get('_exit_if_empty')!r} {fl.get('_thread_factory')!r}")
        elif name == "NewThreadScheduler":
            self.rec(ctx, uid + "/the-thread-factory-as-given-or-the-default-one", (fl.get("thread_factory") is tf) if form else (fl.get("thread_factory") is default_tf))
        elif name == "AsyncIOScheduler":
            self.rec(ctx, uid + "/keeps-exactly-the-given-loop", fl.get("_loop") is loop)

    def run(self):
        t0 = time.time()
        try:
            for (name, rel, modname) in CASES:
                self.functions[f"{rel}::{name}.__init__"] = self.loader.sha(rel, name + ".__init__")
                for p in explore(lambda ctx, _c=(name, rel, modname): self.run_case(ctx, *_c)):
                    self.results.extend(p.results)
        except Unsupported as e:
            self.unsupported = str(e)
        except PyExc as e:
            self.unsupported = f"interpreter-level exception: {e.value!r} {getattr(e.value, 'fields', '')}"
        self.seconds = time.time() - t0
        return self


MUTANTS = [
    (S + "trampoline.py", "        self._condition: Condition = Condition(self._lock)", "        self._condition: Condition = Condition(Lock())", "the trampoline's condition is over another lock"),
    (S + "virtualtimescheduler.py", "        self._is_enabled = False\n", "        self._is_enabled = True\n", "a new virtual-time scheduler claims to be running"),
    (S + "eventloopscheduler.py", "        self._exit_if_empty = exit_if_empty", "        self._exit_if_empty = True", "every event loop scheduler exits when empty"),
    (S + "newthreadscheduler.py", "            thread_factory or default_thread_factory\n        )\n\n    def schedule(", "            default_thread_factory\n        )\n\n    def schedule(", "the given thread factory is ignored"),
]


def must_fail():
    out = {"mutants": 0, "killed": 0, "survivors": []}
    for (rel, a, b, name) in MUTANTS:
        src = Loader().load_file(rel).src
        if a not in src:
            continue
        ld = Loader()
        ld.overrides = {rel: src.replace(a, b, 1)}
        h = SchedCtorHarness(ld).run()
        out["mutants"] += 1
        if h.unsupported or any(r.verdict == "refuted" for r in h.results):
            out["killed"] += 1
        else:
            out["survivors"].append(name)
    return out


def run_unit(desc):
    h = SchedCtorHarness().run()
    prop = desc.get("prop", "C28")
    runner = {"C28": ("vtsrun.py", "C28"), "C29": ("vtsrun.py", "C29"), "C30": ("tramprun.py", "C30"), "C31": ("evrun.py", "C31"), "C34": ("evrun.py", "C34"),
              "C35": ("periodicrun.py", "C35"), "C33": ("aiorun.py", "C33")}.get(prop, ("vtsrun.py", "C28"))
    rep = {"unit": S + "*::__init__ (constructors of the schedulers)", "kind": "function contracts of the constructors (a new scheduler is idle, with state of its own)",
           "functions": h.functions, "results": [r.as_dict() for r in h.results], "unsupported": h.unsupported, "spec_validation": [], "bounded": [],
           "replayable": {"runner": runner[0], "module": "-", "name": runner[1]}}
    if desc.get("tier") == "thorough" and not h.unsupported:
        mf = must_fail()
        rep["must_fail"] = dict(mf, unit=rep["unit"])
        if mf["mutants"] and mf["killed"] < mf["mutants"]:
            rep["crash"] = f"vacuity: must-fail mutants survived: {mf['survivors']}"
    return rep


_ = Closure
