"""C11 / C12 (wiring side): function contracts for the operators that are COMPOSITIONS over merge_all_ / merge_(max_concurrent) /
switch_latest_ (whose handlers are under K1 contract): the statement of the property about flat_map, flat_map_indexed, concat_map,
reactivex.merge, switch_map, switch_map_indexed and flat_map_latest follows from the K1 contracts once each of them IS the pipeline
the documentation says - nothing in between, nothing after, the user's function handed on unchanged.

  _flat_map_internal(source, mapper | mapper_indexed)   source | map_indexed(P) | merge_all()  where P(x, i) calls the user's
                                  function exactly once - mapper(x) resp. mapper_indexed(x, i) - and returns: the very observable
                                  it returned; from_future(r) for a future r; from_(r) for anything else; an exception of the
                                  user's function propagates unchanged (map_indexed's contract turns it into on_error, C09)
  flat_map_(source, m)            _flat_map_internal with mapper = m if m is callable, else the constant function x -> m
  flat_map_indexed_(source, m)    the same with mapper_indexed = m if m is callable, else the constant function
  flat_map_latest_(source, m)     source | map(m) | switch_latest()                     (exactly these two stages)
  ops.switch_map(p)               map(p) | switch_latest()          ops.switch_map_indexed(p)   map_indexed(p) | switch_latest()
  ops.concat_map(p)               map(p) | merge(max_concurrent=1)  (no further sources)
  ops.merge(*xs, max_concurrent=n)   is _merge.merge_(*xs, max_concurrent=n)     ops.merge_all() / switch_latest() / flat_map(m) /
                                  flat_map_indexed(m) / flat_map_latest(m) are their implementation functions with the same arguments
  observable.merge.merge_(*xs)    from_iterable(xs) | merge_all()   (the very sources, in the order given)
Assumed: alias(name, doc, f) is f under another name (a types.FunctionType copy, stdlib).
Opaque: sources, user functions (uninterpreted, may raise), futures.  The stages are used by contract (an application is recorded,
not executed); `compose` / `pipe` / curry_flip are the real code.
"""
from __future__ import annotations

import time

import z3

from . import smt
from .grouping import GroupingHarness, GWorld, _applied
from .interp import NOTSET, explore
from .loader import Loader, all_functions
from .values import BoundMethod, Closure, Native, Opaque, PyExc, Unsupported

FFILE = "reactivex/operators/_flatmap.py"
MFILE = "reactivex/observable/merge.py"
OFILE = "reactivex/operators/__init__.py"

STAGES = ("map_", "map_indexed_", "merge_all_", "merge_", "switch_latest_", "flat_map_", "flat_map_indexed_", "flat_map_latest_")


class FWorld(GWorld):
    def __init__(self):
        super().__init__()
        self.result_kind = "observable"

    def isinstance(self, it, o, cls):
        n = getattr(cls, "name", None)
        if o.kind in ("source", "applied"):
            return n in ("ObservableBase", "Observable")
        if o.kind in ("future", "iterable"):
            return False
        return super().isinstance(it, o, cls)

    def call(self, it, o, method, args, kwargs):
        if o.kind == "callback" and method == "__call__":
            self.log.append(("user-call", o, list(args), dict(kwargs)))
            if getattr(self, "raises", None) is not None:
                raise PyExc(self.raises)
            k = self.result_kind
            r = Opaque("source" if k == "observable" else k, f"result-of-{o.name}#{len(self.log)}")
            self.log.append(("user-result", r))
            return r
        return super().call(it, o, method, args, kwargs)


class FlatHarness(GroupingHarness):
    def setup(self, ctx, hook=None):
        it = super().setup(ctx, hook)
        w = FWorld()
        w.log = self.w.log
        self.w = w
        it.world = w
        return it

    def stage_hook(self, exclude=()):
        names = set(STAGES) - set(exclude)

        def hook(it_, f, args, kwargs):
            fn = f.func if isinstance(f, BoundMethod) else f
            q = getattr(fn, "qualname", None) if isinstance(fn, Closure) else None
            if q == "merge_" and getattr(getattr(fn, "module", None), "name", "") != "reactivex.operators._merge":
                return NOTSET  # the n-ary factory reactivex.observable.merge.merge_ is a function under contract here
            if q in names:
                return _applied(fn, q, args, kwargs)
            if q == "alias":
                # assumed contract of reactivex.internal.utils.alias (types.FunctionType copy of a function, stdlib): from_ IS
                # from_iterable under another name
                return args[2] if len(args) > 2 else kwargs.get("fun")
            if q == "is_future":
                a = args[0]
                return isinstance(a, Opaque) and a.kind == "future"
            if q == "from_future_":
                return Opaque("applied", "from_future_", op="from_future_", of=args[0], args=[], kwargs={})
            if q == "from_iterable_":
                return Opaque("applied", "from_iterable_", op="from_iterable_", of=args[0], args=list(args[1:]), kwargs=dict(kwargs))
            return NOTSET
        return hook

    @staticmethod
    def chain_of(res):
        chain, cur = [], res
        while isinstance(cur, Opaque) and cur.kind == "applied" and cur.attrs["op"] not in ("from_iterable_", "from_future_"):
            chain.append(cur)
            cur = cur.attrs["of"]
        chain.reverse()
        return cur, chain

    def all_args(self, st, names):
        a = list(st.attrs["args"])
        kw = st.attrs["kwargs"]
        for n in names[len(a):]:
            a.append(kw.get(n))
        return a

    # -- the projection of _flat_map_internal --------------------------------------------------------------------------
    def check_projection(self, ctx, it, uid, P, user, indexed, constant=None):
        w = self.w
        x = ctx.fresh("x", "val")
        i = ctx.fresh("i", "int")
        kinds = ("observable", "future", "iterable")
        k = kinds[ctx.choose(3, "what the user's function returns")] if constant is None else "observable"
        w.result_kind = k
        n0 = len(w.log)
        if constant is None and ctx.choose(2, "the user's function raises") == 1:
            from .refine import fresh_exc

            w.raises = fresh_exc(ctx, "user_error")
            try:
                it.call(P, [x, i], {})
                self.rec(ctx, uid + "/projection/an-exception-of-the-user-function-propagates-unchanged", False, detail="swallowed")
            except PyExc as e:
                self.rec(ctx, uid + "/projection/an-exception-of-the-user-function-propagates-unchanged", e.value is w.raises, detail=f"{e.value}")
            finally:
                w.raises = None
            return
        try:
            r = it.call(P, [x, i], {})
        except (PyExc, Unsupported) as e:
            self.rec(ctx, uid + "/projection/calls-the-user-function-and-returns-an-observable", False,
                     detail=f"{e} {getattr(getattr(e, 'value', None), 'fields', '')} [{k}]")
            return
        calls = [e for e in w.log[n0:] if e[0] == "user-call"]
        results = [e[1] for e in w.log[n0:] if e[0] == "user-result"]
        if constant is not None:
            self.rec(ctx, uid + "/projection/a-mapper-that-is-not-callable-is-the-inner-sequence-of-every-element", not calls and r is constant,
                     detail=f"calls: {len(calls)}, result: {r}")
            return
        want = [x, i] if indexed else [x]
        ok_call = len(calls) == 1 and calls[0][1] is user and len(calls[0][2]) == len(want) and all(a is b for a, b in zip(calls[0][2], want)) and not calls[0][3]
        self.rec(ctx, uid + f"/projection/calls-the-user-function-exactly-once-with-{'element-and-index' if indexed else 'the-element'}", ok_call,
                 detail=f"calls: {[(c[1].name, c[2]) for c in calls]}")
        if not ok_call or not results:
            return
        ur = results[0]
        if k == "observable":
            self.rec(ctx, uid + "/projection/[observable]-the-very-observable-the-user-function-returned-is-the-inner-sequence", r is ur, detail=f"{r}")
        elif k == "future":
            self.rec(ctx, uid + "/projection/[future]-a-future-becomes-from_future-of-it",
                     isinstance(r, Opaque) and r.kind == "applied" and r.attrs["op"] == "from_future_" and r.attrs["of"] is ur, detail=f"{r}")
        else:
            self.rec(ctx, uid + "/projection/[iterable]-anything-else-becomes-from_-of-it",
                     isinstance(r, Opaque) and r.kind == "applied" and r.attrs["op"] == "from_iterable_" and r.attrs["of"] is ur
                     and all(a is None for a in r.attrs["args"]) and all(v is None for v in r.attrs["kwargs"].values()), detail=f"{r}")

    def run_flat_map(self, ctx, fname):
        uid = f"{FFILE}::{fname}"
        it = self.setup(ctx, self.stage_hook(exclude=(fname,)))
        src = Opaque("source", "source")
        indexed = fname == "flat_map_indexed_"
        is_callable = ctx.choose(2, "the mapper is a function") == 0
        user = Opaque("callback", "mapper") if is_callable else Opaque("source", "constant inner sequence")
        f = it.module_get("reactivex.operators._flatmap", fname)
        res = it.call(it.call(f, [user], {}), [src], {})
        start, chain = self.chain_of(res)
        ops_ = [c.attrs["op"] for c in chain]
        self.rec(ctx, uid + "/is-the-source-then-map_indexed(projection)-then-merge_all", start is src and ops_ == ["map_indexed_", "merge_all_"],
                 detail=f"pipeline: {ops_} over {start}")
        if not (start is src and ops_ == ["map_indexed_", "merge_all_"]):
            return
        self.rec(ctx, uid + "/merge_all-takes-no-arguments", not chain[1].attrs["args"] and not chain[1].attrs["kwargs"])
        pa = self.all_args(chain[0], ["mapper_indexed"])
        if len(pa) != 1 or pa[0] is None:
            self.rec(ctx, uid + "/projection/is-given-to-map_indexed", False, detail=f"{pa}")
            return
        self.check_projection(ctx, it, uid, pa[0], user, indexed and is_callable, constant=None if is_callable else user)

    def run_two_stage(self, ctx, which):
        """the pure two-stage compositions"""
        it = self.setup(ctx, self.stage_hook(exclude=(which,)))
        src = Opaque("source", "source")
        user = Opaque("callback", "project")
        table = {
            "flat_map_latest_": (FFILE, "reactivex.operators._flatmap", ["map_", "switch_latest_"], "mapper"),
            "switch_map": (OFILE, "reactivex.operators", ["map_", "switch_latest_"], "mapper"),
            "switch_map_indexed": (OFILE, "reactivex.operators", ["map_indexed_", "switch_latest_"], "mapper_indexed"),
            "concat_map": (OFILE, "reactivex.operators", ["map_", "merge_"], "mapper"),
        }
        rel, modname, want, pname = table[which]
        uid = f"{rel}::{which}"
        f = it.module_get(modname, which)
        res = it.call(it.call(f, [user], {}), [src], {})
        start, chain = self.chain_of(res)
        ops_ = [c.attrs["op"] for c in chain]
        ok = start is src and ops_ == want
        self.rec(ctx, uid + f"/is-exactly-{want[0]}(project)-then-{want[1]}", ok, detail=f"pipeline: {ops_} over {start}")
        if not ok:
            return
        pa = self.all_args(chain[0], [pname])
        self.rec(ctx, uid + "/the-user-function-is-handed-on-unchanged", len(pa) == 1 and pa[0] is user, detail=f"{pa}")
        a2, k2 = chain[1].attrs["args"], chain[1].attrs["kwargs"]
        if which == "concat_map":
            mc = k2.get("max_concurrent")
            one = mc == 1 or (hasattr(mc, "t") and z3.is_true(z3.simplify(mc.t == 1)))
            self.rec(ctx, uid + "/merges-with-max_concurrent-1-and-no-further-sources", not a2 and one and set(k2) <= {"max_concurrent"}, detail=f"{a2} {k2}")
        else:
            self.rec(ctx, uid + "/switch_latest-takes-no-arguments", not a2 and not k2)

    def run_forwarders(self, ctx):
        """ops.merge / merge_all / switch_latest / flat_map / flat_map_indexed / flat_map_latest and reactivex.merge are their
        implementation functions with the very arguments"""
        it = self.setup(ctx, self.stage_hook())
        a, b = Opaque("source", "a"), Opaque("source", "b")
        src = Opaque("source", "source")
        user = Opaque("callback", "mapper")
        n = ctx.fresh("n", "int")
        uid = f"{OFILE}::"

        def applied(fname, args, kwargs):
            op = it.call(it.module_get("reactivex.operators", fname), args, kwargs)
            res = it.call(op, [src], {})
            start, chain = self.chain_of(res)
            return start, chain
        start, chain = applied("merge", [a, b], {"max_concurrent": n})
        ok = start is src and len(chain) == 1 and chain[0].attrs["op"] == "merge_"
        if ok:
            aa, kk = chain[0].attrs["args"], chain[0].attrs["kwargs"]
            ok = len(aa) == 2 and aa[0] is a and aa[1] is b and kk.get("max_concurrent") is n and set(kk) == {"max_concurrent"}
        self.rec(ctx, uid + "merge/is-merge_-with-the-very-sources-and-max_concurrent", ok)
        for fname, impl in (("merge_all", "merge_all_"), ("switch_latest", "switch_latest_")):
            start, chain = applied(fname, [], {})
            self.rec(ctx, uid + f"{fname}/is-{impl}-without-arguments",
                     start is src and len(chain) == 1 and chain[0].attrs["op"] == impl and not chain[0].attrs["args"] and not chain[0].attrs["kwargs"])
        for fname, impl, pn in (("flat_map", "flat_map_", "mapper"), ("flat_map_indexed", "flat_map_indexed_", "mapper_indexed"), ("flat_map_latest", "flat_map_latest_", "mapper")):
            start, chain = applied(fname, [user], {})
            ok = start is src and len(chain) == 1 and chain[0].attrs["op"] == impl
            if ok:
                pa = self.all_args(chain[0], [pn])
                ok = len(pa) == 1 and pa[0] is user
            self.rec(ctx, uid + f"{fname}/is-{impl}-with-the-very-function", ok)

    def run_merge_factory(self, ctx):
        uid = f"{MFILE}::merge_"
        it = self.setup(ctx, self.stage_hook())
        n = 1 + ctx.choose(3, "number of sources")
        srcs = [Opaque("source", f"s{i}") for i in range(n)]
        f = it.module_get("reactivex.observable.merge", "merge_")
        res = it.call(f, srcs, {})
        start, chain = self.chain_of(res)
        ops_ = [c.attrs["op"] for c in chain]
        ok = ops_ == ["merge_all_"] and isinstance(start, Opaque) and start.kind == "applied" and start.attrs["op"] == "from_iterable_"
        self.rec(ctx, uid + "/is-from_iterable(sources)-then-merge_all", ok, detail=f"{ops_} over {start}")
        if not ok:
            return
        given = start.attrs["of"]
        items = list(given) if isinstance(given, tuple) else (list(given.items) if hasattr(given, "items") and isinstance(getattr(given, "items"), list) else None)
        self.rec(ctx, uid + "/the-outer-sequence-is-exactly-the-given-sources-in-order",
                 items is not None and len(items) == n and all(x is y for x, y in zip(items, srcs))
                 and all(a is None for a in start.attrs["args"]) and all(v is None for v in start.attrs["kwargs"].values()),
                 detail=f"{given}")
        self.rec(ctx, uid + "/merge_all-takes-no-arguments", not chain[0].attrs["args"] and not chain[0].attrs["kwargs"])
        # the package-level function is this one
        g = it.module_get("reactivex", "merge")
        res2 = it.call(g, srcs, {})
        start2, chain2 = self.chain_of(res2)
        given2 = start2.attrs.get("of") if isinstance(start2, Opaque) and start2.kind == "applied" else None
        items2 = list(given2) if isinstance(given2, tuple) else (list(given2.items) if hasattr(given2, "items") and isinstance(getattr(given2, "items"), list) else None)
        self.rec(ctx, "reactivex/__init__.py::merge/is-merge_-of-the-very-sources",
                 [c.attrs["op"] for c in chain2] == ["merge_all_"] and items2 is not None and len(items2) == n and all(x is y for x, y in zip(items2, srcs)))

    def run(self, which):
        t0 = time.time()
        try:
            if which == "C11":
                for rel, fn in ((FFILE, "_flat_map_internal"), (FFILE, "flat_map_"), (FFILE, "flat_map_indexed_"), (MFILE, "merge_"),
                                (OFILE, "concat_map"), (OFILE, "merge"), (OFILE, "merge_all"), (OFILE, "flat_map"), (OFILE, "flat_map_indexed")):
                    self.note(rel, fn)
                todo = [lambda c: self.run_flat_map(c, "flat_map_"), lambda c: self.run_flat_map(c, "flat_map_indexed_"),
                        lambda c: self.run_two_stage(c, "concat_map"), self.run_forwarders, self.run_merge_factory]
            else:
                for rel, fn in ((FFILE, "flat_map_latest_"), (OFILE, "switch_map"), (OFILE, "switch_map_indexed"), (OFILE, "switch_latest"), (OFILE, "flat_map_latest")):
                    self.note(rel, fn)
                todo = [lambda c: self.run_two_stage(c, "flat_map_latest_"), lambda c: self.run_two_stage(c, "switch_map"),
                        lambda c: self.run_two_stage(c, "switch_map_indexed"), self.run_forwarders]
            for f in todo:
                for p in explore(f):
                    self.results.extend(p.results)
        except Unsupported as e:
            self.unsupported = str(e)
        except PyExc as e:
            self.unsupported = f"interpreter-level exception: {e.value!r} {getattr(e.value, 'fields', '')}"
        self.seconds = time.time() - t0
        return self


MUTANTS = {
    FFILE: {
        "an extra stage before the switch": ("        ops.map(mapper),\n        ops.switch_latest(),", "        ops.map(mapper),\n        ops.distinct_until_changed(),\n        ops.switch_latest(),"),
        "index dropped": ("else mapper_indexed(x, i)", "else mapper_indexed(x, 0)"),
        "observable results re-wrapped": ("            result = cast(Observable[Any], mapper_result)", "            result = from_(mapper_result)"),
        "merge_all replaced": ("        ops.merge_all(),\n    )", "        ops.merge(max_concurrent=1),\n    )"),
    },
    MFILE: {
        "sources reversed": ("reactivex.from_iterable(sources)", "reactivex.from_iterable(sources[::-1])"),
    },
}


def must_fail(which):
    out = {"mutants": 0, "killed": 0, "survivors": []}
    for rel, ms in MUTANTS.items():
        src = Loader().load_file(rel).src
        for name, (a, b) in ms.items():
            if a not in src:
                continue
            for w in ("C11", "C12"):
                ld = Loader()
                ld.overrides = {rel: src.replace(a, b, 1)}
                h = FlatHarness(ld).run(w)
                if h.unsupported or any(r.verdict == "refuted" for r in h.results):
                    break
            else:
                out["mutants"] += 1
                out["survivors"].append(f"{rel}: {name}")
                continue
            out["mutants"] += 1
            out["killed"] += 1
    _ = which
    return out


def run_unit(desc):
    which = "C12" if desc["prop"] == "C12" else "C11"
    h = FlatHarness().run(which)
    rep = {"unit": "composition-wiring/" + which, "kind": "function contracts for the compositions over merge_all / merge(max_concurrent) / switch_latest",
           "functions": h.functions, "results": [r.as_dict() for r in h.results], "unsupported": h.unsupported, "spec_validation": [], "bounded": [],
           "replayable": {"runner": "flatrun.py", "module": "-", "name": which, "opts": {"max_len": 3}}}
    if h.unsupported or desc.get("tier") == "thorough":
        import json
        import os

        from .report import REPLAY_DIR, VERIF, native
        r, err = native([os.path.join(VERIF, "rxvc", "flatrun.py"), "replay", "-", which,
                         json.dumps({"max_len": 2 if desc.get("tier") != "thorough" else 3, "replay_path": os.path.join(REPLAY_DIR, f"{which}-standin-wiring.py"),
                                     "prop": which, "oid": rep["unit"] + "/bounded-standin"})], timeout=600)
        st = r if r is not None else {"found": [], "error": err, "cases": 0}
        rep["standin"] = st
        rep["bounded"].append({"function": rep["unit"], "bound": "flatrun.py: outer timelines of <= %d elements over a pool of 5 inner sequences (cold, synchronous, "
                               "failing, never-ending; the same one twice) x gaps 10 / 20 x completion / error / open end" % (2 if desc.get("tier") != "thorough" else 3),
                               "cases": st.get("cases", 0), "mismatches": len(st.get("found", [])),
                               "role": "stand-in (out of subset)" if h.unsupported else "cross-check of the wiring contracts against CPython"})
        if r is None:
            rep["crash"] = f"native runner flatrun.py failed: {err}"
        elif not h.unsupported and st.get("found") and all(x.verdict == "proved" for x in h.results):
            rep["crash"] = f"cross-check failed: the wiring contracts are proved but the native run disagrees: {st['found'][0]}"
    if desc.get("tier") == "thorough" and not h.unsupported:
        mf = must_fail(which)
        rep["must_fail"] = dict(mf, unit=rep["unit"])
        if mf["mutants"] and mf["killed"] < mf["mutants"]:
            rep["crash"] = f"vacuity: must-fail mutants survived: {mf['survivors']}"
    return rep


_ = (smt, Native, all_functions)
