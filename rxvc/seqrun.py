"""Native runner for sequential composition (replay of C10 violations; bounded).

Runs under /venv/bin/python.  Sources are instrumented cold observables with a scripted timeline (elements then
completed / error / never) that log every subscription; a global event log records "subscribe k", "terminal k",
"unsubscribe k".  Oracle = the property: sources are subscribed strictly one after another, the next only after the
previous one terminated the way the operator continues on; the output is the concatenation of the consumed sources'
elements with the terminal the operator prescribes; repeat(n) subscribes exactly n times when every run completes,
retry(n) at most n times; a second subscription to the same operator object behaves like the first.  BOUNDED.

usage: seqrun.py replay - C10 '<json opts>'
       seqrun.py case '<json case>'
"""
from __future__ import annotations

import itertools
import json
import os
import sys

VERIF = os.path.dirname(os.path.dirname(os.path.abspath(__file__)))
REPO = os.environ.get("RXVC_REPO", "/repo")
if REPO not in sys.path:
    sys.path.insert(0, REPO)


class Boom(Exception):
    pass


def cold(k, script, log):
    """script: (elements, terminal) with terminal in C / E / N(ever)"""
    import reactivex as rx
    from reactivex.disposable import Disposable

    def subscribe(observer, scheduler=None):
        log.append(("sub", k))
        live = [True]
        for x in script[0]:
            observer.on_next(x)
        if script[1] == "C":
            log.append(("term", k, "C"))
            observer.on_completed()
        elif script[1] == "E":
            log.append(("term", k, "E"))
            observer.on_error(Boom(f"src{k}"))

        def un():
            if live[0]:
                live[0] = False
                log.append(("unsub", k))
        return Disposable(un)
    return rx.create(subscribe)


def cold_deferred(k, script, log, pending):
    """the same source, but it notifies only AFTER subscribe has returned (the driver delivers its script later): when it terminates, no
    scheduler action is running - the hop to the next source starts from an idle trampoline"""
    import reactivex as rx
    from reactivex.disposable import Disposable

    def subscribe(observer, scheduler=None):
        log.append(("sub", k))
        live = [True]
        pending.append((k, observer, live))

        def un():
            if live[0]:
                live[0] = False
                log.append(("unsub", k))
        return Disposable(un)
    return rx.create(subscribe)


def pump(pending, scripts, log):
    steps = 0
    while pending and steps < 200:
        steps += 1
        k, observer, live = pending.pop(0)
        for x in scripts[k][0]:
            if live[0]:
                observer.on_next(x)
        if not live[0]:
            continue
        if scripts[k][1] == "C":
            log.append(("term", k, "C"))
            observer.on_completed()
        elif scripts[k][1] == "E":
            log.append(("term", k, "E"))
            observer.on_error(Boom(f"src{k}"))


def expected(op, scripts, n=None):
    """-> (output, subscriptions list of source indices)"""
    out, subs = [], []
    if op in ("concat", "start_with"):
        for k, (els, t) in enumerate(scripts):
            subs.append(k)
            out += [("N", x) for x in els]
            if t == "E":
                return out + [("E", f"src{k}")], subs
            if t == "N":
                return out, subs
        return out + [("C",)], subs
    if op == "catch":
        last = None
        for k, (els, t) in enumerate(scripts):
            subs.append(k)
            out += [("N", x) for x in els]
            if t == "C":
                return out + [("C",)], subs
            if t == "N":
                return out, subs
            last = f"src{k}"
        return out + ([("E", last)] if last else [("C",)]), subs
    if op == "resume":
        for k, (els, t) in enumerate(scripts):
            subs.append(k)
            out += [("N", x) for x in els]
            if t == "N":
                return out, subs
        return out + [("C",)], subs
    if op in ("repeat", "retry"):
        els, t = scripts[0]
        cont, stop = ("C", "E") if op == "repeat" else ("E", "C")
        for i in range(n):
            subs.append(0)
            out += [("N", x) for x in els]
            if t == stop:
                return out + ([("E", "src0")] if stop == "E" else [("C",)]), subs
            if t == "N":
                return out, subs
        if op == "repeat":
            return out + [("C",)], subs
        return out + ([("E", "src0")] if n > 0 else [("C",)]), subs
    raise SystemExit(op)


def run(c):
    import reactivex as rx
    from reactivex import operators as ops
    log = []
    scripts = [tuple(s) for s in c["scripts"]]
    pending = []
    mode = c.get("mode")
    srcs = [cold_deferred(k, s, log, pending) if mode == "deferred" else cold(k, s, log) for k, s in enumerate(scripts)]
    src_scripts = list(scripts)
    op, n = c["op"], c.get("n")
    if op == "concat":
        obs = rx.concat(*srcs) if c.get("form") != "operator" else srcs[0].pipe(ops.concat(*srcs[1:]))
    elif op == "start_with":
        obs = srcs[1].pipe(ops.start_with(*scripts[0][0]))
        scripts = [(scripts[0][0], "C"), scripts[1]]
    elif op == "catch":
        obs = rx.catch(*srcs) if c.get("form") != "operator" or len(srcs) != 2 else srcs[0].pipe(ops.catch(srcs[1]))
    elif op == "resume":
        obs = rx.on_error_resume_next(*srcs)
    elif op == "repeat":
        obs = srcs[0].pipe(ops.repeat(n))
    elif op == "retry":
        obs = srcs[0].pipe(ops.retry(n))
    want, want_subs = expected(op, scripts, n)
    for round_ in range(2):  # the same operator object subscribed twice behaves the same
        del log[:]
        got = []
        kw = {}
        if mode == "immediate":
            from reactivex.scheduler import ImmediateScheduler
            kw = {"scheduler": ImmediateScheduler()}
        del pending[:]
        obs.subscribe(lambda v: got.append(("N", v)), lambda e: got.append(("E", str(e))), lambda: got.append(("C",)), **kw)
        if mode == "deferred":
            pump(pending, src_scripts, log)
        if got != want:
            return {"what": f"output differs (subscription #{round_ + 1})", "got": got, "expected": want}
        subs = [e[1] for e in log if e[0] == "sub"]
        if op == "start_with":
            subs = [0] + [1 for _ in subs]
        if subs != want_subs:
            return {"what": f"sources subscribed {subs}, expected {want_subs} (subscription #{round_ + 1})"}
        # strictly one after another: every `sub k` but the first comes after a terminal of the previous source
        events = [e for e in log if e[0] in ("sub", "term")]
        for i, e in enumerate(events):
            if e[0] == "sub" and i > 0 and events[i - 1][0] != "term":
                return {"what": "a source was subscribed before the previous one had terminated", "events": events}
    return None


def cases():
    for c in base_cases():
        yield c
    # the same table with sources that terminate after subscribe returned (the hop starts from an idle trampoline), and on the immediate scheduler
    # (the hop runs inside the schedule() call)
    for c in base_cases():
        if c["op"] == "start_with":
            continue
        yield dict(c, mode="deferred")
        if len(c["scripts"]) <= 2:
            yield dict(c, mode="immediate")


def base_cases():
    scr = [([], "C"), ([1], "C"), ([None, 0], "C"), ([1], "E"), ([], "E"), ([2], "N")]
    for a, b in itertools.product(scr, repeat=2):
        for op in ("concat", "catch", "resume"):
            yield {"op": op, "scripts": [a, b]}
            yield {"op": op, "scripts": [a, b], "form": "operator"}
        yield {"op": "start_with", "scripts": [a, b]}
    for a, b, c in itertools.product(scr[:5], repeat=3):
        for op in ("concat", "catch", "resume"):
            yield {"op": op, "scripts": [a, b, c]}
    for a in scr:
        for n in (0, 1, 2, 3):
            yield {"op": "repeat", "scripts": [a], "n": n}
            yield {"op": "retry", "scripts": [a], "n": n}


REPLAY_TEMPLATE = '''#!/venv/bin/python
"""Replay of a violation of property {prop} (sequential composition).
obligation: {oid}
case: {case}
{what}
Exit 1 when it reproduces on the tree under RXVC_REPO (default /repo)."""
import subprocess, sys
r = subprocess.run(["/venv/bin/python", "{verif}/rxvc/seqrun.py", "case", {case!r}])
sys.exit(r.returncode)
'''


def main(argv):
    if argv[0] == "case":
        r = run(json.loads(argv[1]))
        print(json.dumps({"violation": r}, default=repr))
        sys.exit(1 if r else 0)
    opts = json.loads(argv[3]) if len(argv) > 3 else {}
    n, found = 0, None
    for c in cases():
        n += 1
        r = run(c)
        if r:
            found = {"case": c, "disagreement": r}
            break
    res = {"cases": n, "found": [found] if found else []}
    if found and "replay_path" in opts:
        os.makedirs(os.path.dirname(opts["replay_path"]), exist_ok=True)
        with open(opts["replay_path"], "w") as f:
            f.write(REPLAY_TEMPLATE.format(prop=opts.get("prop", "C10"), oid=opts.get("oid", "?"), verif=VERIF,
                                           case=json.dumps(found["case"]), what=json.dumps(found["disagreement"], default=repr)[:600]))
        res["replay"] = opts["replay_path"]
    print(json.dumps(res, default=repr))


if __name__ == "__main__":
    main(sys.argv[1:])
