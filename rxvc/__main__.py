"""CLI:  python3-vt -m rxvc check <Cxx> [--tier quick|thorough]
        python3-vt -m rxvc selftest
"""
from __future__ import annotations

import os
import sys
import traceback

HERE = os.path.dirname(os.path.dirname(os.path.abspath(__file__)))
if HERE not in sys.path:
    sys.path.insert(0, HERE)


def main(argv):
    if not argv:
        print(__doc__)
        return 3
    cmd = argv[0]
    if cmd == "selftest":
        import z3

        from rxvc.loader import Loader, repo_py_files

        ld = Loader()
        n = 0
        for f in repo_py_files(ld.repo, "reactivex"):
            ld.load_file(f)
            n += 1
        ok = os.path.exists("/usr/bin/cvc5") and os.path.exists("/venv/bin/python")
        print(f"rxvc selftest: z3 {z3.get_version_string()}, parsed {n} files of {ld.repo}, cvc5+venv present={ok}")
        return 0 if ok else 3
    if cmd == "check":
        prop = argv[1]
        tier = os.environ.get("VERIF_TIER") or "quick"
        if "--tier" in argv:
            tier = argv[argv.index("--tier") + 1]
        from rxvc import registry, report

        units = registry.units_for(prop, tier)
        if not units:
            print(f"no units registered for {prop}")
            return 3
        try:
            return report.Check(prop, tier, units).run()
        except Exception:
            traceback.print_exc()
            return 3
    print(__doc__)
    return 3


if __name__ == "__main__":
    sys.exit(main(sys.argv[1:]))
