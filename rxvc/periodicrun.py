"""Native scenario runner for periodic scheduling (replay of C35 violations; bounded).

Runs under /venv/bin/python.  Virtual time: schedule_periodic on VirtualTimeScheduler / HistoricalScheduler-style
clocks and interval / timer on it, for periods, dispose times and raise positions of a small grid - oracle: the
action runs at exactly k * period with the state returned by the previous call, stops at disposal and after a
raise; interval emits 0, 1, 2, ... at those ticks.  Real threads (NewThreadScheduler, EventLoopScheduler, tiny
periods): ticks thread their state, and after dispose() returns at most one tick already in flight completes - also
when the action overruns its period.  BOUNDED.

usage: periodicrun.py replay - C35 '<json opts>'
       periodicrun.py case '<json case>'
"""
from __future__ import annotations

import json
import os
import sys
import threading
import time

VERIF = os.path.dirname(os.path.dirname(os.path.abspath(__file__)))
REPO = os.environ.get("RXVC_REPO", "/repo")
if REPO not in sys.path:
    sys.path.insert(0, REPO)


class Boom(Exception):
    pass


def virtual_case(period, dispose_at, raise_at, horizon=7.5):
    from reactivex.scheduler import VirtualTimeScheduler
    s = VirtualTimeScheduler()
    ticks = []

    def action(state):
        ticks.append((s.now.timestamp() if hasattr(s.now, "timestamp") else float(s.now), state))
        if raise_at is not None and len(ticks) == raise_at:
            raise Boom("tick")
        return (state or 0) + 1
    d = s.schedule_periodic(float(period), action, 0)
    if dispose_at is not None:
        s.schedule_absolute(float(dispose_at), lambda *_: d.dispose())
    escaped = None
    try:
        s.advance_to(horizon)
    except Boom:
        escaped = "Boom"
    want = []
    k = 1
    while k * period <= horizon:
        t = float(k * period)
        if dispose_at is not None and t > dispose_at:
            break
        want.append((t, k - 1))
        if raise_at is not None and k == raise_at:
            break
        k += 1
    got = [(round(t, 6), st) for t, st in ticks]
    if got != want:
        return {"what": "ticks (virtual time, state) differ", "got": got, "expected": want}
    if raise_at is not None and len(want) >= raise_at and escaped is None:
        return {"what": "the action's exception did not propagate to the scheduler run"}
    return None


def interval_case(period, take_until=6.5):
    import reactivex as rx
    from reactivex.scheduler import VirtualTimeScheduler
    s = VirtualTimeScheduler()
    got = []
    rx.interval(float(period)).subscribe(lambda v: got.append((round(float(s.now.timestamp() if hasattr(s.now, "timestamp") else s.now), 6), v)), scheduler=s)
    s.advance_to(take_until)
    want = [(float(k * period), k - 1) for k in range(1, 100) if k * period <= take_until]
    return None if got == want else {"what": "interval emissions (virtual time, value) differ", "got": got, "expected": want}


def thread_case(kind, overrun):
    """real threads: after dispose() returned and one period plus slack passed, no further tick may START"""
    from reactivex.scheduler import EventLoopScheduler, NewThreadScheduler
    s = NewThreadScheduler() if kind == "new_thread" else EventLoopScheduler()
    period = 0.02
    starts = []
    states = []
    lock = threading.Lock()

    def action(state):
        with lock:
            starts.append(time.monotonic())
            states.append(state)
        if overrun:
            time.sleep(period * 2.5)  # the action takes longer than the period: no wait is due before the next tick
        return (state or 0) + 1
    d = s.schedule_periodic(period, action, 0)
    time.sleep(period * (8 if overrun else 4))
    d.dispose()
    t_disp = time.monotonic()
    time.sleep(period * 25)
    # generous: a correct loop tests the flag right before every tick, so nothing starts this long after dispose()
    late = [t for t in starts if t > t_disp + period * 10]
    if hasattr(s, "dispose"):
        s.dispose()
    if states != list(range(len(states))):
        return {"what": "states are not threaded 0, 1, 2, ...", "got": states[:10]}
    if not states:
        return {"what": "no tick at all"}
    if late:
        return {"what": f"{len(late)} tick(s) started well after dispose() had returned: the periodic work does not stop",
                "scheduler": kind, "overrun": overrun}
    return None


def all_cases():
    for period in (1, 2):
        for dispose_at in (None, 0.5, 2.5, 4.5):
            for raise_at in (None, 1, 2, 3):
                yield {"kind": "virtual", "period": period, "dispose_at": dispose_at, "raise_at": raise_at}
    for period in (1, 2, 3):
        yield {"kind": "interval", "period": period}
    for k in ("new_thread", "event_loop"):
        for overrun in (False, True):
            yield {"kind": k, "overrun": overrun}


def run(c):
    if c["kind"] == "virtual":
        return virtual_case(c["period"], c["dispose_at"], c["raise_at"])
    if c["kind"] == "interval":
        return interval_case(c["period"])
    return thread_case(c["kind"], c["overrun"])


REPLAY_TEMPLATE = '''#!/venv/bin/python
"""Replay of a violation of property {prop} (periodic scheduling).
obligation: {oid}
case: {case}
{what}
Exit 1 when it reproduces on the tree under RXVC_REPO (default /repo)."""
import subprocess, sys
r = subprocess.run(["/venv/bin/python", "{verif}/rxvc/periodicrun.py", "case", {case!r}])
sys.exit(r.returncode)
'''


def main(argv):
    if argv[0] == "case":
        r = run(json.loads(argv[1]))
        print(json.dumps({"violation": r}, default=repr))
        sys.exit(1 if r else 0)
    opts = json.loads(argv[3]) if len(argv) > 3 else {}
    cases, found = 0, None
    for c in all_cases():
        cases += 1
        r = run(c)
        if r:
            found = {"case": c, "disagreement": r}
            break
    res = {"cases": cases, "found": [found] if found else []}
    if found and "replay_path" in opts:
        os.makedirs(os.path.dirname(opts["replay_path"]), exist_ok=True)
        with open(opts["replay_path"], "w") as f:
            f.write(REPLAY_TEMPLATE.format(prop=opts.get("prop", "C35"), oid=opts.get("oid", "?"), verif=VERIF,
                                           case=json.dumps(found["case"]), what=json.dumps(found["disagreement"], default=repr)))
        res["replay"] = opts["replay_path"]
    print(json.dumps(res, default=repr))


if __name__ == "__main__":
    main(sys.argv[1:])
