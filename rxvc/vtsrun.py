"""Native replay for C28/C29: small schedules on the real virtual-time schedulers against a reference
model of virtual time (bounded search; under a watchdog for hangs).

usage: vtsrun.py replay - <C28|C29> '<json opts>'
"""
from __future__ import annotations

import itertools
import json
import os
import sys
import threading
from datetime import datetime, timedelta, timezone

VERIF = os.path.dirname(os.path.dirname(os.path.abspath(__file__)))
if VERIF not in sys.path:
    sys.path.insert(0, VERIF)
REPO = os.environ.get("RXVC_REPO", "/repo")  # the tree under test (the checks run on /repo; scratch copies are used by my own side runs only)
if REPO not in sys.path:
    sys.path.insert(0, REPO)

EPOCH = datetime(2020, 1, 1, tzinfo=timezone.utc)


def make(kind):
    from reactivex.scheduler import HistoricalScheduler, VirtualTimeScheduler
    from reactivex.testing import TestScheduler

    if kind == "virtual":
        return VirtualTimeScheduler(), (lambda t: float(t)), (lambda s: s.to_seconds(s.now))
    if kind == "test":
        return TestScheduler(), (lambda t: float(t)), (lambda s: s.to_seconds(s.now))
    return HistoricalScheduler(EPOCH), (lambda t: EPOCH + timedelta(seconds=t)), (lambda s: (s.now - EPOCH).total_seconds())


def run_real(kind, dues, cancel, ops, many=0, selfresched=0, behave=None):
    """dues: list of due ticks scheduled up front (absolute); cancel: index cancelled before running;
    ops: list of ('advance_to', t) | ('advance_by', d) | ('sleep', d) | ('start',)"""
    s, conv, now = make(kind)
    log = []
    handles = []
    def mk(i):
        def act(sch, state):
            log.append((i, now(s)))
            if selfresched and i == 0 and len([x for x in log if x[0] == 0]) <= selfresched:
                s.schedule(act)
            if behave and i == 0 and len([x for x in log if x[0] == 0]) == 1:
                # what action 0 does while it runs (once): see BEHAVIOURS
                if behave == "past":
                    s.schedule_absolute(conv(dues[0] - 0.5), mk(77))
                elif behave == "stop":
                    s.stop()
                elif behave == "nested_advance_by_0":
                    s.advance_by(0 if kind != "historical" else timedelta(0))
                elif behave == "nested_advance_to_later":
                    s.advance_to(conv(dues[0] + 10))
        return act
    for i, d in enumerate(dues):
        handles.append(s.schedule_absolute(conv(d), mk(i)))
    for k in range(many):
        s.schedule_absolute(conv(dues[0] if dues else 1), lambda sch, st, _k=k: log.append((100 + _k, now(s))))
    if cancel is not None and cancel < len(handles):
        handles[cancel].dispose()
    out = []
    done = threading.Event()
    err = []

    def body():
        try:
            for op in ops:
                try:
                    if op[0] == "advance_to":
                        s.advance_to(conv(op[1]))
                    elif op[0] == "advance_by":
                        s.advance_by(op[1] if kind != "historical" else timedelta(seconds=op[1]))
                    elif op[0] == "sleep":
                        s.sleep(op[1] if kind != "historical" else timedelta(seconds=op[1]))
                    elif op[0] == "schedule":
                        # more work for a scheduler that was idle or has been drained: it must run on the next start
                        s.schedule_absolute(conv(op[1]), mk(len(handles) + 50))
                    else:
                        # TestScheduler.start is the test harness entry point (create/subscribe/dispose times);
                        # the run loop under test is the inherited VirtualTimeScheduler.start
                        from reactivex.scheduler import VirtualTimeScheduler

                        VirtualTimeScheduler.start(s)
                    from datetime import datetime as _dt
                    if isinstance(s.clock, _dt) != (kind == "historical"):
                        # a tick clock stays a number, a datetime clock a datetime
                        out.append((op, f"the clock changed its representation: now a {type(s.clock).__name__}", now(s)))
                    else:
                        out.append((op, "ok", now(s)))
                except Exception as e:
                    out.append((op, type(e).__name__, now(s)))
        finally:
            done.set()
    t = threading.Thread(target=body, daemon=True)
    t.start()
    if not done.wait(20):
        return "HANG", log
    return out, log


#: what action 0 may do while it runs: schedule something behind the clock (it runs next, before same-instant siblings), stop the scheduler (the
#: siblings stay pending), or call advance_by(0) / advance_to(later) on the scheduler that is running it (a run is in progress: no effect at all)
BEHAVIOURS = ("past", "stop", "nested_advance_by_0", "nested_advance_to_later")


def run_model(dues, cancel, ops, many=0, selfresched=0, bump=1.0, behave=None):
    """reference model of virtual time (including the documented anti-spinning clock bump of start())"""
    clock = 0.0
    pending = [(d, i, i, i == cancel) for i, d in enumerate(dues)]
    seq = len(dues)
    for k in range(many):
        pending.append((dues[0] if dues else 1, seq, 100 + k, False))
        seq += 1
    log, out = [], []
    runs0 = 0
    st = {"stopped": False, "behaved": False}

    def drain(limit, spin):
        nonlocal clock, seq, runs0
        spinning = 0
        st["stopped"] = False
        while pending and not st["stopped"]:
            pending.sort()
            d, sq, i, cancelled = pending[0]
            if limit is not None and d > limit:
                break
            pending.pop(0)
            if d > clock:
                clock = d
                spinning = 0
            elif spin and spinning > 100:
                clock += bump
                spinning = 0
            if not cancelled:
                log.append((i, clock))
                if behave and i == 0 and not st["behaved"]:
                    st["behaved"] = True
                    if behave == "past":
                        pending.append((dues[0] - 0.5, seq, 77, False))
                        seq += 1
                    elif behave == "stop":
                        st["stopped"] = True
                if selfresched and i == 0:
                    runs0 += 1
                    if runs0 <= selfresched:
                        pending.append((clock, seq, 0, False))
                        seq += 1
            spinning += 1
    for op in ops:
        if op[0] == "advance_to":
            if op[1] < clock:
                out.append((op, "ArgumentOutOfRangeException", clock))
                continue
            if op[1] > clock:
                drain(op[1], False)
                clock = float(op[1])
            out.append((op, "ok", clock))
        elif op[0] == "advance_by":
            if op[1] < 0:
                out.append((op, "ArgumentOutOfRangeException", clock))
                continue
            if op[1] > 0:
                target = clock + op[1]
                drain(target, False)
                clock = target
            out.append((op, "ok", clock))
        elif op[0] == "sleep":
            if op[1] < 0:
                out.append((op, "ArgumentOutOfRangeException", clock))
                continue
            clock += op[1]
            out.append((op, "ok", clock))
        elif op[0] == "schedule":
            pending.append((op[1], seq, len(dues) + 50, False))
            seq += 1
            out.append((op, "ok", clock))
        else:
            drain(None, True)
            out.append((op, "ok", clock))
    return out, log


def norm(x):
    out, log = x
    if out == "HANG":
        return x
    return [(o, r, round(float(c), 6)) for o, r, c in out], [(i, round(float(c), 6)) for i, c in log]


def cases(prop):
    times = [1, 2, 2, 3]
    if prop == "C29":
        for kind in ("virtual", "test", "historical"):
            for many in (0, 3, 150):
                for selfresched in (0, 2):
                    for ops in ([("start",)], [("advance_to", 2)], [("advance_to", 2), ("start",)], [("start",), ("start",)]):
                        yield kind, [2, 2], None, ops, many, selfresched
            # an action that calls advance_by(0) / advance_to(later) on the scheduler running it changes nothing: every due action still runs
            for behave in ("nested_advance_by_0", "nested_advance_to_later", "stop"):
                for many in (0, 3):
                    for ops in ([("start",)], [("advance_to", 5)], [("advance_to", 5), ("start",)]):
                        yield kind, [2, 2, 3], None, ops, many, 0, behave
            # an idle / drained scheduler can be started again: work scheduled after a run is run by the next one
            for first in (("advance_to", 5), ("advance_by", 5), ("start",)):
                for again in (("start",), ("advance_to", 9)):
                    yield kind, [], None, [first, ("schedule", 7), again], 0, 0
                    yield kind, [2], None, [first, ("schedule", 7), again], 0, 0
            # cancelled work (also as the last thing queued) neither hangs a run nor breaks it, and the scheduler can go on afterwards
            for dues in ([2], [1, 2], [2, 2, 3]):
                for cancel in range(len(dues)):
                    for ops in ([("advance_to", 5)], [("advance_by", 5)], [("start",)], [("advance_to", 5), ("schedule", 7), ("start",)]):
                        yield kind, dues, cancel, ops, 0, 0
        return
    for kind in ("virtual", "test", "historical"):
        for behave in BEHAVIOURS:
            for dues in ([2, 2], [2, 2, 3], [1, 2, 2], [2]):
                for ops in ([("advance_to", 5)], [("advance_by", 5)], [("start",)], [("advance_to", 5), ("start",)], [("advance_to", 2), ("advance_to", 5)]):
                    yield kind, dues, None, ops, 0, 0, behave
    for kind in ("virtual", "test", "historical"):
        for n in range(0, 4):
            for dues in itertools.product([1, 2, 3], repeat=n):
                for cancel in [None] + list(range(n)):
                    for ops in ([("start",)], [("advance_to", 2), ("start",)], [("advance_to", 1), ("advance_to", 2), ("advance_to", 3)],
                                [("advance_by", 2), ("sleep", 1), ("start",)], [("sleep", 2), ("advance_to", 1)],
                                [("advance_to", 1.5), ("advance_to", 2), ("start",)]):
                        yield kind, list(dues), cancel, ops, 0, 0


REPLAY = '''#!/venv/bin/python
"""Replay of a counter-example found for property {prop}.
obligation: {oid}
The real virtual-time scheduler ({kind}) differs from the reference model of virtual time on this schedule."""
import sys
sys.path.insert(0, {verif!r})
from rxvc import vtsrun
args = {args}
behave = {behave}
real = vtsrun.norm(vtsrun.run_real({kind!r}, *args, behave))
model = vtsrun.norm(vtsrun.run_model(*args, 0.001 if {kind!r} == 'historical' else 1.0, behave))
print("schedule (dues, cancelled index, operations, extra same-instant actions, self-reschedules):", args, " action 0 while it runs:", behave)
print("real    : ops", real[0], " invocations (index, clock):", real[1])
print("expected: ops", model[0], " invocations (index, clock):", model[1])
sys.exit(1 if real != model else 0)
'''


def main(argv):
    prop = argv[2] if len(argv) > 2 else "C28"
    opts = json.loads(argv[3]) if len(argv) > 3 else {}
    n = 0
    for case in cases(prop):
        kind, dues, cancel, ops, many, selfresched = case[:6]
        behave = case[6] if len(case) > 6 else None
        n += 1
        real = norm(run_real(kind, dues, cancel, ops, many, selfresched, behave))
        model = norm(run_model(dues, cancel, ops, many, selfresched, 0.001 if kind == 'historical' else 1.0, behave))
        if real != model:
            res = {"cases": n, "found": [{"kind": kind, "dues": dues, "cancel": cancel, "ops": ops, "many": many,
                                          "selfresched": selfresched, "action_0_does": behave, "real": repr(real)[:400], "model": repr(model)[:400]}]}
            if "replay_path" in opts:
                os.makedirs(os.path.dirname(opts["replay_path"]), exist_ok=True)
                with open(opts["replay_path"], "w") as f:
                    f.write(REPLAY.format(prop=prop, oid=opts.get("oid", "?"), verif=VERIF, kind=kind,
                                          args=repr((dues, cancel, [tuple(o) for o in ops], many, selfresched)), behave=repr(behave)))
                res["replay"] = opts["replay_path"]
            print(json.dumps(res, default=repr))
            return
    print(json.dumps({"cases": n, "found": []}))


if __name__ == "__main__":
    main(sys.argv[1:])
