"""C25 / C26 (and C02 / C03, whose ownership argument starts from fresh containers): function contracts of the CONSTRUCTORS of the disposables, on
the real code.  The monitor contracts (monitor.py) start every method from an arbitrary state satisfying the monitor invariant; that a new
object IS in such a state - live, empty (or holding exactly what it was given), with a lock of its own - is what these clauses add.

  Disposable(action)                  is_disposed False; `action` is the given callable (a no-op when none is given); nothing is called
  BooleanDisposable()                 is_disposed False
  Serial / SingleAssignment / MultipleAssignmentDisposable()
                                      is_disposed False, current None
  CompositeDisposable(a, b) / ([a, b])   is_disposed False, holds exactly a, b in that order; disposes nothing
  RefCountDisposable.InnerDisposable(parent)   attached to that parent, is_disposed False
  every one                           creates one lock of its own (an RLock: re-entrant, as the monitor contracts assume)
(RefCountDisposable(d): refcount.py `__init__/starts-live-with-no-dependents`.)
"""
from __future__ import annotations

import time

import z3

from . import smt
from .interp import Interp, World, explore
from .loader import Loader
from .refine import Result
from .values import Closure, ListObj, Native, Obj, Opaque, PyExc, Unsupported

D = "reactivex/disposable/"
CASES = [
    ("Disposable", D + "disposable.py", "reactivex.disposable.disposable", "Disposable"),
    ("BooleanDisposable", D + "booleandisposable.py", "reactivex.disposable.booleandisposable", "BooleanDisposable"),
    ("SerialDisposable", D + "serialdisposable.py", "reactivex.disposable.serialdisposable", "SerialDisposable"),
    ("SingleAssignmentDisposable", D + "singleassignmentdisposable.py", "reactivex.disposable.singleassignmentdisposable", "SingleAssignmentDisposable"),
    ("MultipleAssignmentDisposable", D + "multipleassignmentdisposable.py", "reactivex.disposable.multipleassignmentdisposable", "MultipleAssignmentDisposable"),
    ("CompositeDisposable", D + "compositedisposable.py", "reactivex.disposable.compositedisposable", "CompositeDisposable"),
    ("InnerDisposable", D + "refcountdisposable.py", "reactivex.disposable.refcountdisposable", "RefCountDisposable.InnerDisposable"),
]


class CtorWorld(World):
    def __init__(self):
        super().__init__()
        self.log = []

    def truthy(self, it, o):
        if o.kind == "callback":
            return True
        return super().truthy(it, o)

    def isinstance(self, it, o, cls):
        n = (getattr(cls, "name", "") or "").split(".")[-1]
        if o.kind == "resource":
            return n == "DisposableBase"
        return super().isinstance(it, o, cls)

    def call(self, it, o, method, args, kwargs):
        if o.kind in ("resource", "callback"):
            self.log.append((o, method))
            return None
        if o.kind in ("lock", "logger"):
            return None
        return super().call(it, o, method, args, kwargs)


class CtorHarness:
    def __init__(self, loader=None):
        self.loader = loader or Loader()
        self.results = []
        self.unsupported = None
        self.functions = {}

    def rec(self, ctx, oid, goal, detail=""):
        t0 = time.time()
        if isinstance(goal, bool):
            goal = z3.BoolVal(goal)
        v, m, b = smt.prove(ctx.pc, goal)
        ctx.results.append(Result(oid, v, b, smt.model_to_dict(m), list(ctx.branch_log), detail, time.time() - t0, "post"))

    def run_case(self, ctx, name, rel, modname, qual):
        uid = f"{rel}::{qual}.__init__"
        w = CtorWorld()
        it = Interp(self.loader, ctx, w)
        locks = []

        def mk_lock(kind):
            def f(it_, a, k):
                lk = Opaque("lock", f"lock#{len(locks) + 1}", reentrant=(kind == "RLock"))
                locks.append(lk)
                return lk
            return f
        it.externals["threading.RLock"] = Native("RLock", mk_lock("RLock"))
        it.externals["threading.Lock"] = Native("Lock", mk_lock("Lock"))
        cls = None
        for part in qual.split("."):
            cls = it.module_get(modname, part) if cls is None else it.get_attr(cls, part)
        a, b = Opaque("resource", "a"), Opaque("resource", "b")
        action = Opaque("callback", "action")
        parent = Opaque("resource", "parent")
        form = 0
        if name == "Disposable":
            form = ctx.choose(2, "an action is given")
            args = [action] if form == 1 else []
        elif name == "CompositeDisposable":
            form = ctx.choose(3, "no items / two items / one list of two items")
            args = [] if form == 0 else ([a, b] if form == 1 else [ListObj([a, b])])
        elif name == "InnerDisposable":
            args = [parent]
        else:
            args = []
        try:
            o = it.call(cls, args, {})
        except PyExc as e:
            self.rec(ctx, uid + "/no-exception", False, detail=repr(e.value))
            return
        ok = isinstance(o, Obj)
        self.rec(ctx, uid + "/builds-an-object-and-calls-nothing", ok and not w.log, detail=f"{w.log}")
        if not ok:
            return
        self.rec(ctx, uid + "/starts-live", o.fields.get("is_disposed") is False, detail=f"is_disposed = {o.fields.get('is_disposed')!r}")
        self.rec(ctx, uid + "/has-one-re-entrant-lock-of-its-own", len(locks) == 1 and o.fields.get("lock") is locks[0] and locks[0].attrs.get("reentrant") is True,
                 detail=f"locks created: {len(locks)}")
        if name == "Disposable":
            act = o.fields.get("action")
            if form == 1:
                self.rec(ctx, uid + "/keeps-the-given-action", act is action)
            else:
                noop = it.module_get("reactivex.internal.basic", "noop")
                self.rec(ctx, uid + "/without-an-action-disposing-does-nothing", act is noop or (isinstance(act, Closure) and act.node.name == "noop"), detail=f"{act!r}")
        if name in ("SerialDisposable", "SingleAssignmentDisposable", "MultipleAssignmentDisposable"):
            self.rec(ctx, uid + "/starts-empty", "current" in o.fields and o.fields["current"] is None)
        if name == "CompositeDisposable":
            lst = o.fields.get("disposable")
            want = [] if form == 0 else [a, b]
            self.rec(ctx, uid + "/holds-exactly-the-given-items-in-order", isinstance(lst, ListObj) and not lst.symbolic and len(lst.items) == len(want)
                     and all(x is y for x, y in zip(lst.items, want)), detail=f"{lst!r}")
        if name == "InnerDisposable":
            self.rec(ctx, uid + "/attached-to-the-given-parent", o.fields.get("parent") is parent)

    def run(self):
        t0 = time.time()
        try:
            for (name, rel, modname, qual) in CASES:
                self.functions[f"{rel}::{qual}.__init__"] = self.loader.sha(rel, qual + ".__init__")
                for p in explore(lambda ctx, _c=(name, rel, modname, qual): self.run_case(ctx, *_c)):
                    self.results.extend(p.results)
        except Unsupported as e:
            self.unsupported = str(e)
        except PyExc as e:
            self.unsupported = f"interpreter-level exception: {e.value!r} {getattr(e.value, 'fields', '')}"
        self.seconds = time.time() - t0
        return self


MUTANTS = [
    (D + "disposable.py", "        self.is_disposed = False\n", "        self.is_disposed = action is None\n", "Disposable() without an action starts disposed"),
    (D + "serialdisposable.py", "        self.current: abc.DisposableBase | None = None\n", "        self.current: abc.DisposableBase | None = self\n", "Serial starts holding itself"),
    (D + "compositedisposable.py", "            self.disposable: list[abc.DisposableBase] = args[0]", "            self.disposable: list[abc.DisposableBase] = args[0][1:]", "Composite drops the first item of a list"),
    (D + "booleandisposable.py", "        self.lock = RLock()", "        self.lock = Lock()", "a non-reentrant lock"),
]


def must_fail():
    out = {"mutants": 0, "killed": 0, "survivors": []}
    for (rel, a, b, name) in MUTANTS:
        src = Loader().load_file(rel).src
        if a not in src:
            continue
        ld = Loader()
        ld.overrides = {rel: src.replace(a, b, 1)}
        h = CtorHarness(ld).run()
        out["mutants"] += 1
        if h.unsupported or any(r.verdict == "refuted" for r in h.results):
            out["killed"] += 1
        else:
            out["survivors"].append(name)
    return out


def run_unit(desc):
    h = CtorHarness().run()
    rep = {"unit": D + "*::__init__ (constructors of the disposables)", "kind": "function contracts of the constructors (a new object satisfies the monitor invariant)",
           "functions": h.functions, "results": [r.as_dict() for r in h.results], "unsupported": h.unsupported, "spec_validation": [], "bounded": [],
           "replayable": {"runner": "threadrun.py", "module": "contracts.c26", "name": "CompositeDisposable"}}
    if desc.get("tier") == "thorough" and not h.unsupported:
        mf = must_fail()
        rep["must_fail"] = dict(mf, unit=rep["unit"])
        if mf["mutants"] and mf["killed"] < mf["mutants"]:
            rep["crash"] = f"vacuity: must-fail mutants survived: {mf['survivors']}"
    return rep
