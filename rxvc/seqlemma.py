"""K8 lemmas about the recursive functions of a queue of time-stamped records (natives.SEQFUNS): they connect the
spec machines of take_last_with_time / skip_last_with_time (which mirror the pruning the operators do) with the
property's own words ("exactly the elements younger / not younger than the duration, by a boundary rule that does
not depend on unrelated arrivals").

Every lemma is proved by structural induction over the queue (cons form  T = [h] ++ tl): the generator instantiates the
induction schema - base case T = [], step case with the induction hypothesis for tl - and z3 discharges both from the
defining equations of the functions, instantiated on T by its decomposition.  The schema itself is applied by the
generator, not checked by the solver (recorded as an assumption)."""
from __future__ import annotations

import time

import z3

from . import natives, smt
from .refine import Result

S, I, B = smt.SeqVal, z3.IntSort(), z3.BoolSort()
DAP, APV, YV = natives.SEQFUNS["drop_aged_prefix"], natives.SEQFUNS["aged_prefix_vals"], natives.SEQFUNS["young_vals"]
VALS = z3.Function("vals", S, S)
SORTED = z3.Function("sorted_by_time", S, B)
ALL_LE = z3.Function("all_times_le", S, I, B)
E = z3.Empty(S)


def t_of(r):
    return smt.val2int(smt.tup2_0(r))


def x_of(r):
    return smt.tup2_1(r)


def defs(T, h, tl, now, d, bound=None):
    """the defining equations of every function at T = [h] ++ tl (and at [])"""
    aged = now - t_of(h) >= d
    X = z3.Unit(x_of(h))
    eqs = [
        DAP(T, now, d) == z3.If(aged, DAP(tl, now, d), T),
        APV(T, now, d) == z3.If(aged, z3.Concat(X, APV(tl, now, d)), E),
        YV(T, now, d) == z3.Concat(z3.If(aged, E, X), YV(tl, now, d)),
        VALS(T) == z3.Concat(X, VALS(tl)),
        SORTED(T) == z3.And(z3.Or(z3.Length(tl) == 0, t_of(h) <= t_of(tl[0])), SORTED(tl)),
        DAP(E, now, d) == E, APV(E, now, d) == E, YV(E, now, d) == E, VALS(E) == E, SORTED(E),
    ]
    if bound is not None:
        eqs += [ALL_LE(T, bound) == z3.And(t_of(h) <= bound, ALL_LE(tl, bound)), ALL_LE(E, bound)]
    return eqs


def lemmas(broken=False):
    h, r = z3.Const("h", smt.Val), z3.Const("r", smt.Val)
    tl = z3.Const("tl", S)
    now, now2, d, b = z3.Ints("now now2 d b")
    T = z3.Concat(z3.Unit(h), tl)
    out = []

    def lemma(name, text, stmt, step_hyps, extra_defs=(), uses=()):
        """stmt(q) -> formula; base: stmt([]); step: defs + IH stmt(tl) + proved lemmas instantiated (uses) |- stmt(T)"""
        base_pc = defs(T, h, tl, now, d, b) + defs(T, h, tl, now2, d, b) + list(extra_defs)
        out.append((name + "/base", text, base_pc, stmt(E)))
        out.append((name + "/step", text, base_pc + [stmt(tl)] + list(step_hyps) + list(uses), stmt(T)))

    # L1  pruning is invisible: what an arrival at `now` drops can never be young at a later instant
    lemma("pruning-is-invisible",
          "now <= now2  ==>  young_vals(drop_aged_prefix(q, now, d), now2, d) == young_vals(q, now2, d)",
          lambda q: z3.Implies(z3.BoolVal(True) if broken else now <= now2, YV(DAP(q, now, d), now2, d) == YV(q, now2, d)), [])
    # L2  in a time-ordered queue whose head is young everything is young
    l2 = lambda q: z3.Implies(z3.And(SORTED(q), z3.Or(z3.Length(q) == 0, now - t_of(q[0]) < d)), YV(q, now, d) == VALS(q))  # noqa: E731
    lemma("young-head-means-all-young", "sorted(q) and (q == [] or age(q[0]) < d)  ==>  young_vals(q, now, d) == vals(q)", l2, [])
    # L3  after the aged prefix only young records are left: the aged prefix is ALL the records that are not younger
    lemma("aged-prefix-is-all-the-aged",
          "sorted(q)  ==>  young_vals(drop_aged_prefix(q, now, d), now, d) == vals(drop_aged_prefix(q, now, d))",
          lambda q: z3.Implies(SORTED(q), YV(DAP(q, now, d), now, d) == VALS(DAP(q, now, d))), [], uses=[l2(T)])
    # L4  the prefix and the rest partition the queue: nothing is lost, duplicated or reordered
    lemma("prefix-and-rest-partition-the-queue",
          "aged_prefix_vals(q, now, d) ++ vals(drop_aged_prefix(q, now, d)) == vals(q)",
          lambda q: z3.Concat(APV(q, now, d), VALS(DAP(q, now, d))) == VALS(q), [])
    # L5  the queues of the spec machines are time-ordered: appending a record stamped `now` (not before any earlier
    #     instant) keeps the order, and so does dropping a prefix
    Tr = z3.Concat(T, z3.Unit(r))
    tlr = z3.Concat(tl, z3.Unit(r))
    snoc_defs = [
        SORTED(Tr) == z3.And(z3.Or(z3.Length(tlr) == 0, t_of(h) <= t_of(tlr[0])), SORTED(tlr)),
        SORTED(z3.Concat(E, z3.Unit(r))) == z3.And(z3.Or(z3.Length(E) == 0, t_of(r) <= t_of(E[0])), SORTED(E)),
        tlr[0] == z3.If(z3.Length(tl) == 0, r, tl[0]),
    ]
    lemma("append-keeps-time-order",
          "sorted(q) and all_times_le(q, b) and b <= t(r)  ==>  sorted(q ++ [r])",
          lambda q: z3.Implies(z3.And(SORTED(q), ALL_LE(q, b), b <= t_of(r)), SORTED(z3.Concat(q, z3.Unit(r)))), [], extra_defs=snoc_defs)
    lemma("dropping-a-prefix-keeps-time-order",
          "sorted(q)  ==>  sorted(drop_aged_prefix(q, now, d))",
          lambda q: z3.Implies(SORTED(q), SORTED(DAP(q, now, d))), [])
    # L6/L7  ... and every time stamp in the queue is at most the instant of the last step
    b2 = z3.Int("b2")
    le_defs = [ALL_LE(T, b2) == z3.And(t_of(h) <= b2, ALL_LE(tl, b2)), ALL_LE(E, b2),
               ALL_LE(Tr, b2) == z3.And(t_of(h) <= b2, ALL_LE(tlr, b2)),
               ALL_LE(z3.Concat(E, z3.Unit(r)), b2) == z3.And(t_of(r) <= b2, ALL_LE(E, b2))]
    lemma("append-keeps-the-time-bound",
          "all_times_le(q, b) and b <= b2 and t(r) <= b2  ==>  all_times_le(q ++ [r], b2)",
          lambda q: z3.Implies(z3.And(ALL_LE(q, b), b <= b2, t_of(r) <= b2), ALL_LE(z3.Concat(q, z3.Unit(r)), b2)), [], extra_defs=le_defs)
    l7 = lambda q: z3.Implies(ALL_LE(q, b2), ALL_LE(DAP(q, now, d), b2))  # noqa: E731
    lemma("dropping-a-prefix-keeps-the-time-bound",
          "all_times_le(q, b)  ==>  all_times_le(drop_aged_prefix(q, now, d), b)", l7, [], extra_defs=le_defs)
    # composition (no induction: instances of the lemmas above, each proved for every queue): one step of either spec
    # machine - append a record stamped with the instant of the step, which is not before the previous instant b, then
    # drop the aged prefix - keeps "time-ordered, no stamp later than the instant of the last step"
    q = z3.Const("q", S)
    qr = z3.Concat(q, z3.Unit(r))
    inst = [
        z3.Implies(z3.And(SORTED(q), ALL_LE(q, b), b <= t_of(r)), SORTED(qr)),            # append-keeps-time-order at q
        z3.Implies(z3.And(ALL_LE(q, b), b <= b2, t_of(r) <= b2), ALL_LE(qr, b2)),         # append-keeps-the-time-bound at q
        z3.Implies(SORTED(qr), SORTED(DAP(qr, now, d))),                                  # dropping-...-time-order at q ++ [r]
        z3.Implies(ALL_LE(qr, b2), ALL_LE(DAP(qr, now, d), b2)),                          # dropping-...-time-bound at q ++ [r]
    ]
    out.append(("spec-step-keeps-the-queue-time-ordered", "sorted(q), all_times_le(q, b), b <= now, t(r) == now  ==>  the same for drop_aged_prefix(q ++ [r], now, d) and now",
                inst + [SORTED(q), ALL_LE(q, b), b <= now, t_of(r) == now, b2 == now],
                z3.And(SORTED(DAP(qr, now, d)), ALL_LE(DAP(qr, now, d), now))))
    return out


def snoc_lemmas():
    """the two lemmas natives._snoc_lemmas instantiates at every append to delay's queue (records (notification, due)):
         all_elements(q)                    ==>  completion_last(q ++ [r])
         all_elements(q) and is_element(r)  ==>  all_elements(q ++ [r])
    by structural induction over q with the defining equations of the two predicates (natives.DUEPREDS)."""
    AE, CL = natives.DUEPREDS["all_elements"], natives.DUEPREDS["completion_last"]
    is_el = natives.rec_is_elem
    h, r = z3.Const("h", smt.Val), z3.Const("r", smt.Val)
    tl = z3.Const("tl", S)
    T = z3.Concat(z3.Unit(h), tl)
    R = z3.Unit(r)
    Tr, tlr, Er = z3.Concat(T, R), z3.Concat(tl, R), z3.Concat(E, R)

    def d(q, hd, rest):
        return [AE(q) == z3.And(is_el(hd), AE(rest)), CL(q) == z3.If(is_el(hd), CL(rest), z3.Length(rest) == 0)]
    base_defs = [AE(E), CL(E)] + d(Er, r, E)
    step_defs = [AE(E), CL(E)] + d(T, h, tl) + d(Tr, h, tlr)
    out = []
    l1 = lambda q: z3.Implies(AE(q), CL(z3.Concat(q, R)))  # noqa: E731
    l2 = lambda q: z3.Implies(z3.And(AE(q), is_el(r)), AE(z3.Concat(q, R)))  # noqa: E731
    for name, text, st in (("append-after-elements-keeps-the-completion-last", "all_elements(q)  ==>  completion_last(q ++ [r])", l1),
                           ("append-an-element-to-elements", "all_elements(q) and is_element(r)  ==>  all_elements(q ++ [r])", l2)):
        out.append((name + "/base", text, base_defs, st(E)))
        out.append((name + "/step", text, step_defs + [st(tl)], st(T)))
    return out


def run_unit(desc):
    if desc.get("prop") == "C15":
        return run_unit_snoc(desc)
    return run_unit_c17(desc)


def run_unit_snoc(desc):
    t0 = time.time()
    results = []
    for (name, text, pc, goal) in snoc_lemmas():
        t1 = time.time()
        v, m, bk = smt.prove(pc, goal)
        results.append(Result(f"specs/c15.py::queue-predicates/lemma/{name}", v, bk, smt.model_to_dict(m), [], text, time.time() - t1, "lemma"))
        v2, _m2, bk2 = smt.check_sat(pc)
        results.append(Result(f"specs/c15.py::queue-predicates/lemma/{name}/hypotheses-consistent", "proved" if v2 == "sat" else ("refuted" if v2 == "unsat" else "unknown"),
                              bk2, {}, [], "the defining equations and the induction hypothesis have a model", 0.0, "vacuity"))
    return {"unit": "specs/c15.py::queue-predicates (K8 lemmas)", "kind": "K8 spec lemmas by structural induction", "functions": {},
            "results": [r.as_dict() for r in results], "unsupported": None, "spec_validation": [], "bounded": [], "seconds": time.time() - t0}


def run_unit_c17(desc):
    t0 = time.time()
    results = []
    for (name, text, pc, goal) in lemmas():
        t1 = time.time()
        v, m, bk = smt.prove(pc, goal)
        results.append(Result(f"specs/c17q.py::queue-functions/lemma/{name}", v, bk, smt.model_to_dict(m), [], text, time.time() - t1, "lemma"))
    rep = {"unit": "specs/c17q.py::queue-functions (K8 lemmas)", "kind": "K8 spec lemmas by structural induction", "functions": {},
           "results": [r.as_dict() for r in results], "unsupported": None, "spec_validation": [], "bounded": [],
           "seconds": time.time() - t0}
    # vacuity: the hypotheses of every case are satisfiable
    for (name, text, pc, goal) in lemmas():
        v, m, bk = smt.check_sat(pc)
        results.append(Result(f"specs/c17q.py::queue-functions/lemma/{name}/hypotheses-consistent", "proved" if v == "sat" else ("refuted" if v == "unsat" else "unknown"),
                              bk, {}, [], "the defining equations and the induction hypothesis have a model", 0.0, "vacuity"))
    rep["results"] = [r.as_dict() for r in results]
    if desc.get("tier") == "thorough":
        # must-fail: without "time does not run backwards" pruning is NOT invisible - the step case has to be refuted
        muts = killed = 0
        for (name, text, pc, goal) in lemmas(broken=True):
            if name == "pruning-is-invisible/step":
                muts += 1
                v, m, bk = smt.prove(pc, goal)
                killed += v != "proved"
        rep["must_fail"] = {"mutants": muts, "killed": killed, "unit": rep["unit"],
                            "survivors": [] if killed == muts else ["pruning-is-invisible without time monotonicity"]}
        if muts and killed == 0:
            rep["crash"] = "vacuity: the lemma without its hypothesis was proved"
    return rep
