"""Which units decide which property."""
from __future__ import annotations

import os
import importlib

OP_MODULES = ["contracts.c05", "contracts.c06", "contracts.c11", "contracts.c13", "contracts.c40", "contracts.c17", "contracts.c17q",
              "contracts.c19", "contracts.c18", "contracts.c15", "contracts.c10"]
MONITOR_MODULES = ["contracts.c26"]


#: C08 (falsy values are ordinary elements) is what every element-level refinement proof says for ALL values at once: the element sort is
#: uninterpreted (None, 0, False, '', () ... are among its values and truthiness is a free predicate) - the contracts of the element-wise,
#: aggregating, time-shifting operators and of the subjects are therefore units of C08 too (emitted, counted, buffered, compared, delayed, replayed)
FALSY_CARRIERS = ("C05", "C06", "C15", "C20", "C21", "C22", "C23")


def op_units(prop):
    out = []
    for m in OP_MODULES:
        mod = importlib.import_module(m)
        for c in getattr(mod, "CONTRACTS", []):
            # C09 (exceptions of user functions become on_error): every contract whose operator takes a user function is a unit of
            # it - the refinement obligations include "no exception escapes the handler" and the on_error the spec prescribes
            takes_callbacks = prop == "C09" and any("callback" in str(v) for v in c.params.values())
            carries = prop == "C08" and any(p in c.props for p in FALSY_CARRIERS)
            if prop in c.props or takes_callbacks or carries:
                out.append({"runner": "k1", "module": m, "name": c.name, "prop": prop, "id": c.uid})
    return out


def monitor_units(prop):
    out = []
    for m in MONITOR_MODULES:
        mod = importlib.import_module(m)
        for c in getattr(mod, "MONITORS", []):
            if prop in c.props:
                out.append({"runner": "monitor", "module": m, "name": c.name, "prop": prop, "id": c.uid})
    return out


CLASS_MODULES = ["contracts.c20", "contracts.c01"]


def class_units(prop):
    out = []
    for m in CLASS_MODULES:
        mod = importlib.import_module(m)
        for c in getattr(mod, "CLASSES", []):
            if prop in c.props or (prop == "C08" and any(p in c.props for p in FALSY_CARRIERS)):
                out.append({"runner": "classref", "module": m, "name": c.name, "prop": prop, "id": c.uid})
    return out


MIXINS = [
    ("combination", "CombinationMixin"), ("conditional", "ConditionalMixin"), ("error_handling", "ErrorHandlingMixin"),
    ("filtering", "FilteringMixin"), ("mathematical", "MathematicalMixin"), ("multicasting", "MulticastingMixin"),
    ("testing", "TestingMixin"), ("time_based", "TimeBasedMixin"), ("transformation", "TransformationMixin"),
    ("utility", "UtilityMixin"), ("windowing", "WindowingMixin"),
]


def forward_units(prop):
    return [{"runner": "forward", "file": f"reactivex/observable/mixins/{f}.py", "cls": c, "prop": prop,
             "id": f"reactivex/observable/mixins/{f}.py::{c}"} for f, c in MIXINS]


#: K7 (C43): the K1 contracts whose harness is re-run with lock-set obligations (path-sensitive; amb needs it)
LOCKSET_UNITS = [("contracts.c11", "merge_all"), ("contracts.c11", "merge_concurrent"), ("contracts.c13", "zip/2"),
                 ("contracts.c13", "zip/3"), ("contracts.c13", "combine_latest/2"), ("contracts.c13", "combine_latest/3"),
                 ("contracts.c13", "with_latest_from/2"), ("contracts.c13", "with_latest_from/3"), ("contracts.c13", "amb")]


def lockset_units(prop):
    from . import lockdisc
    out = [{"runner": "lockset", "module": m, "name": n, "prop": prop, "id": f"lockset/{n}"} for m, n in LOCKSET_UNITS]
    for u in lockdisc.UNITS:
        name, rel, func, kind = u[:4]
        out.append({"runner": "lockdisc", "name": name, "file": rel, "func": func, "mode": kind, "prop": prop,
                    "race": u[4] if len(u) > 4 else name, "id": f"lockdisc/{rel}::{func}"})
    return out


#: which unit families each property draws on
FAMILIES = {
    "C19": ["op", "grouping"],
    "C18": ["op", "grouping", "toggle"],
    "C15": ["op", "seqlemma"],
    "C36": ["timeconv"],
    "C38": ["marble"],
    "C41": ["bridge"],
    "C33": ["aio", "timeconv"],
    "C31": ["evloop", "timeconv"],
    "C34": ["evloop", "periodic", "timeconv"],
    "C14": ["early", "op", "srcfac", "srcwire", "own", "class", "subscribe", "tramp"],
    "C02": ["own", "class", "subscribe", "compose", "monitor", "refcount"],
    "C03": ["own", "class", "subscribe", "compose", "srcfac", "monitor", "refcount"],
    "C43": ["lockset"],
    "C42": ["catchsched"],
    "C09": ["guard", "op", "subscribe"],
    "C30": ["tramp"],
    "C35": ["periodic", "catchsched", "srcwire", "evloop", "timeconv"],
    "C37": ["srcfac", "srcwire"],
    "C10": ["seqcomp", "op"],
    "C24": ["mcast"],
    "C22": ["replay", "schedobs"],
    "C32": ["schedobs"],
    "C40": ["op", "resrc", "subscribe", "class"],
    "C08": ["opacity", "op", "class", "replay"],
    "C05": ["op"],
    "C06": ["op"],
    "C07": ["slice"],
    "C11": ["op", "flatwire"],
    "C12": ["op", "flatwire"],
    "C13": ["op", "srcwire"],
    "C16": ["op", "timedextra", "grouping"],
    "C17": ["op", "seqlemma", "timedextra"],
    "C28": ["vts", "timeconv"],
    "C29": ["vts", "timeconv"],
    "C25": ["monitor", "scheddisp"],
    "C26": ["monitor"],
    "C27": ["monitor", "refcount"],
    "C39": ["forward"],
    "C01": ["class", "subscribe"],
    "C04": ["frame", "op"],
    "C44": ["frame"],
    "C20": ["class"],
    "C21": ["class"],
    "C23": ["class"],
}


#: callee contracts: the container / subject classes whose contracts the proofs of a property's units USE (the K1 harness, the
#: sequential-composition and multicast harnesses run the callers against these contracts, not against the bodies).  A property's
#: check re-runs the units that prove those contracts, so a change inside a callee that breaks the property fails here as well,
#: under the callee's own obligation.  Which classes: the ones the property's files import (read from the tree on every run).
CALLEE_CLASSES = {
    "SerialDisposable": ("monitor", "SerialDisposable"), "SingleAssignmentDisposable": ("monitor", "SingleAssignmentDisposable"),
    "MultipleAssignmentDisposable": ("monitor", "MultipleAssignmentDisposable"), "CompositeDisposable": ("monitor", "CompositeDisposable"),
    "RefCountDisposable": ("monitor", "RefCountDisposable"), "Subject": ("class", "Subject"),
}
#: properties whose units are function / class proofs against these contracts (the others own the classes or do not use them)
CALLEE_USERS = ("C05", "C06", "C09", "C10", "C11", "C12", "C13", "C14", "C15", "C16", "C17", "C18", "C19", "C24", "C25", "C40")


#: ... and the properties whose own files use the disposable containers / subjects as callees without being operator proofs (schedulers, sources,
#: bridges): the container contracts they import are re-proved inside them as well
CONTAINER_USERS = ("C28", "C29", "C30", "C31", "C32", "C33", "C34", "C35", "C37", "C41", "C42", "C43", "C44", "C04", "C07", "C08")


#: properties decided by proofs about one subscription of one operator application: the frame condition that carries them to
#: every subscription / application is checked for their own files (frame.run_local)
STATE_ALLOCATION = ("C05", "C06", "C07", "C09", "C10", "C11", "C12", "C13", "C14", "C15", "C16", "C17", "C18", "C19", "C24", "C35", "C37",
                    "C38", "C40", "C41", "C22", "C28", "C29", "C30", "C31", "C33", "C34", "C36")


#: operator contracts a property's lemma is stated over (proved under another property): re-proved inside this check as well
USES_OPS = {
    # C07: the closed forms of the stage operators slice_ is composed of are lemmas over the spec machines of C05 - which the
    # real handlers must refine
    "C07": [("contracts.c05", n) for n in ("take", "skip", "take_last", "skip_last", "filter_indexed")],
}


def _property_files(prop):
    import json
    import os

    files = set()
    here = os.path.dirname(os.path.dirname(os.path.abspath(__file__)))
    try:
        for ln in open(os.path.join(here, "properties.jsonl")):
            d = json.loads(ln)
            if d["id"] == prop:
                files.update(f for f in d["anchors"]["files"] if f.endswith(".py"))
    except OSError:
        pass
    for m in OP_MODULES:
        for c in getattr(importlib.import_module(m), "CONTRACTS", []):
            if prop in c.props:
                files.add(c.file)
    return sorted(files)


def _class_files(prop):
    """the property's anchor files that define classes (schedulers, subjects, disposables, observers, ...)"""
    import ast
    import json
    import os

    here = os.path.dirname(os.path.dirname(os.path.abspath(__file__)))
    repo = os.environ.get("RXVC_REPO", "/repo")
    out = []
    try:
        for ln in open(os.path.join(here, "properties.jsonl")):
            d = json.loads(ln)
            if d["id"] != prop:
                continue
            for f in d["anchors"]["files"]:
                try:
                    t = ast.parse(open(os.path.join(repo, f)).read())
                except (OSError, SyntaxError):
                    continue
                if any(isinstance(n, ast.ClassDef) for n in ast.walk(t)):
                    out.append(f)
    except OSError:
        pass
    return sorted(out)


def callee_units(prop, have):
    import ast
    import os

    from .loader import REPO

    if prop not in CALLEE_USERS + CONTAINER_USERS:
        return []
    wanted = []
    for rel in _property_files(prop):
        try:
            tree = ast.parse(open(os.path.join(REPO, rel)).read())
        except (OSError, SyntaxError):
            continue
        for n in ast.walk(tree):
            if isinstance(n, ast.ImportFrom) and ((n.module and n.module.startswith("reactivex")) or n.level > 0):
                for a in n.names:
                    if a.name in CALLEE_CLASSES and a.name not in wanted:
                        wanted.append(a.name)
    out = []
    for cls in sorted(wanted):
        kind, name = CALLEE_CLASSES[cls]
        pool = []
        if kind == "monitor":
            for m in MONITOR_MODULES:
                pool += [({"runner": "monitor", "module": m, "name": c.name, "prop": prop, "id": c.uid}) for c in importlib.import_module(m).MONITORS
                         if c.name == name or (name == "RefCountDisposable" and c.name == "InnerDisposable")]
        else:
            for m in CLASS_MODULES:
                pool += [({"runner": "classref", "module": m, "name": c.name, "prop": prop, "id": c.uid}) for c in importlib.import_module(m).CLASSES
                         if c.name == name]
        if name == "RefCountDisposable":
            pool.append({"runner": "refcount", "prop": prop, "id": "reactivex/disposable/refcountdisposable.py::RefCountDisposable[functional]"})
        out += [u for u in pool if u["id"] not in have]
    return out


def callee_op_units(prop, used_uids, have_ids, tier):
    """K1 units of the operator contracts that the units of `prop` used as callees (by contract)"""
    out = []
    for m in OP_MODULES:
        for c in getattr(importlib.import_module(m), "CONTRACTS", []):
            if c.uid in used_uids and c.uid not in have_ids and not any(o["id"] == c.uid for o in out):
                out.append({"runner": "k1", "module": m, "name": c.name, "prop": prop, "id": c.uid, "tier": "quick" if tier == "quick" else "quick"})
    return out


def units_for(prop, tier):
    us = []
    fams = FAMILIES.get(prop, [])
    if "op" in fams:
        us += op_units(prop)
    if "monitor" in fams:
        us += monitor_units(prop)
    if "forward" in fams:
        us += forward_units(prop)
    if "class" in fams:
        us += class_units(prop)
    if "schedobs" in fams:
        us.append({"runner": "schedobs", "prop": prop, "id": "reactivex/observer/scheduledobserver.py::ScheduledObserver"})
    if "replay" in fams:
        us.append({"runner": "replay", "prop": prop, "id": "reactivex/subject/replaysubject.py::ReplaySubject"})
    if "timedextra" in fams:
        us.append({"runner": "timedextra", "prop": prop, "id": f"timed-operators-not-under-contract/{prop}"})
    if "grouping" in fams:
        us.append({"runner": "grouping", "prop": prop, "id": f"grouping-wiring/{prop}"})
    if prop in ("C30", "C31", "C34", "C35"):
        # callee contracts of the trampoline / event-loop schedulers: the queue they keep their items in
        us.append({"runner": "vts", "mode": "queue", "prop": prop, "id": "reactivex/internal/priorityqueue.py::PriorityQueue+ScheduledItem"})
    if prop in ("C28", "C29"):
        # the two subclasses the property names (HistoricalScheduler, TestScheduler.schedule_absolute)
        us.append({"runner": "vtsub", "prop": prop, "id": "reactivex/scheduler/historicalscheduler.py::HistoricalScheduler+TestScheduler.schedule_absolute"})
    if prop in ("C28", "C29", "C30", "C31", "C33", "C34", "C35"):
        # a new scheduler IS in the idle state the scheduler contracts start from (constructors)
        us.append({"runner": "schedctor", "prop": prop, "id": "reactivex/scheduler/*::__init__"})
    if prop in ("C28", "C29", "C30", "C31", "C33", "C34", "C35", "C42"):
        # ... and what invoking / cancelling a scheduled item means (Scheduler.invoke_action, ScheduledItem)
        us.append({"runner": "schedbase", "prop": prop, "id": "reactivex/scheduler/scheduler.py::Scheduler.invoke_action+ScheduledItem"})
    if "monitor" in fams and prop in ("C25", "C26", "C27", "C02", "C03"):
        # a new disposable IS in a state the monitor contracts start from (constructors)
        us.append({"runner": "ctor", "prop": prop, "id": "reactivex/disposable/*::__init__"})
    if "refcount" in fams:
        us.append({"runner": "refcount", "prop": prop, "id": "reactivex/disposable/refcountdisposable.py::RefCountDisposable[functional]"})
    if "flatwire" in fams:
        us.append({"runner": "flatwire", "prop": prop, "id": f"composition-wiring/{prop}"})
    if "scheddisp" in fams:
        us.append({"runner": "scheddisp", "prop": prop, "id": "reactivex/disposable/scheduleddisposable.py::ScheduledDisposable"})
    if "compose" in fams:
        us.append({"runner": "compose", "prop": prop, "id": "composition-lemmas/C02-C03"})
    if "toggle" in fams:
        us.append({"runner": "toggle", "prop": prop, "id": "toggle-windows/C18"})
    if "marble" in fams:
        us.append({"runner": "marble", "prop": prop, "id": "reactivex/observable/marbles.py::parse+from_marbles+hot"})
    if "bridge" in fams:
        us.append({"runner": "bridge", "prop": prop, "id": "reactivex::bridges(future, callback, blocking)"})
    if "aio" in fams:
        us.append({"runner": "aio", "prop": prop, "id": "reactivex/scheduler/eventloop/asynciothreadsafescheduler.py::AsyncIO(ThreadSafe)Scheduler"})
    if "evloop" in fams:
        us.append({"runner": "evloop", "prop": prop, "id": "reactivex/scheduler/eventloopscheduler.py::EventLoopScheduler"})
    if "timeconv" in fams or prop in ("C15", "C16", "C17", "C18", "C37", "C22"):
        # (the timed operators / sources and ReplaySubject's window take every span and instant through the scheduler's conversions, which
        # their own proofs treat as "the same span / instant" (A-time): that assumption is C36's contract, re-proved here)
        us.append({"runner": "timeconv", "prop": prop, "id": "reactivex/scheduler/scheduler.py::Scheduler.time-conversions"})
    if "early" in fams:
        us.append({"runner": "early", "prop": prop, "id": "early-termination/C14"})
    if "own" in fams:
        us.append({"runner": "own", "prop": prop, "id": f"ownership-conditions/{prop}"})
    if prop == "C40":
        # "released exactly once when the subscription terminates or is disposed": the resource / the finally-action's handle must be OWNED by what
        # the operator returns - the ownership contracts of the three anchor files are re-proved here
        us.append({"runner": "own", "prop": prop, "id": "ownership-conditions/C40", "files": ["reactivex/observable/using.py", "reactivex/operators/_finallyaction.py",
                                                                                              "reactivex/operators/_do.py"]})
    if prop in ("C18", "C19"):
        # the handler proofs of the window / group operators are about a subscription that is LIVE; a subscriber may unsubscribe from inside the
        # on_next that hands it a window / group, and what the handler still does afterwards stands behind a re-check of the subscription
        # (`if <owned disposable>.is_disposed`) - the after-emission obligations of the ownership analysis (C03), over this property's own files
        fl = [f_ for f_ in _property_files(prop) if f_.startswith("reactivex/operators/")]
        if fl:
            us.append({"runner": "own", "prop": prop, "id": f"ownership-conditions/{prop}", "files": fl, "after_emission": True})
    if "seqlemma" in fams:
        us.append({"runner": "seqlemma", "prop": prop, "id": "specs/c17q.py::queue-functions"})
    if "mcast" in fams:
        us.append({"runner": "mcast", "prop": prop, "id": "reactivex/observable/connectableobservable.py::multicasting"})
    if "seqcomp" in fams:
        us.append({"runner": "seqcomp", "prop": prop, "id": "reactivex/observable/concat.py::sequential-composition"})
    if "resrc" in fams:
        us.append({"runner": "resrc", "prop": prop, "id": "reactivex/observable/using.py::using_+finally"})
    if "srcfac" in fams:
        us.append({"runner": "srcfac", "prop": prop, "id": "reactivex/observable/::source-factories"})
    if "periodic" in fams:
        us.append({"runner": "periodic", "prop": prop, "id": "reactivex/scheduler/periodicscheduler.py::PeriodicScheduler.schedule_periodic"})
    if "tramp" in fams:
        us.append({"runner": "tramp", "prop": prop, "id": "reactivex/scheduler/trampoline.py::Trampoline"})
    if "opacity" in fams:
        us.append({"runner": "opacity", "prop": prop, "id": f"opacity-conditions/{prop}"})
    if "guard" in fams or (prop in CALLEE_USERS and prop != "C25"):
        # (every operator proof says "a user function that raises ends the sequence with that error": that its handlers let no user exception
        # escape into whoever emitted the notification is the guard condition, checked over the operator files inside each operator property)
        us.append({"runner": "guard", "prop": prop, "id": f"guard-conditions/{prop}"})
    if prop in ("C05", "C08"):
        # the indexed forms that are compositions (map_indexed, skip_while_indexed, starmap_indexed, pluck_attr) and the stage that attaches the index
        us.append({"runner": "indexed", "prop": prop, "id": "reactivex/operators::indexed-forms"})
    if prop in ("C05", "C08", "C15", "C38"):
        # the notification classes: elements of materialize / dematerialize (C05, C08: falsy payloads; C15: timestamp / delay go through materialize),
        # and what the marble test helpers record (C38)
        us.append({"runner": "notif", "prop": prop, "id": "reactivex/notification.py::Notification"})
    if "srcwire" in fams:
        us.append({"runner": "srcwire", "prop": prop, "id": "reactivex/observable/repeat.py::repeat_value_"})
    if "catchsched" in fams:
        us.append({"runner": "catchsched", "prop": prop, "id": "reactivex/scheduler/catchscheduler.py::CatchScheduler"})
    if "lockset" in fams:
        us += lockset_units(prop)
    if "slice" in fams:
        us.append({"runner": "slicelemma", "prop": prop, "id": "reactivex/operators/_slice.py::slice_"})
    if "vts" in fams:
        us.append({"runner": "vts", "prop": prop, "id": "reactivex/scheduler/virtualtimescheduler.py::VirtualTimeScheduler"})
    if "frame" in fams:
        us.append({"runner": "frame", "prop": prop, "id": f"frame-conditions/{prop}"})
    if "subscribe" in fams or (prop in CALLEE_USERS and prop != "C25"):
        # (every operator hands back Observable(subscribe): what reaches its subscribe function, and what wraps the subscriber, is the contract of
        # Observable.subscribe and of the auto-detaching observer - implicit callees of every operator proof, re-proved inside its property)
        us.append({"runner": "subscribe_unit", "prop": prop, "id": "reactivex/observable/observable.py::Observable.subscribe"})
        if not any(u.get("name") == "AutoDetachObserver" for u in us):
            for c in importlib.import_module("contracts.c01").CLASSES:
                if c.name == "AutoDetachObserver":
                    us.append({"runner": "classref", "module": "contracts.c01", "name": c.name, "prop": prop, "id": c.uid})
    for (m, name) in USES_OPS.get(prop, ()):
        for c in getattr(importlib.import_module(m), "CONTRACTS", []):
            if c.name == name and not any(u["id"] == c.uid for u in us):
                us.append({"runner": "k1", "module": m, "name": c.name, "prop": prop, "id": c.uid})
    us += callee_units(prop, {u["id"] for u in us})
    if prop in STATE_ALLOCATION:
        us.append({"runner": "frame", "mode": "local", "prop": prop, "files": _property_files(prop), "id": f"state-allocation/{prop}"})
        # ... and about the implementation functions: the public entry points reach them with the very arguments (pubapi.py)
        us.append({"runner": "pubapi", "prop": prop, "files": _property_files(prop), "id": f"public-entry-points/{prop}"})
    if prop in ("C02", "C03") and "own" in fams:
        # the ownership analysis (own.py) proves, for ONE subscription, that every handle it takes ends up owned by what subscribe returns.  That it
        # speaks for every subscription needs the frame condition over the same files: a handle kept in a variable that several subscriptions /
        # applications share is overwritten by the next one, and released by the wrong one
        import glob as _glob
        from .loader import REPO as _REPO
        fl = sorted(os.path.relpath(f_, _REPO) for pat in ("reactivex/operators/**/*.py", "reactivex/observable/**/*.py")
                    for f_ in _glob.glob(os.path.join(_REPO, pat), recursive=True))
        us.append({"runner": "frame", "mode": "local", "prop": prop, "files": fl, "id": f"state-allocation/{prop}"})
    if prop == "C44" or prop in STATE_ALLOCATION:
        # the decorator every operator implementation function goes through (the contracts call `op_(args)(source)`)
        us.append({"runner": "currywire", "prop": prop, "id": "reactivex/internal/curry.py::curry_flip"})
    cf = _class_files(prop)
    if cf:
        # the class contracts speak about one object: no state in class-level containers shared by all instances (frame.run_class_state)
        us.append({"runner": "frame", "mode": "classes", "prop": prop, "files": cf, "id": f"instance-state/{prop}"})
    for u in us:
        u["tier"] = tier
    return us
