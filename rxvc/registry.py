"""Which units decide which property."""
from __future__ import annotations

import importlib


def op_units(prop, modules):
    """all OpContracts of the given contract modules that list `prop`"""
    out = []
    for m in modules:
        mod = importlib.import_module(m)
        for c in mod.CONTRACTS:
            if prop in c.props:
                out.append({"runner": "k1", "module": m, "name": c.name, "prop": prop, "id": c.uid})
    return out


OP_MODULES = ["contracts.c05"]


def units_for(prop, tier):
    us = []
    us += op_units(prop, OP_MODULES)
    for u in us:
        u["tier"] = tier
    return us


CLAIMED = ["C05"]
