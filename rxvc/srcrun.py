"""Native runner for the source factories (replay of C37 violations; bounded).

Runs under /venv/bin/python on a VirtualTimeScheduler.  Each factory is run on a grid of arguments and compared with
the Python computation the property names: list(range(...)), list(iterable), the while-loop of generate, the
states-with-delays of generate_with_relative_time (virtual emission times included, zero and timedelta delays
included), timer(d) -> (d, 0), repeat_value(v, n) -> [v] * n, return_value / empty / never / throw.  BOUNDED.

usage: srcrun.py replay - C37 '<json opts>'
       srcrun.py case '<json case>'
"""
from __future__ import annotations

import itertools
import json
import os
import sys
from datetime import timedelta

VERIF = os.path.dirname(os.path.dirname(os.path.abspath(__file__)))
REPO = os.environ.get("RXVC_REPO", "/repo")
if REPO not in sys.path:
    sys.path.insert(0, REPO)


class Boom(Exception):
    pass


def record(build, horizon=50.0):
    """-> list of (virtual time, kind, payload)"""
    from reactivex.scheduler import VirtualTimeScheduler
    s = VirtualTimeScheduler()
    out = []

    def t():
        n = s.now
        return round(n.timestamp() if hasattr(n, "timestamp") else float(n), 6)
    escaped = None
    try:
        obs = build(s)
        obs.subscribe(lambda v: out.append((t(), "N", v)), lambda e: out.append((t(), "E", type(e).__name__)), lambda: out.append((t(), "C")), scheduler=s)
        s.advance_to(horizon)
    except Exception as e:  # noqa: BLE001
        escaped = f"{type(e).__name__}: {e}"
    return out, escaped


def untimed(out):
    return [e[1:] for e in out]


def cases():
    vals = [-2, -1, 0, 1, 3]
    for a in vals:
        yield {"f": "range", "args": [a]}
        for b in vals:
            yield {"f": "range", "args": [a, b]}
            for c in (-2, -1, 1, 2):
                yield {"f": "range", "args": [a, b, c]}
    for xs in ([], [None], [0, None, ""], [1, 2, 3], [None, None]):
        yield {"f": "from_iterable", "xs": xs}
        yield {"f": "of", "xs": xs}
        yield {"f": "from_generator", "xs": xs, "raise_at": None}
        for k in range(len(xs) + 1):
            yield {"f": "from_generator", "xs": xs, "raise_at": k}
    for xs in ([1, 2, 3], [None, 0, "", 4]):
        for k in range(len(xs)):
            # the subscriber disposes from inside on_next of element k: the user's iterator is not asked again (C03 / C14)
            yield {"f": "dispose_in_on_next", "xs": xs, "at": k}
    for v in (None, 0, "x"):
        yield {"f": "return_value", "v": v}
        for n in (0, 1, 3):
            yield {"f": "repeat_value", "v": v, "n": n}
    yield {"f": "empty"}
    yield {"f": "never"}
    yield {"f": "throw"}
    for n in (0, 1, 3):
        for raise_cond, raise_iter in itertools.product((None, 0, 1, 2), repeat=2):
            yield {"f": "generate", "n": n, "raise_cond": raise_cond, "raise_iter": raise_iter}
        for delays in ([0], [0.0], [1.0], [0, 2.0], ["td0"], ["td1"], [1.0, 0, "td1"]):
            yield {"f": "generate_timed", "n": n, "delays": delays}
    for d in (0, 0.0, 1.0, 2.5, "td1", "td_frac", "td_day", "td_neg"):
        yield {"f": "timer", "d": d}


def delay_of(x):
    if x == "td0":
        return timedelta(0)
    if x == "td1":
        return timedelta(seconds=1)
    if x == "td_frac":
        return timedelta(seconds=2, microseconds=250000)
    if x == "td_day":
        return timedelta(days=1, seconds=5)       # the `days` component counts
    if x == "td_neg":
        return timedelta(seconds=-1)              # normalised to days=-1, seconds=86399: still "already due"
    return x


def secs(x):
    x = delay_of(x)
    return x.total_seconds() if isinstance(x, timedelta) else float(x)


def run(c):
    import reactivex as rx
    f = c["f"]
    if f == "range":
        out, esc = record(lambda s: rx.range(*c["args"]))
        want = [("N", v) for v in range(*c["args"])] + [("C",)]
        return None if untimed(out) == want and not esc else {"got": untimed(out)[:12], "expected": want[:12], "escaped": esc}
    if f in ("from_iterable", "of"):
        out, esc = record(lambda s: rx.from_iterable(list(c["xs"])) if f == "from_iterable" else rx.of(*c["xs"]))
        want = [("N", v) for v in c["xs"]] + [("C",)]
        return None if untimed(out) == want and not esc else {"got": untimed(out), "expected": want, "escaped": esc}
    if f == "from_generator":
        def gen():
            for i, x in enumerate(c["xs"]):
                if c["raise_at"] == i:
                    raise Boom("gen")
                yield x
            if c["raise_at"] == len(c["xs"]):
                raise Boom("gen")
        out, esc = record(lambda s: rx.from_iterable(gen()))
        k = c["raise_at"]
        want = [("N", v) for v in (c["xs"] if k is None else c["xs"][:k])] + ([("C",)] if k is None else [("E", "Boom")])
        return None if untimed(out) == want and not esc else {"got": untimed(out), "expected": want, "escaped": esc}
    if f == "dispose_in_on_next":
        from reactivex.scheduler import VirtualTimeScheduler
        s = VirtualTimeScheduler()
        pulls, got, holder = [], [], {}

        def gen():
            for i, x in enumerate(c["xs"]):
                pulls.append(i)
                yield x

        def on_next(v):
            got.append(v)
            if len(got) == c["at"] + 1:
                holder["sub"].dispose()
        esc = None
        try:
            holder["sub"] = rx.from_iterable(gen()).subscribe(on_next, lambda e: got.append("E"), lambda: got.append("C"), scheduler=s)
            s.advance_to(50.0)
        except Exception as e:  # noqa: BLE001
            esc = f"{type(e).__name__}: {e}"
        want_got, want_pulls = c["xs"][:c["at"] + 1], list(range(c["at"] + 1))
        ok = got == want_got and pulls == want_pulls and not esc
        return None if ok else {"got": {"received": got, "items pulled from the user's iterator": pulls},
                                "expected": {"received": want_got, "items pulled from the user's iterator": want_pulls}, "escaped": esc}
    if f == "return_value":
        out, esc = record(lambda s: rx.return_value(c["v"]))
        want = [("N", c["v"]), ("C",)]
        return None if untimed(out) == want and not esc else {"got": untimed(out), "expected": want, "escaped": esc}
    if f == "repeat_value":
        made = []

        def build(s):
            if not made:
                made.append(rx.repeat_value(c["v"], c["n"]))
            return made[0]
        out, esc = record(build)
        want = [("N", c["v"])] * c["n"] + [("C",)]
        if untimed(out) != want or esc:
            return {"got": untimed(out), "expected": want, "escaped": esc}
        # the SAME observable subscribed again (as repeat / retry / concat would): the same sequence again
        out2, esc2 = record(build)
        return None if untimed(out2) == want and not esc2 else {"got": untimed(out2), "expected": want, "escaped": esc2,
                                                               "note": "second subscription of the same repeat_value(v, n) observable"}
    if f == "empty":
        out, esc = record(lambda s: rx.empty())
        return None if untimed(out) == [("C",)] and not esc else {"got": untimed(out), "escaped": esc}
    if f == "never":
        out, esc = record(lambda s: rx.never())
        return None if out == [] and not esc else {"got": untimed(out), "escaped": esc}
    if f == "throw":
        out, esc = record(lambda s: rx.throw(Boom("x")))
        return None if untimed(out) == [("E", "Boom")] and not esc else {"got": untimed(out), "escaped": esc}
    if f == "generate":
        n, rc, ri = c["n"], c["raise_cond"], c["raise_iter"]
        calls = {"c": 0, "i": 0}

        def cond(x):
            calls["c"] += 1
            if rc is not None and calls["c"] == rc + 1:
                raise Boom("cond")
            return x < n

        def it_(x):
            calls["i"] += 1
            if ri is not None and calls["i"] == ri + 1:
                raise Boom("iter")
            return x + 1
        out, esc = record(lambda s: rx.generate(0, cond, it_))
        # the reference while-loop with the same fault positions
        want, cc, ii, x = [], 0, 0, 0
        try:
            while True:
                cc += 1
                if rc is not None and cc == rc + 1:
                    raise Boom("cond")
                if not x < n:
                    want.append(("C",))
                    break
                want.append(("N", x))
                ii += 1
                if ri is not None and ii == ri + 1:
                    raise Boom("iter")
                x = x + 1
        except Boom:
            want.append(("E", "Boom"))
        return None if untimed(out) == want and not esc else {"got": untimed(out), "expected": want, "escaped": esc}
    if f == "generate_timed":
        n, delays = c["n"], c["delays"]
        out, esc = record(lambda s: rx.generate_with_relative_time(0, lambda x: x < n, lambda x: x + 1, lambda x: delay_of(delays[x % len(delays)])))
        want, t = [], 0.0
        for x in range(n):
            t += secs(delays[x % len(delays)])
            want.append((round(t, 6), "N", x))
        want.append((round(t, 6), "C"))
        return None if out == want and not esc else {"got": out, "expected": want, "escaped": esc}
    if f == "timer":
        d = delay_of(c["d"])
        out, esc = record(lambda s: rx.timer(d), horizon=max(50.0, secs(c["d"]) + 10.0))
        at = max(0.0, secs(c["d"]))
        want = [(round(at, 6), "N", 0), (round(at, 6), "C")]
        return None if out == want and not esc else {"got": out, "expected": want, "escaped": esc}
    raise SystemExit(f"unknown case {c}")


REPLAY_TEMPLATE = '''#!/venv/bin/python
"""Replay of a violation of property {prop} (source factories).
obligation: {oid}
case: {case}
{what}
Exit 1 when it reproduces on the tree under RXVC_REPO (default /repo)."""
import subprocess, sys
r = subprocess.run(["/venv/bin/python", "{verif}/rxvc/srcrun.py", "case", {case!r}])
sys.exit(r.returncode)
'''


def main(argv):
    if argv[0] == "case":
        r = run(json.loads(argv[1]))
        print(json.dumps({"violation": r}, default=repr))
        sys.exit(1 if r else 0)
    opts = json.loads(argv[3]) if len(argv) > 3 else {}
    n, found = 0, None
    for c in cases():
        n += 1
        r = run(c)
        if r:
            found = {"case": c, "disagreement": r}
            break
    res = {"cases": n, "found": [found] if found else []}
    if found and "replay_path" in opts:
        os.makedirs(os.path.dirname(opts["replay_path"]), exist_ok=True)
        with open(opts["replay_path"], "w") as f:
            f.write(REPLAY_TEMPLATE.format(prop=opts.get("prop", "C37"), oid=opts.get("oid", "?"), verif=VERIF,
                                           case=json.dumps(found["case"]), what=json.dumps(found["disagreement"], default=repr)[:700]))
        res["replay"] = opts["replay_path"]
    print(json.dumps(res, default=repr))


if __name__ == "__main__":
    main(sys.argv[1:])
