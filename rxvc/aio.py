"""C33: function / closure contracts for AsyncIOScheduler and AsyncIOThreadSafeScheduler against the contract of an
asyncio event loop, discharged on the real code.

Contract of the loop (assumed, from the asyncio documentation):
  call_soon(f) / call_soon_threadsafe(f) / call_later(s, f) return a handle; the loop's thread runs f once, later, in FIFO
  order of the call_soon* calls (call_later: not before s seconds of the loop's clock) - unless handle.cancel() returned
  before f started.  Only call_soon_threadsafe may be used from another thread while the loop runs: handle.cancel() is NOT
  thread-safe - it keeps its promise only when it is called on the loop's thread (callbacks never interleave there) or
  while the loop is not running.
What is proved, for every scenario (who calls dispose: the loop thread / another thread that runs its own loop / a plain
thread without a loop; loop running or not; for the two-stage relative schedule: before or after the first stage ran):
  schedule*           invoke nothing themselves: the action is invoked exactly once, with (scheduler, state), only from a
                      callback handed to the loop (so on the loop's thread), through call_soon / call_soon_threadsafe for
                      schedule and non-positive delays, call_later(seconds) with seconds = the positive delay otherwise;
                      schedule_absolute = schedule_relative(due - now);
  dispose             every handle.cancel() happens on the loop's thread or while the loop is not running; from another thread
                      while the loop runs the cancellation is handed to the loop with call_soon_threadsafe and dispose()
                      returns only after future.result() - which that callback resolves AFTER cancelling; whichever way, once
                      dispose() has returned EVERY handle of this schedule that can still fire is cancelled - including the
                      timer handle the first stage creates when it runs between dispose()'s entry and the cancellation."""
from __future__ import annotations

import time

import z3

from . import smt
from .interp import NOTSET, Interp, World, explore
from .loader import Loader, all_functions
from .refine import Result
from .values import SV, BoundMethod, Closure, Native, Obj, Opaque, PyExc, Unsupported

AFILE = "reactivex/scheduler/eventloop/asyncioscheduler.py"
TFILE = "reactivex/scheduler/eventloop/asynciothreadsafescheduler.py"

#: who calls dispose: the loop's own thread; a thread that runs a loop of its own; a plain thread; a plain thread for which the
#: scheduler's loop is the CURRENT event loop (asyncio.set_event_loop(loop) - typical: the main thread creates and installs the
#: loop, a worker thread runs it): get_running_loop() raises there, get_event_loop() answers the scheduler's loop
CALLERS = ["loop-thread", "other-thread-with-its-own-loop", "plain-thread", "plain-thread-with-this-loop-installed"]


class AWorld(World):
    def __init__(self, h):
        super().__init__()
        self.h = h
        self.log = []
        self.handles = []
        self.thread = "caller"     # whose code is running now: "caller" (the thread that called schedule/dispose) or "loop"
        self.caller_kind = "loop-thread"
        self.running = True
        self.clock = None

    def now(self, it):
        t = it.ctx.fresh("now", "int")
        if self.clock is not None:
            it.ctx.assume(t.t >= self.clock)
        self.clock = t.t
        self.log.append(("now", t.t))
        return t

    def on_loop_thread(self):
        return self.thread == "loop" or self.caller_kind == "loop-thread"

    def eq(self, it, a, b):
        return a is b

    def call(self, it, o, method, args, kwargs):
        if o.kind == "loop":
            if method == "is_running":
                if getattr(self, "timed_out", 0) and self.thread == "caller" and self.running and not getattr(self, "stop_decided", False):
                    # a thread that has just waited in vain for the loop asks again: the loop may have been stopped meanwhile (loop.stop(),
                    # run_until_complete finishing) - to be run again later
                    self.stop_decided = True
                    if it.ctx.choose(2, "the loop was stopped while dispose() was waiting for it") == 1:
                        self.running = False
                        self.log.append(("loop-stopped-meanwhile",))
                return self.running
            if method in ("call_soon", "call_soon_threadsafe", "call_later"):
                fn = args[-1] if method != "call_later" else args[1]
                h = Opaque("handle", f"handle#{len(self.handles) + 1}", fn=fn, how=method, delay=args[0] if method == "call_later" else None,
                           cancelled=False, started=False)
                self.handles.append(h)
                self.log.append((method, h, self.thread, self.on_loop_thread()))
                if (method == "call_soon_threadsafe" and self.running and not self.on_loop_thread() and not getattr(self, "early", False)
                        and self.thread == "caller" and it.ctx.choose(2, "the loop thread runs the callback before the calling thread gets the handle back") == 1):
                    # two threads: the loop may pick the callback up at once - the caller is preempted before it has done anything with the handle
                    self.early = True
                    prev = self.thread
                    self.thread = "loop"
                    h.attrs["started"] = True
                    self.log.append(("loop-runs", h))
                    try:
                        it.call(fn, [], {})
                    finally:
                        self.thread = prev
                return h
            if method == "time":
                return self.now(it)
        if o.kind == "handle" and method == "cancel":
            self.log.append(("cancel", o, self.thread, self.on_loop_thread(), self.running))
            o.attrs["cancelled"] = True
            return None
        if o.kind == "handle" and method == "cancelled":
            return o.attrs["cancelled"]
        if o.kind == "future":
            if method == "set_result":
                self.log.append(("future.set_result", o, self.thread))
                o.attrs["done"] = True
                return None
            if method == "result":
                self.log.append(("future.result", o, self.thread, o.attrs.get("done", False)))
                timed = bool(args) or "timeout" in kwargs
                if timed and not o.attrs.get("done") and getattr(self, "timed_out", 0) < 2 and it.ctx.choose(2, "the timed wait for the future ran out") == 1:
                    # Future.result(timeout): raises TimeoutError when the result has not arrived in time (the loop has not got round to it)
                    self.timed_out = getattr(self, "timed_out", 0) + 1
                    raise PyExc(it.make_exc("TimeoutError", "timed out waiting for the loop"))
                if not o.attrs.get("done"):
                    # the caller blocks here until the loop has run what was handed to it
                    self.h.run_loop_queue(it)
                if not o.attrs.get("done"):
                    self.log.append(("deadlock",))
                return 0
        if o.kind == "disposable":
            self.log.append(("dispose", o))
            return None
        if o.kind in ("lock", "logger"):
            return None
        return super().call(it, o, method, args, kwargs)


class AioHarness:
    def __init__(self, loader=None):
        self.loader = loader or Loader()
        self.results = []
        self.unsupported = None
        self.functions = {}

    def rec(self, ctx, oid, goal, detail=""):
        t0 = time.time()
        if isinstance(goal, bool):
            goal = z3.BoolVal(goal)
        v, m, b = smt.prove(ctx.pc, goal)
        ctx.results.append(Result(oid, v, b, smt.model_to_dict(m), list(ctx.branch_log), detail, time.time() - t0, "post"))

    def hook(self, it, f, args, kwargs):
        fn = f.func if isinstance(f, BoundMethod) else f
        q = getattr(fn, "qualname", None) if isinstance(fn, Closure) else None
        if q in ("Scheduler.to_seconds", "Scheduler.to_timedelta", "Scheduler.to_datetime"):
            return args[-1] if args else kwargs.get("value")
        if q == "Scheduler.now" or (q or "").endswith(".now"):
            return self.w.now(it)
        if q == "Scheduler.invoke_action":
            a = ([f.self_val] + list(args)) if isinstance(f, BoundMethod) else list(args)
            self.w.log.append(("invoke_action", a, dict(kwargs), self.w.thread))
            return Opaque("disposable", "returned-by-action")
        return NOTSET

    def setup(self, ctx, threadsafe):
        w = self.w = AWorld(self)
        it = self.it = Interp(self.loader, ctx, w)
        it.call_hook = self.hook
        loop = self.loop = Opaque("loop", "the-loop")
        other = Opaque("loop", "another-loop")

        def get_running_loop(it_, a, k):
            if w.thread == "loop" or w.caller_kind == "loop-thread":
                return loop
            if w.caller_kind == "other-thread-with-its-own-loop":
                return other
            raise PyExc(it.make_exc("RuntimeError", "no running event loop"))
        def get_event_loop(it_, a, k):
            # the running loop of this thread if there is one, else the loop installed for this thread (asyncio's contract)
            if w.thread != "loop" and w.caller_kind == "plain-thread-with-this-loop-installed":
                return loop
            return get_running_loop(it_, a, k)
        it.externals["asyncio.get_running_loop"] = Native("get_running_loop", get_running_loop)
        it.externals["asyncio.get_event_loop"] = Native("get_event_loop", get_event_loop)
        it.externals["concurrent.futures.Future"] = Native("Future", lambda it_, a, k: Opaque("future", "future"))
        if "builtins.TimeoutError" in it.externals:
            it.externals["concurrent.futures.TimeoutError"] = it.externals["builtins.TimeoutError"]  # (an alias since Python 3.11)
        mod = "reactivex.scheduler.eventloop.asynciothreadsafescheduler" if threadsafe else "reactivex.scheduler.eventloop.asyncioscheduler"
        cls = it.module_get(mod, "AsyncIOThreadSafeScheduler" if threadsafe else "AsyncIOScheduler")
        o = self.obj = Obj(cls)
        o.fields["_loop"] = loop
        return it, o

    def run_loop_queue(self, it):
        """the loop's thread runs the pending call_soon* callbacks, in FIFO order, skipping cancelled ones"""
        w = self.w
        if not w.running:
            return
        prev = w.thread
        w.thread = "loop"
        try:
            progress = True
            while progress:
                progress = False
                for h in list(w.handles):
                    if h.attrs["how"] != "call_later" and not h.attrs["started"] and not h.attrs["cancelled"]:
                        h.attrs["started"] = True
                        w.log.append(("loop-runs", h))
                        it.call(h.attrs["fn"], [], {})
                        progress = True
                        break
        finally:
            w.thread = prev

    # -- scenarios --------------------------------------------------------------------------------------------------
    def run_schedule(self, ctx, threadsafe, name, caller, running, stage2_first, sched_running=None):
        """`running`: the loop's state when dispose() is called; `sched_running`: its state when the action was scheduled, if different (the loop
        was started - or stopped - in between: what dispose() does must follow the state it finds, not the one the schedule call saw)"""
        it, o = self.setup(ctx, threadsafe)
        w = self.w
        cname = "AsyncIOThreadSafeScheduler" if threadsafe else "AsyncIOScheduler"
        rel = TFILE if threadsafe else AFILE
        between = "" if sched_running is None else (", scheduled while the loop was " + ("running" if sched_running else "not running yet"))
        uid = f"{rel}::{cname}.{name}[dispose from {caller}, loop {'running' if running else 'not running'}{', first stage already ran' if stage2_first else ''}{between}]"
        w.caller_kind = caller
        w.running = running if sched_running is None else sched_running
        action, st0 = Opaque("callback", "action"), ctx.fresh("state", "val")
        d = ctx.fresh("delay", "int")
        if name == "schedule_relative":
            ctx.assume(d.t > 0)
        # the schedule call itself is made by some thread; for the plain scheduler that is the loop's thread
        w.thread = "caller"
        args = [action, st0] if name == "schedule" else [d, action, st0]
        res = it.call(it.get_attr(o, name), args, {})
        # (what the LOOP thread does meanwhile - it may pick a marshalled callback up before this call has returned - is not this call's doing)
        self.rec(ctx, uid + "/the-call-invokes-nothing-itself", not [e for e in w.log if e[0] == "invoke_action" and e[3] != "loop"])
        first = [e for e in w.log if e[0] in ("call_soon", "call_soon_threadsafe", "call_later") and e[2] != "loop"]
        self.rec(ctx, uid + "/hands-exactly-one-callback-to-the-loop", len(first) == 1)
        if len(first) != 1:
            return
        if threadsafe:
            self.rec(ctx, uid + "/through-call_soon_threadsafe", first[0][0] == "call_soon_threadsafe",
                     detail="the scheduling thread may not be the loop's: only call_soon_threadsafe may be used")
        else:
            self.rec(ctx, uid + "/through-" + ("call_soon" if name == "schedule" else "call_later"), first[0][0] == ("call_soon" if name == "schedule" else "call_later"))
        w.running = running
        if stage2_first:
            self.run_loop_queue(it)   # the loop ran what was queued (the first stage) before dispose() is called
        n0 = len(w.log)
        self.rec(ctx, uid + "/returns-a-disposable", isinstance(res, Obj))
        if not isinstance(res, Obj):
            return
        running_at_dispose = w.running
        it.call(it.get_attr(res, "dispose"), [], {})
        evs = w.log[n0:]
        cancels = [e for e in evs if e[0] == "cancel"]
        self.rec(ctx, uid + "/dispose/every-cancel-on-the-loop-thread-or-while-the-loop-is-not-running",
                 all(e[3] or not e[4] for e in cancels),
                 detail=f"handle.cancel() is not thread-safe: {[(e[1].name, e[2]) for e in cancels if not (e[3] or not e[4])]} called from another thread while the loop runs "
                        f"(it can interleave with the first stage arming the timer)")
        self.rec(ctx, uid + "/dispose/no-deadlock", not [e for e in evs if e[0] == "deadlock"],
                 detail="dispose() waits for a future that nothing on the loop will resolve")
        marshalled = [e for e in evs if e[0] == "call_soon_threadsafe"]
        if running_at_dispose and caller != "loop-thread":
            self.rec(ctx, uid + "/dispose/from-another-thread-the-cancellation-is-handed-to-the-loop", len(marshalled) == 1 and any(e[0] == "future.result" for e in evs))
            sr = [i for i, e in enumerate(evs) if e[0] == "future.set_result"]
            cs = [i for i, e in enumerate(evs) if e[0] == "cancel"]
            self.rec(ctx, uid + "/dispose/the-future-is-resolved-only-after-cancelling", bool(sr) and bool(cs) and max(cs) < min(sr))
        else:
            self.rec(ctx, uid + "/dispose/on-the-loop-thread-or-with-a-stopped-loop-nothing-is-handed-to-the-loop-and-nothing-is-waited-for",
                     not marshalled and not [e for e in evs if e[0] == "future.result"])
        # once dispose() has returned: every handle of this schedule that can still fire is cancelled
        live = [h for h in w.handles if not h.attrs["cancelled"] and not h.attrs["started"] and h.attrs["fn"] is not None
                and not (h in [e[1] for e in marshalled])]
        self.rec(ctx, uid + "/dispose/afterwards-no-handle-of-this-schedule-can-still-fire", not live,
                 detail=f"still armed after dispose() returned: {[(h.name, h.attrs['how']) for h in live]}")
        # and the loop goes on: whatever it still runs (pending callbacks, then every timer that is still armed) does not start
        # the action any more
        n1 = len(w.log)
        if w.running or True:
            w.running = True
            self.run_loop_queue(it)
            for h in list(w.handles):
                if h.attrs["how"] == "call_later" and not h.attrs["cancelled"] and not h.attrs["started"]:
                    h.attrs["started"] = True
                    w.thread = "loop"
                    it.call(h.attrs["fn"], [], {})
                    w.thread = "caller"
        self.rec(ctx, uid + "/dispose/once-it-returned-the-action-never-starts", not [e for e in w.log[n1:] if e[0] == "invoke_action"],
                 detail="the loop (started or resumed after dispose() returned) still ran the action")

    def run_fire(self, ctx, threadsafe, name):
        """no dispose: the loop runs the callbacks; the action is invoked exactly once, on the loop's thread, after the delay"""
        it, o = self.setup(ctx, threadsafe)
        w = self.w
        cname = "AsyncIOThreadSafeScheduler" if threadsafe else "AsyncIOScheduler"
        rel = TFILE if threadsafe else AFILE
        uid = f"{rel}::{cname}.{name}[fires]"
        action, st0 = Opaque("callback", "action"), ctx.fresh("state", "val")
        d = ctx.fresh("delay", "int")
        w.caller_kind = "plain-thread" if threadsafe else "loop-thread"
        if name == "schedule_absolute":
            rel_calls = []

            def hook(it_, f, args, kwargs):
                fn = f.func if isinstance(f, BoundMethod) else f
                q = getattr(fn, "qualname", None) if isinstance(fn, Closure) else None
                if q == f"{cname}.schedule_relative":
                    rel_calls.append((list(args), dict(kwargs)))
                    return Opaque("disposable", "from-schedule_relative")
                return self.hook(it_, f, args, kwargs)
            it.call_hook = hook
            res = it.call(it.get_attr(o, name), [d, action, st0], {})
            ok = len(rel_calls) == 1
            self.rec(ctx, uid + "/is-schedule_relative-of-the-remaining-time", ok)
            if ok:
                a, kw = rel_calls[0]
                got = dict(zip(["duetime", "action", "state"], a[1:] if a and a[0] is o else a))
                got.update(kw)
                nows = [e[1] for e in w.log if e[0] == "now"]
                self.rec(ctx, uid + "/remaining-time=due-now", bool(nows) and isinstance(got.get("duetime"), SV) and got["duetime"].t == d.t - nows[-1])
                self.rec(ctx, uid + "/same-action-and-state", got.get("action") is action and got.get("state") is st0)
                self.rec(ctx, uid + "/returns-its-disposable", isinstance(res, Opaque) and res.name == "from-schedule_relative")
            return
        positive = None
        if name == "schedule_relative":
            positive = ctx.branch(d.t > 0, "positive delay")
        args = [action, st0] if name == "schedule" else [d, action, st0]
        it.call(it.get_attr(o, name), args, {})
        self.run_loop_queue(it)
        timers = [h for h in w.handles if h.attrs["how"] == "call_later"]
        if name == "schedule" or positive is False:
            self.rec(ctx, uid + "/no-timer-for-an-immediate-schedule", not timers)
        else:
            ok = len(timers) == 1
            self.rec(ctx, uid + "/exactly-one-timer", ok)
            if ok:
                dl = timers[0].attrs["delay"]
                self.rec(ctx, uid + "/timer-delay-is-the-requested-delay", isinstance(dl, SV) and dl.t.eq(d.t), detail=f"call_later({dl!r}, ..)")
                self.rec(ctx, uid + "/timer-armed-on-the-loop-thread", [e for e in w.log if e[0] == "call_later"][0][3])
                self.rec(ctx, uid + "/nothing-invoked-before-the-timer-fires", not [e for e in w.log if e[0] == "invoke_action"])
                w.thread = "loop"
                timers[0].attrs["started"] = True
                it.call(timers[0].attrs["fn"], [], {})
                w.thread = "caller"
        inv = [e for e in w.log if e[0] == "invoke_action"]
        self.rec(ctx, uid + "/the-action-is-invoked-exactly-once", len(inv) == 1)
        if len(inv) == 1:
            a, kw, th = inv[0][1], inv[0][2], inv[0][3]
            got = dict(zip(["action", "state"], a[1:] if a and a[0] is o else a))
            got.update(kw)
            self.rec(ctx, uid + "/with-this-scheduler-action-and-state", bool(a) and a[0] is o and got.get("action") is action and got.get("state") is st0)
            self.rec(ctx, uid + "/on-the-loop's-thread", th == "loop")

    def run(self):
        t0 = time.time()
        try:
            for rel, cname in ((AFILE, "AsyncIOScheduler"), (TFILE, "AsyncIOThreadSafeScheduler")):
                node = self.loader.find(rel, cname)
                for q, n in all_functions(node, cname):
                    if q.split(".")[1] in ("schedule", "schedule_relative", "schedule_absolute", "_on_self_loop_or_not_running"):
                        self.functions[f"{rel}::{q}"] = self.loader.sha(rel, q)
            for threadsafe in (False, True):
                for name in ("schedule", "schedule_relative", "schedule_absolute"):
                    for p in explore(lambda c, _t=threadsafe, _n=name: self.run_fire(c, _t, _n)):
                        self.results.extend(p.results)
                for name in ("schedule", "schedule_relative"):
                    for running in (True, False):
                        callers = CALLERS if threadsafe else ["loop-thread"]
                        for caller in callers:
                            if not threadsafe and not running:
                                pass
                            for s2 in ((False, True) if (threadsafe and name == "schedule_relative" and running) else (False,)):
                                for p in explore(lambda c, _t=threadsafe, _n=name, _c=caller, _r=running, _s=s2: self.run_schedule(c, _t, _n, _c, _r, _s)):
                                    self.results.extend(p.results)
                                if threadsafe:
                                    # the loop changed state between the schedule call and dispose()
                                    for p in explore(lambda c, _t=threadsafe, _n=name, _c=caller, _r=running, _s=s2: self.run_schedule(c, _t, _n, _c, _r, _s, not _r)):
                                        self.results.extend(p.results)
        except Unsupported as e:
            self.unsupported = str(e)
        except PyExc as e:
            self.unsupported = f"interpreter-level exception: {e.value!r} {getattr(e.value, 'fields', '')}"
        self.seconds = time.time() - t0
        return self


MUTANTS = [
    (TFILE, "                    handle.pop().cancel()\n                    handle.pop().cancel()", "                    handle[0].cancel()", "only the first-stage handle is cancelled, never the timer"),
    (TFILE, "                do_cancel_handles()\n                future.set_result(0)", "                future.set_result(0)\n                do_cancel_handles()", "the future is resolved before cancelling"),
    (TFILE, "        handle = self._loop.call_soon_threadsafe(interval)", "        handle = self._loop.call_soon(interval)", "schedule uses the non-thread-safe call_soon"),
    (AFILE, "        handle = self._loop.call_later(seconds, interval)", "        handle = self._loop.call_later(0, interval)", "the delay is dropped"),
    (TFILE, "            handle.append(self._loop.call_later(seconds, interval))", "            self._loop.call_later(seconds, interval)", "the timer handle is not kept"),
]


def must_fail():
    res = {"mutants": 0, "killed": 0, "survivors": []}
    base = Loader()
    for rel, old, new, what in MUTANTS:
        src = base.load_file(rel).src
        if old not in src:
            continue
        ld = Loader()
        ld.overrides = {rel: src.replace(old, new, 1)}
        h = AioHarness(ld).run()
        res["mutants"] += 1
        if h.unsupported or any(r.verdict != "proved" for r in h.results):
            res["killed"] += 1
        else:
            res["survivors"].append(what)
    return res


def run_unit(desc):
    import json
    import os
    from .report import REPLAY_DIR, VERIF, native
    prop = desc.get("prop", "C33")
    h = AioHarness().run()
    rep = {"unit": f"{TFILE}::AsyncIO(ThreadSafe)Scheduler", "kind": "function / closure contracts against the contract of an asyncio loop",
           "functions": h.functions, "results": [r.as_dict() for r in h.results], "unsupported": h.unsupported,
           "spec_validation": [], "bounded": [], "seconds": h.seconds, "replayable": {"runner": "aiorun.py", "module": "-", "name": prop}}
    tier = desc.get("tier", "quick")
    if tier == "thorough" and not h.unsupported:
        mf = must_fail()
        rep["must_fail"] = dict(mf, unit=rep["unit"])
        if mf["mutants"] and mf["killed"] < mf["mutants"]:
            rep["crash"] = f"vacuity: mutants not refuted: {mf['survivors']}"
    if h.unsupported or tier == "thorough":
        res, err = native([os.path.join(VERIF, "rxvc", "aiorun.py"), "replay", "-", prop,
                           json.dumps({"replay_path": os.path.join(REPLAY_DIR, f"{prop}-standin-asyncio.py"), "prop": prop, "oid": rep["unit"] + "/bounded-standin"})], timeout=300)
        st = res if res is not None else {"found": [], "error": err, "cases": 0}
        rep["standin"] = st
        rep["bounded"].append({"function": rep["unit"], "bound": "aiorun.py: gated interleavings of a disposing thread with the loop thread on a loop with a virtual clock",
                               "cases": st.get("cases", 0), "mismatches": len(st.get("found", [])),
                               "role": "stand-in (out of subset)" if h.unsupported else "cross-check against CPython's asyncio"})
        if not h.unsupported and st.get("found") and all(r.verdict == "proved" for r in h.results):
            rep["crash"] = f"cross-check failed: contracts proved but the native run found {json.dumps(st['found'][0], default=repr)[:500]}"
    return rep
